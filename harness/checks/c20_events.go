package checks

// C20 — update notifications are complete, ordered and only for committed changes.
//
// One case = one mutation history on one node, observed by k bus recorders (update events) and
// by GraphQL subscriptions (one with a generated filter, one without). Ground truth for "what
// was committed" is the raw block store: after every operation the new composite / collection
// blocks are diffed out of /db/blocks. See DESIGN.md section 6, C20.
//
// Subscriber churn: recorders and GraphQL subscriptions are closed (Unsubscribe / context cancel)
// and opened in the middle of a history, at quiescent points and inside bursts, while others stay.
// Every subscriber must receive exactly the events of the commits made while it was subscribed.
// Stalled subscribers: a bus subscriber / the client of a GraphQL subscription stops reading (or never
// reads), more changes are committed than its buffer holds (the bus then waits for it, as documented),
// and it unsubscribes / cancels. From then on the bus must serve the subscribers that stay: they
// receive every commit of the window and every later one, and the node closes (stepStall).
// Quiescence of the bus is established by core.BusFence (a fresh subscriber, independent of the
// subscriptions under observation) followed by a Flush of every recorder, so that a subscriber the
// bus has stopped serving is REPORTED (its log lacks the events) instead of being waited for.

import (
	"bytes"
	"context"
	"encoding/hex"
	"encoding/json"
	"fmt"
	"math/rand/v2"
	"runtime"
	"sort"
	"strings"
	"sync"
	"time"

	"github.com/ipfs/go-cid"
	mh "github.com/multiformats/go-multihash"

	"github.com/sourcenetwork/defradb/client"
	"github.com/sourcenetwork/defradb/event"
	coreblock "github.com/sourcenetwork/defradb/internal/core/block"
	"github.com/sourcenetwork/defradb/internal/db"
	"github.com/sourcenetwork/defradb/verifharness/core"
)

type c20Params struct {
	Config   string   `json:"config"` // plain | branchable
	Subs     int      `json:"subs"`   // number of bus recorders
	Steps    int      `json:"steps"`
	Filter   int      `json:"filter"`           // index into c20Filters
	Script   []string `json:"script,omitempty"` // anchors: forced step kinds
	Parallel bool     `json:"parallel,omitempty"`
	Churn    bool     `json:"churn,omitempty"` // subscribers leave and join in the middle of the history
	// StallAt: before these steps of a generated history a subscriber that has stopped reading leaves (stepStall, variant StallKind[i])
	StallAt   []int    `json:"stall_at,omitempty"`
	StallKind []string `json:"stall_kind,omitempty"`
}

var c20Filters = []string{
	`{i: {_ge: 2}}`,
	`{i: {_eq: 1}}`,
	`{s: {_eq: "a"}}`,
	`{_and: [{i: {_le: 2}}, {s: {_ne: "a"}}]}`,
	`{_or: [{i: {_eq: 3}}, {s: {_eq: "b"}}]}`,
	`{i: {_eq: null}}`,
	`{n: {_gt: 2}}`,
}

const c20Marker = "__marker"

// subscription stall watchdog: a result that has not arrived by then will never arrive (queries
// take milliseconds); a logical barrier through the subscription goroutine does not exist.
const c20StallTimeout = 90 * time.Second

func c20SDL(config string) string {
	dir := ""
	if config == "branchable" {
		dir = "@branchable"
	}
	return fmt.Sprintf(`type Doc %s {
	name: String
	i: Int
	s: String
	f: Float
	u: Int @index(unique: true)
	n: Int @crdt(type: pncounter)
}
type Other {
	x: String
	v: Int
}`, dir)
}

// ---------------------------------------------------------------------------------------

type c20Commit struct {
	Cid        string
	DocID      string // "" = collection-level
	Collection bool
	Deleted    bool
	Other      bool // belongs to collection Other
}

type c20SubResult struct {
	Docs []map[string]any
	Errs []string
	Raw  string
}

type c20Sub struct {
	name   string
	filter string // "" = none
	mu     sync.Mutex
	log    []c20SubResult
	notify chan struct{}
	pos    int
	dead   bool
	cancel context.CancelFunc
	done   chan struct{}
	// churn
	gone       bool // cancelled by the history
	joinedMid  bool
	othersLeft int  // other subscribers (recorders, GraphQL subscriptions) that unsubscribed while this one was open
	leftSince  bool // ... since the last window in which this one was seen to be served
	// stalled: the client has stopped reading the result channel (holdCh non-nil, guarded by mu)
	stalled bool
	holdCh  chan struct{}
}

func (s *c20Sub) out() bool { return s.dead || s.gone || s.stalled }

// hold makes the reader stop taking results (it may take one more that it is already waiting for);
// release lets it continue.
func (s *c20Sub) hold() {
	s.mu.Lock()
	if s.holdCh == nil {
		s.holdCh = make(chan struct{})
	}
	s.mu.Unlock()
}

func (s *c20Sub) release() {
	s.mu.Lock()
	if s.holdCh != nil {
		close(s.holdCh)
		s.holdCh = nil
	}
	s.mu.Unlock()
}

// c20Rec is one event-bus subscriber of the history.
type c20Rec struct {
	id         int
	rc         *core.ChurnRecorder
	pos        int  // events consumed by the window checks
	leaving    bool // unsubscribed, last window not yet judged
	gone       bool
	starved    bool // reported as no longer served: not judged again
	joinedMid  bool
	othersLeft int
	leftSince  bool // another subscriber unsubscribed since the last window in which this one was seen to be served
	stalled    bool // paused by the history (stepStall): not flushed, not judged
}

func (rc *c20Rec) take() []core.BusEvent {
	evs := rc.rc.Events()
	out := evs[rc.pos:]
	rc.pos = len(evs)
	return out
}

// c20Want: what one subscriber has to receive in a window when that differs from "all commits of
// the window" (subscribers that joined or left inside a burst).
type c20Want struct {
	commits []c20Commit
	// cids committed after the first time another subscriber unsubscribed inside this window while
	// this one was subscribed (nil: nobody left inside the window)
	afterLeave map[string]bool
}

type c20Hist struct {
	ctx                   context.Context
	p                     c20Params
	r                     *core.Rec
	rng                   *rand.Rand
	n                     *core.Node
	col                   client.Collection
	oth                   client.Collection
	docV                  string    // schema version id of Doc
	recs                  []*c20Rec // every recorder the history ever had
	onReceive             func(e *core.BusEvent)
	announced             map[string]bool // cids announced to the reference recorder of each window
	subs                  []*c20Sub
	starved               bool // a subscriber was found not to be served any more: the history ends
	joinCount             int
	stackBuf              []byte
	oldDrainG             map[string]bool
	blocks                map[string]bool
	live, deleted, others []string
	marker                string
	nextID                int
	step                  int
	log                   []string
	failed, multi         bool
	tuples                map[string]bool
	badReceipt            int
	origin                map[string]map[string]any // docID -> creation input
	abort                 bool
	oldSubG               map[string]bool // subscription goroutines left over from earlier cases of this worker
	oldBusG               map[string]bool // bus / recorder goroutines left over from earlier cases of this worker
	wedged                bool            // the event bus of the node is blocked for good: the node cannot be closed synchronously
	stalls                int             // stepStall executed
}

func (h *c20Hist) logf(format string, a ...any) {
	h.log = append(h.log, fmt.Sprintf("%03d ", h.step)+fmt.Sprintf(format, a...))
}

func (h *c20Hist) detail(extra map[string]any) map[string]any {
	m := map[string]any{"config": h.p.Config, "recorders": h.p.Subs, "history": h.log, "subscribers_now": h.subscribers()}
	if len(h.log) > 60 {
		m["history"] = h.log[len(h.log)-60:]
	}
	for k, v := range extra {
		m[k] = v
	}
	return m
}

func (h *c20Hist) violate(sig, msg string, extra map[string]any) {
	h.r.Violate(sig, msg, h.detail(extra))
}

// newCommits diffs /db/blocks against the last call and returns the new composite and
// collection blocks (= the document-level and collection-level commits that were committed).
func (h *c20Hist) newCommits() []c20Commit {
	var out []c20Commit
	raw := h.n.RawScan(h.ctx, "/db/blocks")
	for k, v := range raw {
		if h.blocks[k] {
			continue
		}
		h.blocks[k] = true
		blk, err := coreblock.GetFromBytes([]byte(v))
		if err != nil {
			continue
		}
		if !blk.Delta.IsComposite() && !blk.Delta.IsCollection() {
			continue
		}
		l, err := blk.GenerateLink()
		core.Must(err)
		c := c20Commit{Cid: l.Cid.String(), DocID: string(blk.Delta.GetDocID()), Collection: blk.Delta.IsCollection()}
		if blk.Delta.IsComposite() {
			c.Deleted = blk.Delta.DocCompositeDelta.Status.IsDeleted()
			c.Other = blk.Delta.GetSchemaVersionID() != h.docV
		}
		out = append(out, c)
	}
	sort.Slice(out, func(a, b int) bool { return out[a].Cid < out[b].Cid })
	return out
}

func (h *c20Hist) liveRecs() []*c20Rec {
	var out []*c20Rec
	for _, rc := range h.recs {
		if !rc.gone && !rc.leaving && !rc.stalled {
			out = append(out, rc)
		}
	}
	return out
}

func (h *c20Hist) liveSubs() []*c20Sub {
	var out []*c20Sub
	for _, s := range h.subs {
		if !s.out() {
			out = append(out, s)
		}
	}
	return out
}

func (h *c20Hist) subscribers() []string {
	var out []string
	for _, rc := range h.recs {
		st := "subscribed"
		switch {
		case rc.gone || rc.leaving:
			st = "unsubscribed"
		case rc.starved:
			st = "subscribed, not served"
		}
		out = append(out, fmt.Sprintf("recorder#%d %s joined_mid_history=%v others_unsubscribed_meanwhile=%d events=%d", rc.id, st, rc.joinedMid, rc.othersLeft, rc.rc.Len()))
	}
	for _, s := range h.subs {
		st := "open"
		switch {
		case s.gone:
			st = "cancelled"
		case s.dead:
			st = "open, not served"
		}
		out = append(out, fmt.Sprintf("graphql:%s %s joined_mid_history=%v others_unsubscribed_meanwhile=%d", s.name, st, s.joinedMid, s.othersLeft))
	}
	return out
}

// barrier: every publication made so far has been pushed to the subscribers the bus knows
// (core.BusFence, through a fresh subscriber) and every recorder still subscribed has logged what
// it was given. Bounded by construction: it does not wait for anything that has to travel through
// a subscription under observation.
func (h *c20Hist) barrier() {
	core.BusFence(h.n.DB.Events())
	for _, rc := range h.recs {
		if rc.gone || rc.stalled {
			continue
		}
		if rc.leaving {
			rc.rc.WaitClosed() // the bus closes the channel when it handles the Unsubscribe, which precedes the fence
			continue
		}
		rc.rc.Flush()
	}
}

func (h *c20Hist) addRecorder(mid bool) *c20Rec {
	rc := &c20Rec{id: len(h.recs), rc: core.NewChurnRecorder(h.n.DB.Events(), h.onReceive, event.UpdateName), joinedMid: mid}
	h.recs = append(h.recs, rc)
	return rc
}

// noteLeft: a subscriber has unsubscribed; everybody who stays remembers it.
func (h *c20Hist) noteLeft() {
	others := 0
	for _, rc := range h.liveRecs() {
		rc.othersLeft++
		rc.leftSince = true
		others++
	}
	for _, s := range h.liveSubs() {
		s.othersLeft++
		s.leftSince = true
		others++
	}
	if others > 0 {
		h.r.Count("subscriber_left_while_others_stayed", 1)
	}
}

// checkWindow compares, for every recorder that was subscribed during (part of) the window, the
// events it received with the commits made while it was subscribed (per: subscribers that joined
// or left inside the window), and the recorders' sequences with each other. It returns the events
// of the reference recorder (the longest-standing one that is subscribed for the whole window).
func (h *c20Hist) checkWindow(kind, outcome string, commits []c20Commit, per map[*c20Rec]c20Want) (ref []core.BusEvent) {
	var refRec *c20Rec
	var refWant map[string]bool
	refClean := false
	for _, rc := range h.recs {
		if rc.gone || rc.starved || rc.stalled {
			continue
		}
		evs := rc.take()
		want := c20Want{commits: commits}
		partial := false
		if w, ok := per[rc]; ok {
			want, partial = w, len(w.commits) != len(commits)
		}
		primary := refRec == nil && !partial && !rc.leaving
		clean := h.checkEvents(rc, primary, kind, outcome, evs, want)
		wantSet := map[string]bool{}
		for _, c := range want.commits {
			wantSet[c.Cid] = true
		}
		switch {
		case primary:
			refRec, ref, refWant, refClean = rc, evs, wantSet, clean
			for _, e := range evs {
				h.announced[e.Cid] = true
			}
		case refRec != nil && clean && refClean:
			// same order at all subscribers, for the part of the window they share
			h.r.Count("subscriber_sequence_comparisons", 1)
			a, b := c20CidSeqIn(ref, wantSet), c20CidSeqIn(evs, refWant)
			if a != b {
				h.violate("event/subscribers-see-different-sequences", fmt.Sprintf("bus subscribers #%d and #%d received the events of the commits made while both were subscribed in different orders", refRec.id, rc.id),
					map[string]any{"operation": kind, "subscriber_reference": a, "subscriber_other": b})
			}
		}
		if rc.leaving {
			rc.leaving, rc.gone = false, true
		}
	}
	if refRec == nil && !h.starved {
		panic("C20 harness: no recorder was subscribed for the whole window")
	}
	return ref // nil if no recorder is served any more (reported; the history ends after this window)
}

// checkEvents: the events one recorder received in one quiescent window must be in bijection (by
// cid) with the commits found in the store for the part of the window it was subscribed for;
// docIDs must agree. primary: this recorder's comparison is the window's evaluation (counters).
func (h *c20Hist) checkEvents(rc *c20Rec, primary bool, kind, outcome string, evs []core.BusEvent, w c20Want) (clean bool) {
	commits := w.commits
	if primary {
		h.r.Count("evaluations", 1)
		h.r.Count("events_seen", int64(len(evs)))
		h.r.Count("commits_seen", int64(len(commits)))
	}
	h.r.Count("recorder_windows", 1)
	if rc.othersLeft > 0 && len(commits) > 0 {
		h.r.Count("recorder_windows_after_another_subscriber_left", 1)
	}
	if rc.joinedMid && len(commits) > 0 {
		h.r.Count("recorder_windows_of_mid_history_joiner", 1)
	}
	want := map[string]c20Commit{}
	for _, c := range commits {
		want[c.Cid] = c
		if c.Collection && primary {
			h.r.Count("collection_level_commits", 1)
		}
	}
	got := map[string]int{}
	for _, e := range evs {
		got[e.Cid]++
		if c, ok := want[e.Cid]; ok && c.DocID != e.DocID {
			h.violate("event/docid-differs-from-block", fmt.Sprintf("update event for %s names document %q, the block says %q", e.Cid, e.DocID, c.DocID), nil)
		}
	}
	var missing, extra, dup []string
	missKind := ""
	for cidS, c := range want {
		if got[cidS] == 0 {
			missing = append(missing, cidS)
			switch {
			case c.Collection:
				missKind = "collection-level"
			case c.Deleted && missKind == "":
				missKind = "delete"
			case missKind == "":
				missKind = "document-level"
			}
		}
	}
	for cidS, n := range got {
		if _, ok := want[cidS]; !ok {
			extra = append(extra, cidS)
		} else if n > 1 {
			dup = append(dup, cidS)
		}
	}
	sort.Strings(missing)
	ex := map[string]any{"subscriber": fmt.Sprintf("recorder#%d", rc.id), "operation": kind, "outcome": outcome, "events": c20EventList(evs), "commits_in_store_while_subscribed": commits, "missing": missing}
	if outcome != "success" && (len(evs) > 0 || len(commits) > 0) {
		if len(evs) > 0 {
			h.violate("event/for-"+outcome+"-operation", fmt.Sprintf("%s ended as %q and %d update event(s) were published (%d commits in the store)", kind, outcome, len(evs), len(commits)), ex)
		} else if primary {
			h.violate("commit/left-by-"+outcome+"-operation", fmt.Sprintf("%s ended as %q but left %d new commit block(s) in the store", kind, outcome, len(commits)), ex)
		}
		return false
	}
	if len(missing) > 0 {
		// Not served any more since another subscriber unsubscribed: none of the commits made after
		// that point (the whole window, if it left before the window) was announced to this one.
		after := 0
		afterMissing := 0
		for cidS := range want {
			if w.afterLeave == nil || w.afterLeave[cidS] {
				after++
				if got[cidS] == 0 {
					afterMissing++
				}
			}
		}
		if rc.leftSince && after > 0 && afterMissing == after && afterMissing == len(missing) {
			rc.starved, h.starved = true, true
			h.violate("event/none-at-remaining-subscriber-after-another-unsubscribed",
				fmt.Sprintf("bus subscriber #%d is still subscribed to update events but received none of the %d commit(s) made after another subscriber unsubscribed (%s); the bus had handled every publication (fence through a fresh subscriber) and the subscriber's buffer was drained", rc.id, afterMissing, kind), ex)
		} else {
			h.violate("event/missing/"+missKind, fmt.Sprintf("%s committed %d document/collection-level commit(s) while bus subscriber #%d was subscribed but %d have no update event (%s)", kind, len(commits), rc.id, len(missing), missKind), ex)
		}
	}
	if len(extra) > 0 {
		h.violate("event/without-commit", fmt.Sprintf("%s: %d update event(s) at bus subscriber #%d announce a cid that is not a commit made in the store while it was subscribed", kind, len(extra), rc.id), ex)
	}
	if len(dup) > 0 {
		h.violate("event/duplicate", fmt.Sprintf("%s: %d commit(s) were announced more than once", kind, len(dup)), ex)
	}
	clean = len(missing) == 0 && len(extra) == 0 && len(dup) == 0
	if clean && (len(w.afterLeave) > 0 || (w.afterLeave == nil && len(commits) > 0)) {
		rc.leftSince = false // served after the last leave
	}
	return clean
}

// c20CidSeqIn: the cid sequence restricted to the given set.
func c20CidSeqIn(evs []core.BusEvent, in map[string]bool) string {
	var sb strings.Builder
	for _, e := range evs {
		if in[e.Cid] {
			sb.WriteString(e.Cid)
			sb.WriteByte(' ')
		}
	}
	return sb.String()
}

func c20EventList(evs []core.BusEvent) []string {
	var out []string
	for _, e := range evs {
		out = append(out, fmt.Sprintf("doc=%q cid=%s receipt=%v", e.DocID, e.Cid, e.AtReceipt))
	}
	return out
}

// ---------------------------------------------------------------------------------------
// GraphQL subscriptions

func (h *c20Hist) openSub(name, filter string) *c20Sub {
	sctx, cancel := context.WithCancel(h.ctx)
	arg := ""
	if filter != "" {
		arg = "(filter: " + filter + ")"
	}
	req := fmt.Sprintf(`subscription { Doc%s { _docID name i s f n } }`, arg)
	res := h.n.DB.ExecRequest(sctx, req)
	if len(res.GQL.Errors) > 0 {
		cancel()
		panic(fmt.Sprintf("subscription request rejected: %v (%s)", res.GQL.Errors[0], req))
	}
	s := &c20Sub{name: name, filter: filter, notify: make(chan struct{}, 1), cancel: cancel, done: make(chan struct{})}
	go func() {
		defer close(s.done)
		for { // always drained (the channel is unbuffered) - unless the history makes this client stop reading
			s.mu.Lock()
			g := s.holdCh
			s.mu.Unlock()
			if g != nil {
				<-g
			}
			r, open := <-res.Subscription
			if !open {
				return
			}
			sr := c20SubResult{}
			b, _ := json.Marshal(r.Data)
			sr.Raw = string(b)
			var m map[string][]map[string]any
			dec := json.NewDecoder(bytes.NewReader(b))
			dec.UseNumber()
			if dec.Decode(&m) == nil {
				sr.Docs = m["Doc"]
			}
			for _, e := range r.Errors {
				sr.Errs = append(sr.Errs, e.Error())
			}
			s.mu.Lock()
			s.log = append(s.log, sr)
			s.mu.Unlock()
			select {
			case s.notify <- struct{}{}:
			default:
			}
		}
	}()
	h.subs = append(h.subs, s)
	return s
}

// waitMarker waits until the subscription has delivered the result for marker update `step`
// (the subscription goroutine handles events in order, so everything before it has been handled)
// and returns the results that arrived before the marker's.
//
// idle=true: the marker's result has not arrived and never will, established without a clock:
// `quiescent` (see subsQuiescent) saw, in one consistent snapshot taken after the bus had pushed
// every publication, every subscription goroutine parked at its idle select and every reader
// parked at its receive, and the marker is still not in the log.
func (s *c20Sub) waitMarker(markerID string, step int, timeout time.Duration, quiescent func() bool) (res []c20SubResult, ok, idle bool) {
	deadline := time.NewTimer(timeout)
	defer deadline.Stop()
	want := fmt.Sprintf("%d.5", step)
	find := func() bool {
		s.mu.Lock()
		defer s.mu.Unlock()
		for i := s.pos; i < len(s.log); i++ {
			for _, d := range s.log[i].Docs {
				if d["_docID"] == markerID && fmt.Sprint(d["f"]) == want {
					res = append([]c20SubResult(nil), s.log[s.pos:i]...)
					s.pos = i + 1
					return true
				}
			}
		}
		return false
	}
	rest := func() []c20SubResult {
		s.mu.Lock()
		defer s.mu.Unlock()
		r := append([]c20SubResult(nil), s.log[s.pos:]...)
		s.pos = len(s.log)
		return r
	}
	poll := 20 * time.Millisecond // how often to look, not a criterion
	for {
		if find() {
			return res, true, false
		}
		tick := time.NewTimer(poll)
		select {
		case <-s.notify:
			tick.Stop()
		case <-tick.C:
			if poll < 500*time.Millisecond {
				poll *= 2
			}
			if quiescent != nil && quiescent() {
				if find() {
					return res, true, false
				}
				return rest(), false, true
			}
		case <-deadline.C:
			tick.Stop()
			return rest(), false, false
		}
	}
}

// subsQuiescent reports whether every GraphQL subscription of this history is at rest: in ONE
// snapshot of all goroutines (runtime.Stack stops the world, so the snapshot is consistent) each
// subscription goroutine of the database (handleSubscription.func1) is parked in a select of its
// own and each reader goroutine of the harness (openSub.func1) is parked in its channel receive.
// A subscription goroutine parked in the select that SENDS a result would have been matched with
// its parked reader, so all of them are parked at the select that waits for the next event; a
// goroutine parked there has an empty buffer (a send to a channel with a parked receiver hands the
// value over and makes the receiver runnable at once). Called after the bus fence: nothing is on
// its way to any subscription, every result produced so far is in the logs. Depends on states, not
// on time; false = "cannot tell yet".
func (h *c20Hist) subsQuiescent() bool {
	gs, ok := h.snapshot()
	if !ok {
		return false // truncated
	}
	h.r.Count("subscription_quiescence_snapshots", 1)
	return h.subsQuiescentIn(gs)
}

// snapshot: the stacks of all goroutines at one instant.
func (h *c20Hist) snapshot() ([]string, bool) {
	if h.stackBuf == nil {
		h.stackBuf = make([]byte, 8<<20)
	}
	n := runtime.Stack(h.stackBuf, true)
	if n >= len(h.stackBuf) {
		return nil, false
	}
	return strings.Split(string(h.stackBuf[:n]), "\n\n"), true
}

func (h *c20Hist) subsQuiescentIn(gs []string) bool {
	for _, g := range gs {
		isSub := strings.Contains(g, ".handleSubscription.func1")
		isReader := strings.Contains(g, ".openSub.func1")
		if !isSub && !isReader {
			continue
		}
		id := c20GoroutineID(g)
		if h.oldSubG[id] || h.oldDrainG[id] {
			continue
		}
		state, top := c20GoroutineState(g)
		switch {
		case isSub && state == "select" && strings.Contains(top, ".handleSubscription.func1"):
		case isReader && state == "chan receive" && strings.Contains(top, ".openSub.func1"):
		default:
			return false
		}
	}
	return true
}

// c20GoroutineState: the wait state of the header line and the innermost non-runtime function.
func c20GoroutineState(g string) (state, top string) {
	lines := strings.Split(g, "\n")
	if i := strings.Index(lines[0], "["); i >= 0 {
		state = lines[0][i+1:]
		if j := strings.IndexAny(state, ",]"); j >= 0 {
			state = state[:j]
		}
	}
	for _, l := range lines[1:] {
		if strings.HasPrefix(l, "\t") || strings.HasPrefix(l, "runtime.") || strings.HasPrefix(l, "created by") {
			continue
		}
		return state, l
	}
	return state, ""
}

// matching returns which of the given documents currently match the filter of the
// subscription, evaluated by an ordinary query.
func (h *c20Hist) matching(s *c20Sub, ids []string) map[string]bool {
	out := map[string]bool{}
	if len(ids) == 0 {
		return out
	}
	q, _ := json.Marshal(ids)
	arg := fmt.Sprintf("docID: %s", q)
	if s.filter != "" {
		arg += ", filter: " + s.filter
	}
	rows, err := h.n.Rows(h.ctx, fmt.Sprintf(`query { Doc(%s) { _docID } }`, arg), "Doc")
	core.Must(err)
	for _, r := range rows {
		out[fmt.Sprint(r["_docID"])] = true
	}
	return out
}

// c20SubWant: the committed changes of a window as one subscription has to see them.
type c20SubWant struct {
	commits      []c20Commit
	changed      []string // documents of Doc changed (not deleted), each touched once by construction
	delDocs      map[string]bool
	otherTouched bool
}

func c20ClassifyCommits(commits []c20Commit) *c20SubWant {
	w := &c20SubWant{commits: commits, delDocs: map[string]bool{}}
	for _, c := range commits {
		switch {
		case c.Collection:
		case c.Other:
			w.otherTouched = true
		case c.Deleted:
			w.delDocs[c.DocID] = true
		default:
			w.changed = append(w.changed, c.DocID)
		}
	}
	return w
}

// settleSubs: marker update, wait for it on every live subscription, compare the results of the
// window with the committed changes of the window (per: subscriptions opened inside the window
// have to see the commits made after they were opened only).
func (h *c20Hist) settleSubs(kind, outcome string, commits []c20Commit, judge bool, per map[*c20Sub][]c20Commit) {
	if h.abort {
		return
	}
	all := c20ClassifyCommits(commits)
	wants := make([]*c20SubWant, len(h.subs))
	expect := make([]map[string]bool, len(h.subs))
	for j, s := range h.subs {
		if s.out() {
			continue
		}
		wants[j] = all
		if c, ok := per[s]; ok {
			wants[j] = c20ClassifyCommits(c)
		}
		expect[j] = h.matching(s, wants[j].changed)
	}
	// marker
	h.step++
	mstep := h.step
	d := h.getDoc(h.marker)
	core.Must(d.Set("f", float64(mstep)+0.5))
	err := h.col.Update(h.ctx, d)
	core.Must(err)
	mc := h.newCommits()
	h.barrier()
	h.checkWindow("marker-update", "success", mc, nil)

	for j, s := range h.subs {
		if s.out() {
			continue
		}
		w := wants[j]
		delDocs, otherTouched, changed := w.delDocs, w.otherTouched, w.changed
		timeout := c20StallTimeout
		if h.abort {
			timeout = 2 * time.Second // another subscription has just used up the watchdog time
		}
		res, ok, idle := s.waitMarker(h.marker, mstep, timeout, h.subsQuiescent)
		blockedIn := ""
		var stacks []string
		for round := 0; !ok && !idle && !h.abort && round < 4; round++ {
			// nothing after the watchdog time: deadlocked, or merely slow on a loaded machine?
			blockedIn, stacks = h.blockedSubscription()
			if blockedIn != "" {
				break
			}
			h.r.Count("subscription_slow_waits", 1)
			var more []c20SubResult
			more, ok, idle = s.waitMarker(h.marker, mstep, c20StallTimeout, h.subsQuiescent)
			res = append(res, more...)
		}
		ex := map[string]any{"subscription": s.name, "filter": s.filter, "operation": kind, "outcome": outcome, "commits_in_store": w.commits, "results": c20ResList(res)}
		if !ok && idle {
			// logical verdict: the bus has pushed every publication (fence), this subscription's goroutine
			// waits for its next event with an empty buffer, its reader has logged everything - and the
			// result for the marker update, which matches every filter, is not there.
			s.dead = true
			h.starved = true
			closed := false
			select {
			case <-s.done:
				closed = true
			default:
			}
			switch {
			case closed:
				h.violate("subscription/closed-without-being-cancelled", fmt.Sprintf("the result channel of GraphQL subscription %s was closed although its context was not cancelled; no result for a matching committed update (preceding operation: %s, %s)", s.name, kind, outcome), ex)
			case s.leftSince:
				h.violate("subscription/none-at-remaining-subscription-after-another-unsubscribed", fmt.Sprintf("GraphQL subscription %s is open and idle but delivered no result for a matching committed update made after another subscriber (GraphQL subscription or bus subscriber) had unsubscribed; preceding operation: %s (%s)", s.name, kind, outcome), ex)
			default:
				h.violate("subscription/idle-without-result-for-matching-change", fmt.Sprintf("GraphQL subscription %s is open and idle (empty buffer) but delivered no result for a matching committed update; preceding operation: %s (%s)", s.name, kind, outcome), ex)
			}
			continue
		}
		if !ok {
			s.dead = true
			h.abort = true // the bus blocks once the dead subscriber's buffer is full: stop this history
			lastKind := "other"
			if len(delDocs) > 0 {
				lastKind = "delete"
			} else if otherTouched {
				lastKind = "change-in-other-collection"
			} else if len(w.commits) == 0 {
				lastKind = "no-commit"
			}
			if stacks == nil {
				_, stacks = h.blockedSubscription()
			}
			ex["subscription_goroutines"] = stacks
			if blockedIn != "" {
				h.violate("subscription/deadlocked-in/"+blockedIn, fmt.Sprintf("the goroutine of GraphQL subscription %s has been blocked for minutes in %s; no result for a matching committed update, every later change is lost for this subscriber (preceding operation: %s, %s)", s.name, blockedIn, kind, outcome), ex)
			} else {
				h.violate("subscription/stalled-after/"+lastKind, fmt.Sprintf("GraphQL subscription %s delivered nothing for a matching committed update within %s; the preceding operation was %s (%s) — every later change is lost for this subscriber", s.name, 5*c20StallTimeout, kind, outcome), ex)
			}
			continue
		}
		h.r.Count("subscription_windows", 1)
		s.leftSince = false // the marker update, made after every leave so far, was delivered
		if s.othersLeft > 0 {
			h.r.Count("subscription_windows_after_another_subscriber_left", 1)
		}
		if s.joinedMid {
			h.r.Count("subscription_windows_of_mid_history_joiner", 1)
		}
		got := map[string]int{}
		errRes := 0
		emptyRes := 0
		judgeS := judge
		for _, sr := range res {
			if len(sr.Errs) > 0 {
				if strings.Contains(strings.Join(sr.Errs, " "), core.ErrInjected.Error()) {
					// the armed fault hit the subscription's own query (it reads through the same store)
					h.r.Count("fault_hit_subscription_query", 1)
					judge, judgeS = false, false
					continue
				}
				errRes++
				continue
			}
			if len(sr.Docs) == 0 {
				emptyRes++
			}
			for _, dd := range sr.Docs {
				got[fmt.Sprint(dd["_docID"])]++
			}
		}
		h.r.Count("subscription_results", int64(len(res)))
		if !judgeS {
			continue
		}
		if errRes > 0 {
			if otherTouched && len(changed) == 0 && len(delDocs) == 0 {
				h.violate("subscription/error-result-for-change-in-other-collection", fmt.Sprintf("subscription on Doc (%s) delivered %d error result(s) for a change of a document of collection Other: %s", s.name, errRes, c20FirstErr(res)), ex)
			} else {
				h.violate("subscription/error-result", fmt.Sprintf("subscription %s delivered %d error result(s) after %s: %s", s.name, errRes, kind, c20FirstErr(res)), ex)
			}
		}
		if emptyRes > 0 {
			h.violate("subscription/empty-result", fmt.Sprintf("subscription %s delivered %d result(s) without any document after %s (%s)", s.name, emptyRes, kind, outcome), ex)
		}
		for id := range delDocs {
			if got[id] > 0 {
				h.r.Note("subscription_result_for_delete_commit")
				delete(got, id)
			}
		}
		var missing, extra, dup []string
		for id := range expect[j] {
			switch {
			case got[id] == 0:
				missing = append(missing, id)
			case got[id] > 1:
				dup = append(dup, id)
			}
		}
		for id := range got {
			if !expect[j][id] {
				extra = append(extra, id)
			}
		}
		h.r.Count("subscription_results_expected", int64(len(expect[j])))
		ex["expected_documents"] = expect[j]
		if outcome != "success" && len(got) > 0 {
			h.violate("subscription/result-for-"+outcome+"-operation", fmt.Sprintf("subscription %s delivered %d result(s) although %s ended as %q", s.name, len(got), kind, outcome), ex)
			continue
		}
		if len(missing) > 0 {
			h.violate("subscription/result-missing", fmt.Sprintf("subscription %s: %d committed change(s) whose post-state matches the filter produced no result (%s)", s.name, len(missing), kind), ex)
		}
		if len(extra) > 0 {
			h.violate("subscription/result-for-non-matching-change", fmt.Sprintf("subscription %s: %d result(s) for documents that were not changed or do not match the filter (%s)", s.name, len(extra), kind), ex)
		}
		if len(dup) > 0 {
			h.violate("subscription/result-duplicated", fmt.Sprintf("subscription %s: %d committed change(s) produced more than one result (%s)", s.name, len(dup), kind), ex)
		}
	}
	if h.starved {
		h.abort = true // subscribers are no longer served: every later window would repeat the report
	}
}

// c20Goroutines returns the stacks of the goroutines whose stack mentions `what`.
func c20Goroutines(what string) []string {
	buf := make([]byte, 4<<20)
	buf = buf[:runtime.Stack(buf, true)]
	var out []string
	for _, g := range strings.Split(string(buf), "\n\n") {
		if strings.Contains(g, what) {
			if len(g) > 6000 {
				g = g[:6000]
			}
			out = append(out, g)
		}
	}
	return out
}

func c20GoroutineID(g string) string {
	f := strings.Fields(g)
	if len(f) >= 2 {
		return f[1]
	}
	return ""
}

// c20Blocked looks for a subscription goroutine of this case that has been blocked for minutes
// (the runtime annotates the state with "N minutes") on something other than its idle select and
// returns the innermost non-runtime frame it is blocked in.
func (h *c20Hist) blockedSubscription() (frame string, stacks []string) {
	for _, g := range c20Goroutines("handleSubscription") {
		if h.oldSubG[c20GoroutineID(g)] {
			continue
		}
		stacks = append(stacks, g)
		head := strings.SplitN(g, "\n", 2)[0]
		if !strings.Contains(head, "minutes") || strings.Contains(head, "[select") {
			continue
		}
		for _, l := range strings.Split(g, "\n")[1:] {
			if strings.HasPrefix(l, "\t") || strings.HasPrefix(l, "sync.") || strings.HasPrefix(l, "runtime.") || strings.HasPrefix(l, "internal/") {
				continue
			}
			if i := strings.LastIndex(l, "("); i > 0 {
				l = l[:i]
			}
			l = strings.TrimPrefix(l, "github.com/sourcenetwork/")
			return l, stacks
		}
	}
	return "", stacks
}

func c20ResList(rs []c20SubResult) []string {
	var out []string
	for _, r := range rs {
		out = append(out, fmt.Sprintf("%s errs=%v", r.Raw, r.Errs))
	}
	return out
}

func c20FirstErr(rs []c20SubResult) string {
	for _, r := range rs {
		if len(r.Errs) > 0 {
			return r.Errs[0]
		}
	}
	return ""
}

// ---------------------------------------------------------------------------------------
// operations

func (h *c20Hist) getDoc(id string) *client.Document {
	return h.getDocCtx(h.ctx, id)
}

func (h *c20Hist) getDocCtx(ctx context.Context, id string) *client.Document {
	did, err := client.NewDocIDFromString(id)
	core.Must(err)
	d, err := h.col.Get(ctx, did, false)
	core.Must(err)
	return d
}

// getDocErr is used inside operations (a storage fault may be armed): no panic on error.
func (h *c20Hist) getDocErr(ctx context.Context, col client.Collection, id string) (*client.Document, error) {
	did, err := client.NewDocIDFromString(id)
	if err != nil {
		return nil, err
	}
	return col.Get(ctx, did, false)
}

func (h *c20Hist) newDocMap() map[string]any {
	h.nextID++
	m := map[string]any{"name": fmt.Sprintf("d%d", h.nextID), "u": 1000 + h.nextID}
	if v := []any{1, 2, 3, nil}[h.rng.IntN(4)]; v != nil {
		m["i"] = v
	}
	if v := []any{"a", "b", nil}[h.rng.IntN(3)]; v != nil {
		m["s"] = v
	}
	m["n"] = 1 + h.rng.IntN(3)
	d, err := client.NewDocFromMap(m, h.col.Definition())
	core.Must(err)
	h.origin[d.ID().String()] = m
	return m
}

func (h *c20Hist) randPatch() map[string]any {
	m := map[string]any{}
	switch h.rng.IntN(4) {
	case 0:
		m["i"] = []any{1, 2, 3, nil}[h.rng.IntN(4)]
	case 1:
		m["s"] = []any{"a", "b", "c", nil}[h.rng.IntN(4)]
	case 2:
		m["i"] = 1 + h.rng.IntN(3)
		m["s"] = []string{"a", "b"}[h.rng.IntN(2)]
	default:
		m["n"] = 1 + h.rng.IntN(2)
	}
	return m
}

func (h *c20Hist) pick(list []string) string { return list[h.rng.IntN(len(list))] }

// pickN returns up to n distinct elements.
func (h *c20Hist) pickN(list []string, n int) []string {
	idx := h.rng.Perm(len(list))
	var out []string
	for _, i := range idx {
		if len(out) == n {
			break
		}
		out = append(out, list[i])
	}
	return out
}

func c20GQLErr(ctx context.Context, n *core.Node, req string) error {
	res := n.DB.ExecRequest(ctx, req)
	if len(res.GQL.Errors) > 0 {
		return res.GQL.Errors[0]
	}
	return nil
}

type c20Op struct {
	Kind  string
	Desc  string
	Multi bool // multi-document request
	Valid bool // expected to succeed without a fault
	Run   func(ctx context.Context) error
}

var c20SimpleKinds = []string{"create", "create", "update", "update", "update", "update_unchanged", "delete", "create_many", "update_filter", "delete_filter",
	"gql_create_multi", "gql_update_filter", "gql_multi", "other_create", "other_update"}
var c20InvalidKinds = []string{"invalid_create_duplicate", "invalid_create_unique", "invalid_update_deleted", "invalid_delete_missing",
	"invalid_gql_type", "invalid_gql_multi_last_fails", "invalid_create_many_dup"}

// genOp builds one operation of the given kind against the current contents; it never touches
// the marker document and touches each document at most once. ok=false: not applicable now.
func (h *c20Hist) genOp(kind string, exclude map[string]bool) (op c20Op, ok bool) {
	var live []string
	for _, id := range h.live {
		if !exclude[id] {
			live = append(live, id)
		}
	}
	op = c20Op{Kind: kind, Valid: true}
	switch kind {
	case "create":
		m := h.newDocMap()
		op.Desc = core.Canon(m)
		op.Run = func(ctx context.Context) error {
			d, err := client.NewDocFromMap(m, h.col.Definition())
			core.Must(err)
			return h.col.Create(ctx, d)
		}
	case "create_many":
		ms := []map[string]any{h.newDocMap(), h.newDocMap(), h.newDocMap()}
		op.Multi = true
		op.Desc = core.Canon(ms)
		op.Run = func(ctx context.Context) error {
			var ds []*client.Document
			for _, m := range ms {
				d, err := client.NewDocFromMap(m, h.col.Definition())
				core.Must(err)
				ds = append(ds, d)
			}
			return h.col.CreateMany(ctx, ds)
		}
	case "update":
		if len(live) == 0 {
			return op, false
		}
		id := h.pick(live)
		patch := h.randPatch()
		exclude[id] = true
		op.Desc = id + " " + core.Canon(patch)
		op.Run = func(ctx context.Context) error {
			d, err := h.getDocErr(ctx, h.col, id)
			if err != nil {
				return err
			}
			for k, v := range patch {
				core.Must(d.Set(k, v))
			}
			return h.col.Update(ctx, d)
		}
	case "update_unchanged":
		// an update that carries no dirty field (Get followed by Update of the unchanged document):
		// it still writes a new composite commit, which must be announced like any other
		if len(live) == 0 {
			return op, false
		}
		id := h.pick(live)
		exclude[id] = true
		op.Desc = id + " (no field changed)"
		op.Run = func(ctx context.Context) error {
			d, err := h.getDocErr(ctx, h.col, id)
			if err != nil {
				return err
			}
			h.r.Count("updates_without_a_changed_field", 1)
			return h.col.Update(ctx, d)
		}
	case "delete":
		if len(live) == 0 {
			return op, false
		}
		id := h.pick(live)
		exclude[id] = true
		op.Desc = id
		op.Run = func(ctx context.Context) error {
			did, _ := client.NewDocIDFromString(id)
			_, err := h.col.Delete(ctx, did)
			return err
		}
	case "update_filter":
		if len(live) < 2 || len(exclude) > 0 {
			return op, false
		}
		f := []string{`{i: {_ge: 2}}`, `{s: {_eq: "a"}}`, `{i: {_eq: null}}`, `{u: {_ge: 1000}}`}[h.rng.IntN(4)]
		f = fmt.Sprintf(`{_and: [{name: {_ne: %q}}, %s]}`, c20Marker, f)
		patch := fmt.Sprintf(`{"s": %q}`, []string{"a", "b", "c"}[h.rng.IntN(3)])
		op.Multi = true
		op.Desc = f + " " + patch
		for _, id := range live {
			exclude[id] = true
		}
		op.Run = func(ctx context.Context) error { _, err := h.col.UpdateWithFilter(ctx, f, patch); return err }
	case "delete_filter":
		if len(live) < 3 || len(exclude) > 0 {
			return op, false
		}
		f := fmt.Sprintf(`{_and: [{name: {_ne: %q}}, {i: {_eq: %d}}]}`, c20Marker, 1+h.rng.IntN(3))
		op.Multi = true
		op.Desc = f
		for _, id := range live {
			exclude[id] = true
		}
		op.Run = func(ctx context.Context) error { _, err := h.col.DeleteWithFilter(ctx, f); return err }
	case "gql_create_multi":
		a, b := h.newDocMap(), h.newDocMap()
		req := fmt.Sprintf(`mutation { create_Doc(input: [%s, %s]) { _docID } }`, c05GQLInput(a), c05GQLInput(b))
		op.Multi = true
		op.Desc = req
		op.Run = func(ctx context.Context) error { return c20GQLErr(ctx, h.n, req) }
	case "gql_update_filter":
		if len(live) < 2 || len(exclude) > 0 {
			return op, false
		}
		req := fmt.Sprintf(`mutation { update_Doc(filter: {_and: [{name: {_ne: %q}}, {u: {_ge: %d}}]}, input: {i: %d}) { _docID } }`, c20Marker, 1000+h.rng.IntN(h.nextID+1), 1+h.rng.IntN(3))
		op.Multi = true
		op.Desc = req
		for _, id := range live {
			exclude[id] = true
		}
		op.Run = func(ctx context.Context) error { return c20GQLErr(ctx, h.n, req) }
	case "gql_multi":
		if len(live) < 2 {
			return op, false
		}
		ids := h.pickN(live, 2)
		exclude[ids[0]], exclude[ids[1]] = true, true
		req := fmt.Sprintf(`mutation { a: create_Doc(input: %s) { _docID } b: update_Doc(docID: %q, input: {i: %d}) { _docID } c: delete_Doc(docID: %q) { _docID } }`,
			c05GQLInput(h.newDocMap()), ids[0], 1+h.rng.IntN(3), ids[1])
		op.Multi = true
		op.Desc = req
		op.Run = func(ctx context.Context) error { return c20GQLErr(ctx, h.n, req) }
	case "other_create":
		h.nextID++
		m := map[string]any{"x": fmt.Sprintf("o%d", h.nextID), "v": h.rng.IntN(3)}
		op.Desc = core.Canon(m)
		op.Run = func(ctx context.Context) error {
			d, err := client.NewDocFromMap(m, h.oth.Definition())
			core.Must(err)
			return h.oth.Create(ctx, d)
		}
	case "other_update":
		if len(h.others) == 0 {
			return op, false
		}
		id := h.pick(h.others)
		if exclude[id] {
			return op, false
		}
		exclude[id] = true
		v := h.rng.IntN(5)
		op.Desc = fmt.Sprintf("%s v=%d", id, v)
		op.Run = func(ctx context.Context) error {
			d, err := h.getDocErr(ctx, h.oth, id)
			if err != nil {
				return err
			}
			core.Must(d.Set("v", v))
			return h.oth.Update(ctx, d)
		}
	// --- operations that fail by validation
	case "invalid_create_duplicate":
		if len(live) == 0 {
			return op, false
		}
		id := h.pick(live)
		op.Valid = false
		op.Desc = "same content as " + id
		req := h.dupCreateReq(id)
		op.Run = func(ctx context.Context) error { return c20GQLErr(ctx, h.n, req) }
	case "invalid_create_unique":
		if len(live) == 0 {
			return op, false
		}
		id := h.pick(live)
		op.Valid = false
		op.Desc = "unique value of " + id
		u := h.fieldOf(id, "u")
		h.nextID++
		req := fmt.Sprintf(`mutation { create_Doc(input: {name: "clash%d", u: %s, i: 1}) { _docID } }`, h.nextID, u)
		op.Run = func(ctx context.Context) error { return c20GQLErr(ctx, h.n, req) }
	case "invalid_update_deleted":
		if len(h.deleted) == 0 {
			return op, false
		}
		id := h.pick(h.deleted)
		op.Valid = false
		op.Desc = id
		op.Run = func(ctx context.Context) error {
			m, ok := h.origin[id]
			if !ok {
				return fmt.Errorf("(harness: creation input of %s unknown)", id)
			}
			d, err := client.NewDocFromMap(m, h.col.Definition())
			core.Must(err)
			core.Must(d.Set("i", 2))
			return h.col.Update(ctx, d)
		}
	case "invalid_delete_missing":
		op.Valid = false
		op.Run = func(ctx context.Context) error {
			d, err := client.NewDocFromMap(map[string]any{"name": "never", "u": -1}, h.col.Definition())
			core.Must(err)
			_, err = h.col.Delete(ctx, d.ID())
			if err == nil {
				err = fmt.Errorf("(no error; nothing deleted)")
			}
			return err
		}
	case "invalid_gql_type":
		if len(live) == 0 {
			return op, false
		}
		id := h.pick(live)
		op.Valid = false
		op.Desc = id
		op.Run = func(ctx context.Context) error {
			return c20GQLErr(ctx, h.n, fmt.Sprintf(`mutation { update_Doc(docID: %q, input: {i: "NaN"}) { _docID } }`, id))
		}
	case "invalid_gql_multi_last_fails":
		if len(live) == 0 {
			return op, false
		}
		id := h.pick(live)
		op.Valid = false
		op.Multi = true
		req := fmt.Sprintf(`mutation { a: create_Doc(input: %s) { _docID } b: update_Doc(docID: %q, input: {i: 3}) { _docID } c: %s }`,
			c05GQLInput(h.newDocMap()), id, strings.TrimSuffix(strings.TrimPrefix(h.dupCreateReq(id), "mutation { "), " }"))
		op.Desc = req
		op.Run = func(ctx context.Context) error { return c20GQLErr(ctx, h.n, req) }
	case "invalid_create_many_dup":
		m := h.newDocMap()
		op.Valid = false
		op.Multi = true
		op.Desc = core.Canon(m)
		op.Run = func(ctx context.Context) error {
			a, _ := client.NewDocFromMap(h.newDocMapFixed(9000), h.col.Definition())
			b, _ := client.NewDocFromMap(m, h.col.Definition())
			c, _ := client.NewDocFromMap(m, h.col.Definition())
			return h.col.CreateMany(ctx, []*client.Document{a, b, c})
		}
	default:
		panic("unknown op kind " + kind)
	}
	return op, true
}

func (h *c20Hist) newDocMapFixed(k int) map[string]any {
	h.nextID++
	return map[string]any{"name": fmt.Sprintf("x%d-%d", k, h.nextID), "u": k*1000 + h.nextID}
}

// dupCreateReq: a create request whose input equals the creation input of an existing document
// (same generated docID).
func (h *c20Hist) dupCreateReq(id string) string {
	m, ok := h.origin[id]
	if !ok {
		panic("no creation input recorded for " + id)
	}
	return fmt.Sprintf(`mutation { create_Doc(input: %s) { _docID } }`, c05GQLInput(m))
}

func (h *c20Hist) fieldOf(id, field string) string {
	rows, err := h.n.Rows(h.ctx, fmt.Sprintf(`query { Doc(docID: %q) { %s } }`, id, field), "Doc")
	core.Must(err)
	if len(rows) != 1 {
		panic("document not found: " + id)
	}
	return fmt.Sprint(rows[0][field])
}

// refresh re-reads which documents exist (ground truth for the generator, not an oracle).
func (h *c20Hist) refresh() {
	rows, err := h.n.Rows(h.ctx, `query { Doc(showDeleted: true) { _docID _deleted name } }`, "Doc")
	core.Must(err)
	h.live, h.deleted = nil, nil
	for _, r := range rows {
		id := fmt.Sprint(r["_docID"])
		if r["name"] == c20Marker {
			continue
		}
		if r["_deleted"] == true {
			h.deleted = append(h.deleted, id)
		} else {
			h.live = append(h.live, id)
		}
	}
	sort.Strings(h.live)
	sort.Strings(h.deleted)
	rows, err = h.n.Rows(h.ctx, `query { Other { _docID } }`, "Other")
	core.Must(err)
	h.others = nil
	for _, r := range rows {
		h.others = append(h.others, fmt.Sprint(r["_docID"]))
	}
	sort.Strings(h.others)
}

func (h *c20Hist) tuple(kind, outcome string) {
	churn := ""
	if h.p.Churn {
		churn = "|churn"
	}
	h.tuples[fmt.Sprintf("%s|%s|%s|%d%s", kind, outcome, h.p.Config, h.p.Subs, churn)] = true
	h.r.Count("outcome:"+outcome+":"+h.p.Config, 1)
	if outcome != "success" {
		h.failed = true
	}
}

// ---------------------------------------------------------------------------------------
// steps

// stepSimple: one operation; fault = "" | "random" (random k-th storage operation fails) |
// "commit" (the operation's own Commit fails: the position is found by executing the operation
// once inside an explicit transaction that is discarded, which must leave no trace either).
func (h *c20Hist) stepSimple(kind string, fault string) bool {
	if h.abort {
		return false
	}
	op, ok := h.genOp(kind, map[string]bool{})
	if !ok {
		return false
	}
	if op.Multi {
		h.multi = true
		h.r.Count("multi_document_requests", 1)
	}
	k := 0
	switch fault {
	case "random":
		k = 1 + h.rng.IntN(70)
		if h.rng.IntN(3) == 0 {
			k = 1 + h.rng.IntN(12)
		}
	case "commit":
		txn, err := h.n.DB.NewTxn(h.ctx, false)
		core.Must(err)
		h.n.Fault.Arm(0)
		derr := op.Run(db.InitContext(h.ctx, txn))
		ops, _ := h.n.Fault.Disarm()
		txn.Discard(h.ctx)
		h.logf("dry run of %s in a discarded transaction: %d storage operations (%v)", kind, len(ops), derr)
		h.tuple(kind+"-in-txn", "discard")
		k = len(ops) + 1
	}
	h.n.Fault.Arm(k)
	err, pan := c05CallGuarded(func() error { return op.Run(h.ctx) })
	_, fired := h.n.Fault.Disarm()
	if pan != "" {
		if !fired {
			panic(pan)
		}
		// a panic of an operation under an injected storage fault is the subject of C05, not of C20;
		// the node cannot be used any further
		h.r.Count("histories_aborted_by_panic_under_injected_fault", 1)
		h.r.Note("panic_under_injected_fault/" + c05PanicFrame(pan))
		h.logf("%s %s fault@%d -> PANIC %s", kind, op.Desc, k, strings.SplitN(pan, "\n", 2)[0])
		h.abort = true
		return false
	}
	outcome := "success"
	switch {
	case err != nil && fired:
		outcome = "injected-fault"
		if h.n.Fault.FailedOp.Method == "commit" {
			outcome = "failing-commit"
		}
	case err != nil:
		outcome = "validation-error"
	}
	h.logf("%s %s fault@%d fired=%v -> %s (%v)", kind, op.Desc, k, fired, outcome, err)
	if op.Valid && err != nil && !fired && !strings.Contains(err.Error(), "conflict") {
		panic(fmt.Sprintf("C20 generator: %s %s was expected to succeed: %v", kind, op.Desc, err))
	}
	if !op.Valid && err == nil {
		h.r.Note("operation_expected_to_fail_succeeded/" + kind)
	}
	h.tuple(kind, outcome)
	commits := h.newCommits()
	h.barrier()
	h.checkWindow(kind, outcome, commits, nil)
	judge := true
	if fired && err == nil {
		// the armed window stays open until the call has returned, the subscription goroutine reads
		// through the same store: the injected fault may have hit its query instead of the operation
		judge = false
		h.r.Count("fault_hit_after_the_operation", 1)
	}
	h.settleSubs(kind, outcome, commits, judge, nil)
	h.refresh()
	return true
}

// stepBurst: several operations back to back without waiting in between; the event sequence must
// be the concatenation, in completion order, of the operations' commit sets.
func (h *c20Hist) stepBurst() bool {
	if h.abort {
		return false
	}
	nops := 3 + h.rng.IntN(3)
	var groups [][]c20Commit
	var all []c20Commit
	exclude := map[string]bool{}
	kinds := []string{"create", "update", "update", "delete", "create_many", "gql_create_multi", "other_create"}
	ran := 0
	for i := 0; i < nops; i++ {
		kind := kinds[h.rng.IntN(len(kinds))]
		op, ok := h.genOp(kind, exclude)
		if !ok {
			continue
		}
		err := op.Run(h.ctx)
		h.logf("burst %s %s -> %v", kind, op.Desc, err)
		if err != nil {
			panic(fmt.Sprintf("C20 generator: burst %s %s was expected to succeed: %v", kind, op.Desc, err))
		}
		if op.Multi {
			h.multi = true
			h.r.Count("multi_document_requests", 1)
		}
		cs := h.newCommits()
		groups = append(groups, cs)
		all = append(all, cs...)
		h.tuple(kind, "success")
		ran++
	}
	if ran == 0 {
		return false
	}
	h.r.Count("bursts", 1)
	h.barrier()
	evs := h.checkWindow("burst", "success", all, nil)
	h.checkGroupOrder(evs, groups, all)
	h.settleSubs("burst", "success", all, true, nil)
	h.refresh()
	return true
}

// ---------------------------------------------------------------------------------------
// subscriber churn

const (
	c20MaxRecs = 5
	c20MaxSubs = 4
)

// c20BurstChurn: bookkeeping of a burst in which subscribers leave and join between operations
// (no barrier in between): which operations' commits each of them has to see.
type c20BurstChurn struct {
	groups  *[][]c20Commit
	recFrom map[*c20Rec]int // joined when that many operations had completed
	recTo   map[*c20Rec]int // left when that many operations had completed
	subFrom map[*c20Sub]int
	leaves  []int // number of operations completed at each time a subscriber left
}

// churnAction lets one subscriber leave or join. kind: leave | join | rec_leave | rec_join |
// sub_leave | sub_join. At a quiescent point (b == nil) or inside a burst. Returns false if not
// applicable (limits; somebody has to stay).
//
// A subscriber "has left" once its Unsubscribe command is queued on the bus (recorder: Close
// returned; GraphQL subscription: its result channel was closed after the context was cancelled —
// handleSubscription unsubscribes before closing it). A subscriber "has joined" once Subscribe
// returned (GraphQL: once ExecRequest returned). The bus handles commands in order, so relative to
// the caller's mutations both are exact points of the history.
func (h *c20Hist) churnAction(kind string, b *c20BurstChurn) bool {
	if h.abort {
		return false
	}
	liveR, liveS := h.liveRecs(), h.liveSubs()
	leaveR := liveR // recorders that may leave
	if b != nil {
		// inside a burst one recorder subscribed for the whole window (the reference) has to stay
		var full, joined []*c20Rec
		for _, rc := range liveR {
			if _, j := b.recFrom[rc]; j {
				joined = append(joined, rc)
			} else {
				full = append(full, rc)
			}
		}
		if len(full) <= 1 {
			leaveR = joined
		}
	}
	var options []string
	for _, o := range []string{"rec_leave", "sub_leave", "rec_join", "sub_join"} {
		if kind != o && kind != strings.TrimPrefix(o, "rec_") && kind != strings.TrimPrefix(o, "sub_") {
			continue
		}
		switch o {
		case "rec_leave":
			if len(liveR) < 2 || len(leaveR) == 0 {
				continue
			}
		case "sub_leave":
			if len(liveS) < 2 {
				continue
			}
		case "rec_join":
			if len(liveR) >= c20MaxRecs {
				continue
			}
		case "sub_join":
			if len(liveS) >= c20MaxSubs {
				continue
			}
		}
		options = append(options, o)
	}
	if len(options) == 0 {
		return false
	}
	where := "at a quiescent point"
	done := 0
	if b != nil {
		where = "inside a burst"
		done = len(*b.groups)
	}
	switch act := options[h.rng.IntN(len(options))]; act {
	case "rec_leave":
		rc := leaveR[h.rng.IntN(len(leaveR))]
		rc.rc.Close()
		h.logf("CHURN recorder#%d unsubscribes %s", rc.id, where)
		if b == nil {
			// nothing was committed since the last window: nothing more may have been delivered
			rc.rc.WaitClosed()
			h.checkEvents(rc, false, "unsubscribe", "success", rc.take(), c20Want{})
			rc.gone = true
		} else {
			rc.leaving = true
			b.recTo[rc] = done
			b.leaves = append(b.leaves, done)
			h.r.Count("subscriber_left_inside_burst", 1)
		}
		h.r.Count("recorder_left_while_others_stayed", 1)
		h.noteLeft()
	case "sub_leave":
		s := liveS[h.rng.IntN(len(liveS))]
		h.logf("CHURN GraphQL subscription %s is cancelled %s", s.name, where)
		s.cancel()
		s.gone = true
		if !h.waitCancelled(s, where) { // returns once handleSubscription has queued its Unsubscribe and closed the channel
			return true
		}
		if b != nil {
			b.leaves = append(b.leaves, done)
			h.r.Count("subscriber_left_inside_burst", 1)
		}
		h.r.Count("graphql_subscription_cancelled_while_others_stayed", 1)
		h.noteLeft()
	case "rec_join":
		rc := h.addRecorder(true)
		h.logf("CHURN recorder#%d subscribes %s", rc.id, where)
		if b != nil {
			b.recFrom[rc] = done
			h.r.Count("subscriber_joined_inside_burst", 1)
		}
		h.r.Count("recorder_joined_mid_history", 1)
		h.r.Count("subscriber_joined_mid_history", 1)
	case "sub_join":
		h.joinCount++
		filter := ""
		name := fmt.Sprintf("joined%d-unfiltered", h.joinCount)
		if h.rng.IntN(3) > 0 {
			fi := h.rng.IntN(len(c20Filters))
			filter = fmt.Sprintf(`{_or: [{name: {_eq: %q}}, %s]}`, c20Marker, c20Filters[fi])
			name = fmt.Sprintf("joined%d-filter%d", h.joinCount, fi)
		}
		s := h.openSub(name, filter)
		s.joinedMid = true
		h.logf("CHURN GraphQL subscription %s (%s) is opened %s", name, filter, where)
		if b != nil {
			b.subFrom[s] = done
			h.r.Count("subscriber_joined_inside_burst", 1)
		}
		h.r.Count("graphql_subscription_joined_mid_history", 1)
		h.r.Count("subscriber_joined_mid_history", 1)
	}
	return true
}

// stepCancelRace: three GraphQL subscriptions are opened, a few documents are created back to back
// and the three are cancelled at once, i.e. while their goroutines are evaluating the events; the
// subscribers that stay must see every commit, the cancelled ones must unsubscribe and close.
func (h *c20Hist) stepCancelRace() bool {
	if h.abort {
		return false
	}
	var short []*c20Sub
	for i := 0; i < 3; i++ {
		h.joinCount++
		s := h.openSub(fmt.Sprintf("shortlived%d", h.joinCount), "")
		s.joinedMid = true
		short = append(short, s)
		h.r.Count("graphql_subscription_joined_mid_history", 1)
		h.r.Count("subscriber_joined_mid_history", 1)
	}
	for i := 0; i < 3; i++ {
		op, _ := h.genOp("create", map[string]bool{})
		if err := op.Run(h.ctx); err != nil {
			panic(fmt.Sprintf("C20 generator: create was expected to succeed: %v", err))
		}
		h.tuple("create", "success")
	}
	all := h.newCommits()
	h.logf("cancel-race: 3 subscriptions opened, 3 documents created, the 3 subscriptions cancelled at once")
	for _, s := range short {
		s.cancel()
		s.gone = true
		h.r.Count("graphql_subscription_cancelled_while_busy", 1)
	}
	for _, s := range short {
		if !h.waitCancelled(s, "while it was evaluating events") {
			return true
		}
		h.r.Count("graphql_subscription_cancelled_while_others_stayed", 1)
		h.noteLeft()
	}
	h.barrier()
	per := map[*c20Rec]c20Want{} // every commit of this window precedes the leave
	for _, rc := range h.liveRecs() {
		per[rc] = c20Want{commits: all, afterLeave: map[string]bool{}}
	}
	h.checkWindow("cancel-race", "success", all, per)
	h.settleSubs("cancel-race", "success", all, true, nil)
	h.refresh()
	for n := 0; len(h.live) > 6 && !h.abort && n < 10; n++ {
		h.step++
		h.stepSimple("delete", "")
	}
	return true
}

// waitCancelled waits until the cancelled subscription has closed its result channel (the
// subscription goroutine unsubscribes from the bus before it closes it). While waiting it looks, in
// goroutine snapshots, for a subscription goroutine that can never get there: blocked in
// sync.RWMutex.RLock inside an operation of the corekv memory store (the transient store of the
// versioned fetcher) while another operation of that store further up its own stack holds the read
// lock of the same mutex, and a Datastore.Close - started by the cancelled context - waits for the
// write lock in between: a cycle, permanent by construction (no clock involved).
// Such a subscriber stays registered on the bus for good. false: reported, the history ends.
func (h *c20Hist) waitCancelled(s *c20Sub, where string) bool {
	poll := 20 * time.Millisecond // how often to look, not a criterion
	watchdog := time.Now().Add(c20StallTimeout)
	for {
		tick := time.NewTimer(poll)
		select {
		case <-s.done:
			tick.Stop()
			h.r.Count("subscriptions_closed_after_cancel", 1)
			return true
		case <-tick.C:
			if poll < 500*time.Millisecond {
				poll *= 2
			}
			op, stack := h.selfDeadlockedSubscription()
			if op == "" {
				if time.Now().After(watchdog) {
					// same watchdog as for a subscription that delivers nothing: a subscription goroutine
					// that has been blocked for minutes outside its idle select
					watchdog = time.Now().Add(c20StallTimeout)
					if blockedIn, stacks := h.blockedSubscription(); blockedIn != "" {
						h.abort = true
						h.violate("subscription/deadlocked-in/"+blockedIn, fmt.Sprintf("GraphQL subscription %s was cancelled %s but its result channel is not closed: a subscription goroutine has been blocked for minutes in %s", s.name, where, blockedIn),
							map[string]any{"subscription": s.name, "subscription_goroutines": stacks})
						return false
					}
					h.r.Count("subscription_slow_waits", 1)
				}
				continue
			}
			h.abort = true
			h.violate("subscription/cancel-deadlocks-subscription-goroutine/recursive-read-lock-in-corekv-memory-store",
				fmt.Sprintf("GraphQL subscription %s was cancelled %s while its goroutine was evaluating an update event: the goroutine is blocked for good in %s (it holds the read lock of the transient memory store's close mutex, requests it again, and the store's Close - started by the cancelled context - waits for the write lock in between); the subscription never unsubscribes from the event bus and never closes its result channel, the transaction it opened stays open", s.name, where, op),
				map[string]any{"subscription": s.name, "subscription_goroutine": stack})
			return false
		}
	}
}

// selfDeadlockedSubscription looks for the cycle described at waitCancelled in one snapshot.
func (h *c20Hist) selfDeadlockedSubscription() (op, stack string) {
	if h.stackBuf == nil {
		h.stackBuf = make([]byte, 8<<20)
	}
	n := runtime.Stack(h.stackBuf, true)
	if n >= len(h.stackBuf) {
		return "", ""
	}
	gs := strings.Split(string(h.stackBuf[:n]), "\n\n")
	closing := false
	for _, g := range gs {
		if st, _ := c20GoroutineState(g); st == "sync.RWMutex.Lock" && strings.Contains(g, "corekv/memory.(*Datastore).Close") {
			closing = true
		}
	}
	if !closing {
		return "", ""
	}
	for _, g := range gs {
		if !strings.Contains(g, ".handleSubscription.func1") || h.oldSubG[c20GoroutineID(g)] {
			continue
		}
		st, _ := c20GoroutineState(g)
		if st != "sync.RWMutex.RLock" {
			continue
		}
		// frames of the corekv memory store on this stack, innermost first: every exported operation of
		// that package takes the read lock of the store's close mutex for its whole duration, so two of
		// them on one stack = the lock is requested while already held by the same goroutine
		var frames []string
		for _, l := range strings.Split(g, "\n")[1:] {
			if i := strings.Index(l, "corekv/memory."); i >= 0 && !strings.HasPrefix(l, "\t") {
				l = l[i:]
				if j := strings.Index(l, ")."); j > 0 {
					if k := strings.Index(l[j+2:], "("); k > 0 {
						l = l[:j+2+k]
					}
				}
				frames = append(frames, l)
			}
		}
		if len(frames) < 2 {
			continue
		}
		if len(g) > 6000 {
			g = g[:6000]
		}
		return frames[0] + " called from " + frames[1], g
	}
	return "", ""
}

var c20StallKinds = []string{"rec_fresh", "rec_live", "sub_fresh", "sub_live", "both"}

// stepStall: a subscriber stops reading (rec_live: a recorder of the history; sub_live: the client of
// an open GraphQL subscription) or never reads (rec_fresh: a new bus subscriber; sub_fresh: the client
// of a new GraphQL subscription; both: one of each), 105-125 changes are committed (the buffer of a
// subscriber holds 100, a GraphQL subscription additionally holds one event in its goroutine and its
// reader one result: the bus ends up waiting for the stalled subscriber), then it unsubscribes /
// cancels and a few more changes are committed. Every other subscriber must receive all of them.
func (h *c20Hist) stepStall(variant string) bool {
	if h.abort {
		return false
	}
	bus := h.n.DB.Events()
	var raw event.Subscription
	var rc *c20Rec
	var sub *c20Sub
	var who []string
	if variant == "rec_live" {
		live := h.liveRecs()
		if len(live) < 2 {
			h.addRecorder(true) // somebody has to stay for the whole window
			h.r.Count("recorder_joined_mid_history", 1)
			h.r.Count("subscriber_joined_mid_history", 1)
			h.barrier()
			live = h.liveRecs()
		}
		rc = live[h.rng.IntN(len(live))]
		rc.rc.Flush()
		h.checkEvents(rc, false, "stops-reading", "success", rc.take(), c20Want{})
		rc.rc.Pause()
		rc.stalled = true
		who = append(who, fmt.Sprintf("recorder#%d (stopped reading)", rc.id))
		h.r.Count("subscriber_stopped_reading_mid_history", 1)
	}
	if variant == "rec_fresh" || variant == "both" {
		var err error
		raw, err = bus.Subscribe(event.UpdateName)
		core.Must(err)
		who = append(who, "a new bus subscriber of update events that never reads")
	}
	if variant == "sub_live" {
		live := h.liveSubs()
		if len(live) < 2 {
			h.joinCount++
			s := h.openSub(fmt.Sprintf("joined%d-unfiltered", h.joinCount), "")
			s.joinedMid = true
			h.r.Count("graphql_subscription_joined_mid_history", 1)
			h.r.Count("subscriber_joined_mid_history", 1)
			live = h.liveSubs()
		}
		sub = live[h.rng.IntN(len(live))]
		sub.hold()
		sub.stalled = true
		who = append(who, fmt.Sprintf("GraphQL subscription %s (client stopped reading)", sub.name))
		h.r.Count("subscriber_stopped_reading_mid_history", 1)
	}
	if variant == "sub_fresh" || variant == "both" {
		h.joinCount++
		sub = h.openSub(fmt.Sprintf("neverread%d", h.joinCount), "")
		sub.hold() // its reader is created parked on an unrelated channel at worst one result later; see hold
		sub.stalled, sub.joinedMid = true, true
		who = append(who, fmt.Sprintf("GraphQL subscription %s (client never reads)", sub.name))
	}
	if len(who) == 0 {
		panic("C20 harness: unknown stall variant " + variant)
	}
	h.stalls++
	// the changes the stalled subscriber falls behind with
	nops := 105 + h.rng.IntN(21)
	if len(h.live) == 0 {
		op, _ := h.genOp("create", map[string]bool{})
		core.Must(op.Run(h.ctx))
		h.refresh()
	}
	// three updates of the marker document first: they match every filter, so a stalled GraphQL
	// subscription is certainly stuck with a result nobody takes (events that do not match its filter
	// would be consumed without one) and the buffer fills up behind it
	for i := 0; i < 3; i++ {
		d := h.getDoc(h.marker)
		core.Must(d.Set("i", 10*h.step+i))
		core.Must(h.col.Update(h.ctx, d))
	}
	kinds := []string{"update", "update", "update", "update_unchanged", "other_create", "create"}
	creates := 0
	for i := 0; i < nops; i++ {
		kind := kinds[h.rng.IntN(len(kinds))]
		if kind == "create" {
			if creates++; creates > 4 {
				kind = "update"
			}
		}
		op, ok := h.genOp(kind, map[string]bool{})
		if !ok {
			op, _ = h.genOp("other_create", map[string]bool{})
		}
		if err := op.Run(h.ctx); err != nil {
			panic(fmt.Sprintf("C20 generator: %s %s was expected to succeed: %v", kind, op.Desc, err))
		}
		h.tuple(kind, "success")
	}
	before := h.newCommits()
	h.logf("STALL %s: %d operations (%d commits) while %s does not read", variant, nops, len(before), strings.Join(who, " and "))
	// the documented state: the bus waits for the subscriber that does not read (everybody else is idle)
	for poll, waited := 5*time.Millisecond, time.Duration(0); waited < 20*time.Second; waited, poll = waited+poll, min(2*poll, 500*time.Millisecond) {
		if ok, _ := h.busBlockedOnNobody(); ok {
			h.r.Count("bus_seen_waiting_for_stalled_subscriber_before_it_left", 1)
			break
		}
		time.Sleep(poll)
	}
	// the stalled subscriber leaves
	if rc != nil {
		rc.rc.Close() // its goroutine stays paused: nothing is read from the full buffer
		h.r.Count("stalled_bus_subscriber_unsubscribed_with_full_buffer", 1)
	}
	if raw != nil {
		bus.Unsubscribe(raw)
		h.r.Count("stalled_bus_subscriber_unsubscribed_with_full_buffer", 1)
	}
	if sub != nil {
		sub.cancel()
		sub.gone = true
		sub.release()
		if !h.waitCancelled(sub, "after its client had stopped reading") { // the goroutine queues its Unsubscribe and closes the channel
			return true
		}
		h.r.Count("stalled_graphql_client_cancelled_with_full_buffer", 1)
		h.r.Count("graphql_subscription_cancelled_while_others_stayed", 1)
	}
	h.logf("STALL %s: %s left", variant, strings.Join(who, " and "))
	h.noteLeft()
	for i := 1 + h.rng.IntN(3); i > 0; i-- {
		op, _ := h.genOp("create", map[string]bool{})
		if err := op.Run(h.ctx); err != nil {
			panic(fmt.Sprintf("C20 generator: create was expected to succeed: %v", err))
		}
		h.tuple("create", "success")
	}
	after := h.newCommits()
	all := append(append([]c20Commit{}, before...), after...)
	if !h.fenceOrBlocked(variant, strings.Join(who, " and "), all, after) {
		return true
	}
	if rc != nil {
		// the bus has handled the Unsubscribe: the recorder reads what was buffered and sees the channel closed
		rc.rc.Resume()
		rc.rc.WaitClosed()
		rc.stalled, rc.gone = false, true
		seen := map[string]bool{}
		for _, c := range before {
			seen[c.Cid] = true
		}
		for _, e := range rc.take() {
			if !seen[e.Cid] {
				h.violate("event/without-commit", fmt.Sprintf("bus subscriber #%d, which had stopped reading and then unsubscribed, was given an event that announces no commit made while it was subscribed", rc.id), map[string]any{"event": e.Cid})
			}
		}
	}
	h.barrier()
	afterSet := map[string]bool{}
	for _, c := range after {
		afterSet[c.Cid] = true
	}
	per := map[*c20Rec]c20Want{}
	for _, r := range h.liveRecs() {
		per[r] = c20Want{commits: all, afterLeave: afterSet}
		h.r.Count("recorder_windows_after_stalled_subscriber_left", 1)
	}
	h.checkWindow("stalled-subscriber-left", "success", all, per)
	// the GraphQL subscriptions that stay: the marker update made now must arrive (documents were
	// touched several times in this window: results are not matched one by one)
	open := len(h.liveSubs())
	h.settleSubs("stalled-subscriber-left", "success", nil, false, nil)
	if !h.abort && len(h.liveSubs()) == open {
		h.r.Count("subscription_windows_after_stalled_subscriber_left", int64(open))
	}
	h.refresh()
	for n := 0; len(h.live) > 6 && !h.abort && n < 10; n++ {
		h.step++
		h.stepSimple("delete", "")
	}
	return true
}

// fenceOrBlocked: core.BusFence, issued after a stalled subscriber has left, either comes out (true)
// or the bus is found blocked for good on that subscriber (reported; false, the history ends).
//
// Verdict without a clock: in three consecutive snapshots of all goroutines the bus goroutine of
// this node is parked in a channel send (the only channels it sends on are subscriber buffers; or in a select around such a send),
// while every recorder goroutine of this history is parked waiting for a message (a parked receiver
// has an empty buffer: a send would have been handed over), every subscription goroutine and every
// reader is idle (subsQuiescentIn), and the fence's own fresh subscriber has at most one message
// coming. The buffer the bus is sending to belongs to nobody who will ever read: the subscriber that
// left. Its Unsubscribe is queued behind the send.
func (h *c20Hist) fenceOrBlocked(variant, who string, all, after []c20Commit) bool {
	done := make(chan struct{})
	bus := h.n.DB.Events()
	go func() {
		core.BusFence(bus)
		close(done)
	}()
	poll := 10 * time.Millisecond // how often to look, not a criterion
	hits := 0
	started := time.Now()
	var busStack string
	for hits < 3 {
		tick := time.NewTimer(poll)
		select {
		case <-done:
			tick.Stop()
			return true
		case <-tick.C:
		}
		if poll < 400*time.Millisecond {
			poll *= 2
		}
		if ok, st := h.busBlockedOnNobody(); ok {
			hits++
			busStack = st
		} else {
			hits = 0
			if time.Since(started) > 5*c20StallTimeout {
				break // neither: reported below as a fence that does not come out
			}
		}
	}
	h.abort, h.wedged, h.starved = true, true, true
	// what the subscribers that stay were given (their goroutines are idle: Flush returns)
	var lacking []string
	for _, rc := range h.liveRecs() {
		rc.rc.Flush()
		got := map[string]bool{}
		for _, e := range rc.take() {
			got[e.Cid] = true
		}
		miss, missAfter := 0, 0
		for _, c := range all {
			if !got[c.Cid] {
				miss++
			}
		}
		for _, c := range after {
			if !got[c.Cid] {
				missAfter++
			}
		}
		rc.starved = true
		lacking = append(lacking, fmt.Sprintf("recorder#%d: no event for %d of the %d commits of the window, for %d of the %d made after the leave", rc.id, miss, len(all), missAfter, len(after)))
	}
	ex := map[string]any{"variant": variant, "who_left": who, "remaining_subscribers": lacking, "bus_goroutine": busStack}
	if hits < 3 {
		h.violate("event/bus-fence-not-handled-after-stalled-subscriber-left", fmt.Sprintf("%s unsubscribed after falling behind by more events than its buffer holds; a message published afterwards has not reached a fresh subscriber within %s", who, 5*c20StallTimeout), ex)
		return false
	}
	h.violate("event/bus-blocked-for-good-on-unsubscribed-subscriber-with-full-buffer",
		fmt.Sprintf("%s fell behind by more events than its buffer holds and then unsubscribed: the bus goroutine stays blocked sending to that subscriber's full buffer (the Unsubscribe command is queued behind the send); no subscriber receives any further update event (%s) and closing the node waits for the bus", who, strings.Join(lacking, "; ")), ex)
	return false
}

// busBlockedOnNobody: see fenceOrBlocked.
func (h *c20Hist) busBlockedOnNobody() (bool, string) {
	gs, ok := h.snapshot()
	if !ok {
		return false, ""
	}
	busN, stack := 0, ""
	for _, g := range gs {
		id := c20GoroutineID(g)
		switch {
		case strings.Contains(g, "event.(*channelBus).handleChannel") && !h.oldBusG[id]:
			// waiting for room in a subscriber's buffer: a plain send, or a select whose other arm is
			// that subscriber's own Unsubscribe (when idle the goroutine is in "chan receive")
			if st, _ := c20GoroutineState(g); st != "chan send" && st != "select" {
				return false, ""
			}
			busN++
			stack = g
		case strings.Contains(g, "core.(*ChurnRecorder).loop") && !h.oldBusG[id]:
			// waiting for a message (select) or paused by the history (chan receive)
			if st, top := c20GoroutineState(g); !(st == "select" || st == "chan receive") || !strings.Contains(top, "core.(*ChurnRecorder).loop") {
				return false, ""
			}
		}
	}
	if busN != 1 || !h.subsQuiescentIn(gs) {
		return false, ""
	}
	return true, stack
}

// closeNode closes the node at the end of the case. After a stalled subscriber has left, closing is
// part of the oracle: the bus must have got rid of that subscriber, Close waits for the bus.
func (h *c20Hist) closeNode() {
	if h.wedged {
		go h.n.Close() // reported already; Close would wait for the bus for good
		return
	}
	if h.stalls == 0 {
		h.n.Close()
		return
	}
	done := make(chan struct{})
	go func() {
		h.n.Close()
		close(done)
	}()
	select {
	case <-done:
		h.r.Count("node_closed_after_stalled_subscriber_left", 1)
	case <-time.After(5 * c20StallTimeout):
		h.violate("hang/node-close-after-stalled-subscriber-left", fmt.Sprintf("closing the node did not return within %s after a history in which a subscriber that had stopped reading unsubscribed", 5*c20StallTimeout),
			map[string]any{"bus_goroutines": c20Goroutines("event.(*channelBus)")})
	}
}

// stepChurnBurst: several operations back to back without a barrier, and between them subscribers
// leave and join. Every subscriber has to receive exactly the events of the operations that
// completed while it was subscribed, in completion order.
func (h *c20Hist) stepChurnBurst() bool {
	if h.abort {
		return false
	}
	nops := 4 + h.rng.IntN(3)
	var groups [][]c20Commit
	var all []c20Commit
	b := &c20BurstChurn{groups: &groups, recFrom: map[*c20Rec]int{}, recTo: map[*c20Rec]int{}, subFrom: map[*c20Sub]int{}}
	exclude := map[string]bool{}
	kinds := []string{"create", "update", "update", "delete", "create_many", "gql_create_multi", "other_create"}
	preLeft := map[*c20Rec]bool{}
	for _, rc := range h.liveRecs() {
		preLeft[rc] = rc.leftSince
	}
	ran := 0
	for i := 0; i < nops; i++ {
		if ran > 0 {
			switch x := h.rng.IntN(100); {
			case ran == 1:
				h.churnAction("leave", b)
			case ran == 2:
				h.churnAction("join", b)
			case x < 25:
				h.churnAction("leave", b)
			case x < 50:
				h.churnAction("join", b)
			}
		}
		kind := kinds[h.rng.IntN(len(kinds))]
		if i == 0 {
			kind = "create"
		}
		op, ok := h.genOp(kind, exclude)
		if !ok {
			continue
		}
		err := op.Run(h.ctx)
		h.logf("churn-burst %s %s -> %v", kind, op.Desc, err)
		if err != nil {
			panic(fmt.Sprintf("C20 generator: burst %s %s was expected to succeed: %v", kind, op.Desc, err))
		}
		if op.Multi {
			h.multi = true
			h.r.Count("multi_document_requests", 1)
		}
		cs := h.newCommits()
		groups = append(groups, cs)
		all = append(all, cs...)
		h.tuple(kind, "success")
		ran++
	}
	h.r.Count("churn_bursts", 1)
	concat := func(from, to int) []c20Commit {
		out := []c20Commit{}
		for _, g := range groups[from:to] {
			out = append(out, g...)
		}
		return out
	}
	perRec := map[*c20Rec]c20Want{}
	for _, rc := range h.recs {
		if rc.gone {
			continue
		}
		from, to := 0, len(groups)
		if f, ok := b.recFrom[rc]; ok {
			from = f
		}
		if t, ok := b.recTo[rc]; ok {
			to = t
		}
		w := c20Want{commits: concat(from, to)}
		for _, l := range b.leaves { // ascending
			if preLeft[rc] {
				break // somebody had left before the burst already: the whole window counts
			}
			if l >= from && l < to {
				w.afterLeave = map[string]bool{}
				for _, c := range concat(l, to) {
					w.afterLeave[c.Cid] = true
				}
				break
			}
		}
		perRec[rc] = w
	}
	perSub := map[*c20Sub][]c20Commit{}
	for s, from := range b.subFrom {
		perSub[s] = concat(from, len(groups))
	}
	h.barrier()
	evs := h.checkWindow("churn-burst", "success", all, perRec)
	h.checkGroupOrder(evs, groups, all)
	h.settleSubs("churn-burst", "success", all, true, perSub)
	h.refresh()
	return true
}

// checkGroupOrder: the event sequence must be the concatenation, in completion order, of the
// operations' commit sets.
func (h *c20Hist) checkGroupOrder(evs []core.BusEvent, groups [][]c20Commit, all []c20Commit) {
	pos := 0
	ordered := true
	for _, g := range groups {
		want := map[string]bool{}
		for _, c := range g {
			want[c.Cid] = true
		}
		for n := 0; n < len(g); n++ {
			if pos >= len(evs) || !want[evs[pos].Cid] {
				ordered = false
				break
			}
			delete(want, evs[pos].Cid)
			pos++
		}
		if !ordered {
			break
		}
	}
	if !ordered && len(evs) == len(all) {
		h.violate("event/order-differs-from-completion-order", "update events of sequential operations of one caller arrived in an order different from the order in which the operations completed",
			map[string]any{"events": c20EventList(evs), "commit_groups_in_completion_order": groups})
	}
	h.r.Count("order_checks", 1)
}

// stepTxn: explicit transaction with 1-3 operations, then commit / discard / failing commit.
func (h *c20Hist) stepTxn(end string) bool {
	if h.abort {
		return false
	}
	txn, err := h.n.DB.NewTxn(h.ctx, false)
	core.Must(err)
	tctx := db.InitContext(h.ctx, txn)
	exclude := map[string]bool{}
	kinds := []string{"create", "update", "update", "delete", "create_many", "other_create"}
	nops := 1 + h.rng.IntN(3)
	ran := 0
	for i := 0; i < nops; i++ {
		kind := kinds[h.rng.IntN(len(kinds))]
		if i == 0 {
			kind = "create"
		}
		op, ok := h.genOp(kind, exclude)
		if !ok {
			continue
		}
		err := op.Run(tctx)
		h.logf("txn %s %s -> %v", kind, op.Desc, err)
		if err != nil {
			panic(fmt.Sprintf("C20 generator: %s inside an explicit transaction was expected to succeed: %v", kind, err))
		}
		if op.Multi {
			h.multi = true
		}
		ran++
	}
	// nothing may be announced (or visible in the store) before the commit
	h.barrier()
	var early []core.BusEvent
	for _, rc := range h.liveRecs() {
		if evs := rc.take(); len(evs) > 0 && early == nil {
			early = evs
		}
	}
	earlyCommits := h.newCommits()
	if len(early) > 0 {
		h.violate("event/before-commit", fmt.Sprintf("%d update event(s) were published while the explicit transaction was still open", len(early)),
			map[string]any{"events": c20EventList(early)})
	}
	if len(earlyCommits) > 0 {
		h.violate("commit/visible-before-commit", fmt.Sprintf("%d commit block(s) are in the store while the explicit transaction is still open", len(earlyCommits)), map[string]any{"commits": earlyCommits})
	}
	h.r.Count("open_transaction_checks", 1)
	outcome := "success"
	judgeTxn := true
	switch end {
	case "commit":
		err = txn.Commit(h.ctx)
		if err != nil {
			panic(fmt.Sprintf("C20 generator: commit of an explicit transaction failed: %v", err))
		}
	case "discard":
		txn.Discard(h.ctx)
		outcome = "discard"
	case "failing-commit":
		h.n.Fault.Arm(1)
		err = txn.Commit(h.ctx)
		_, fired := h.n.Fault.Disarm()
		txn.Discard(h.ctx)
		if err == nil {
			// a background reader (a subscription still handling the trailing collection-level event of
			// the previous window) took the fault: the commit went through
			h.r.Count("fault_hit_after_the_operation", 1)
			judgeTxn = false
			_ = fired
		} else {
			outcome = "failing-commit"
		}
	}
	h.logf("txn end %s -> %s", end, outcome)
	h.tuple("txn("+fmt.Sprint(ran)+")", outcome)
	commits := h.newCommits()
	h.barrier()
	h.checkWindow("explicit-transaction", outcome, commits, nil)
	h.settleSubs("explicit-transaction", outcome, commits, judgeTxn, nil)
	h.refresh()
	return true
}

// stepParallel: g callers work concurrently, each sequentially on its own documents. Per caller the
// events must appear in the caller's completion order; overall bijection with the store.
func (h *c20Hist) stepParallel() {
	if h.abort {
		return
	}
	g := 2 + h.rng.IntN(2)
	type call struct {
		doc string
		err error
	}
	// each caller owns two fresh documents
	own := make([][]string, g)
	for c := 0; c < g; c++ {
		for j := 0; j < 2; j++ {
			m := h.newDocMap()
			d, err := client.NewDocFromMap(m, h.col.Definition())
			core.Must(err)
			core.Must(h.col.Create(h.ctx, d))
			own[c] = append(own[c], d.ID().String())
		}
	}
	setup := h.newCommits()
	h.barrier()
	h.checkWindow("parallel-setup", "success", setup, nil)
	h.settleSubs("parallel-setup", "success", setup, true, nil)

	plans := make([][]struct {
		doc   string
		patch map[string]any
	}, g)
	for c := 0; c < g; c++ {
		for j := 0; j < 4; j++ {
			plans[c] = append(plans[c], struct {
				doc   string
				patch map[string]any
			}{own[c][h.rng.IntN(2)], map[string]any{"f": float64(j), "n": 1}})
		}
	}
	logs := make([][]call, g)
	var wg sync.WaitGroup
	for c := 0; c < g; c++ {
		wg.Add(1)
		go func(c int) {
			defer wg.Done()
			col := h.n.Col(h.ctx, "Doc")
			for _, st := range plans[c] {
				did, _ := client.NewDocIDFromString(st.doc)
				var err error
				for attempt := 0; attempt < 5; attempt++ {
					var d *client.Document
					d, err = col.Get(h.ctx, did, false)
					if err != nil {
						break
					}
					for k, v := range st.patch {
						if err = d.Set(k, v); err != nil {
							break
						}
					}
					if err != nil {
						break
					}
					err = col.Update(h.ctx, d)
					if err == nil || !strings.Contains(err.Error(), "conflict") {
						break
					}
				}
				logs[c] = append(logs[c], call{st.doc, err})
			}
		}(c)
	}
	wg.Wait()
	h.r.Count("parallel_phases", 1)
	commits := h.newCommits()
	h.barrier()
	evs := h.checkWindow("parallel-phase", "success", commits, nil)
	h.logf("parallel phase: %d callers, %d commits, %d events", g, len(commits), len(evs))
	// per caller order: events of the caller's documents, in sequence, = its successful calls
	heightOf := map[string]uint64{}
	for _, cm := range commits {
		if !cm.Collection {
			blk := h.n.MustBlock(h.ctx, core.ParseCid(cm.Cid))
			heightOf[cm.Cid] = blk.Delta.GetPriority()
		}
	}
	for c := 0; c < g && !h.starved; c++ {
		mine := map[string]bool{own[c][0]: true, own[c][1]: true}
		var got, want []string
		lastH := map[string]uint64{}
		for _, e := range evs {
			if mine[e.DocID] {
				got = append(got, e.DocID)
				if hgt := heightOf[e.Cid]; hgt <= lastH[e.DocID] {
					h.violate("event/order-differs-from-commit-order", fmt.Sprintf("events of one document arrived out of commit order (height %d after %d)", hgt, lastH[e.DocID]), map[string]any{"events": c20EventList(evs)})
				} else {
					lastH[e.DocID] = hgt
				}
			}
		}
		for _, cl := range logs[c] {
			if cl.err == nil {
				want = append(want, cl.doc)
			} else {
				h.r.Count("parallel_calls_failed", 1)
			}
		}
		h.r.Count("order_checks", 1)
		if strings.Join(got, ",") != strings.Join(want, ",") {
			h.violate("event/order-differs-from-completion-order", fmt.Sprintf("caller %d completed updates on %v in this order, the events arrived as %v", c, want, got), map[string]any{"events": c20EventList(evs)})
		}
	}
	h.tuple("parallel", "success")
	h.settleSubs("parallel-phase", "success", nil, false, nil) // every document is touched several times: only the marker is checked here
	h.refresh()
}

// ---------------------------------------------------------------------------------------

func runC20(ctx context.Context, c core.Case, r *core.Rec) {
	quietLogs()
	var p c20Params
	c.P(&p)
	h := &c20Hist{ctx: ctx, p: p, r: r, rng: c.Rng(), blocks: map[string]bool{}, tuples: map[string]bool{}, origin: map[string]map[string]any{}, announced: map[string]bool{}}
	h.oldBusG = map[string]bool{}
	for _, what := range []string{"event.(*channelBus).handleChannel", "core.(*ChurnRecorder).loop"} {
		for _, g := range c20Goroutines(what) {
			h.oldBusG[c20GoroutineID(g)] = true
		}
	}
	h.n = fastNode(ctx, core.NodeOpts{Fault: true})
	defer h.closeNode()
	_, err := h.n.DB.AddSchema(ctx, c20SDL(p.Config))
	core.Must(err)
	h.col = h.n.Col(ctx, "Doc")
	h.oth = h.n.Col(ctx, "Other")
	h.docV = h.col.Schema().VersionID

	var rmu sync.Mutex
	onReceive := func(e *core.BusEvent) {
		if e.Name != event.UpdateName {
			return
		}
		at := map[string]any{}
		cc, err := cid.Decode(e.Cid)
		if err != nil {
			at["cid_invalid"] = err.Error()
		} else {
			dm, err := mh.Decode(cc.Hash())
			if err != nil || hex.EncodeToString(dm.Digest) != e.BlockSHA {
				at["hash_mismatch"] = true
			}
			b, err := h.n.Blockstore().Get(ctx, cc)
			if err != nil {
				at["unreadable"] = err.Error()
			} else if !bytes.Equal(b.RawData(), e.Block) {
				at["stored_bytes_differ"] = true
			}
		}
		if len(at) > 0 {
			e.AtReceipt = at
			rmu.Lock()
			h.badReceipt++
			rmu.Unlock()
		}
	}
	h.onReceive = onReceive
	for i := 0; i < p.Subs; i++ {
		h.addRecorder(false)
	}
	defer func() {
		for _, rc := range h.recs {
			rc.rc.Close()
		}
	}()
	h.oldSubG = map[string]bool{}
	for _, g := range c20Goroutines("handleSubscription") {
		h.oldSubG[c20GoroutineID(g)] = true
	}
	h.oldDrainG = map[string]bool{}
	for _, g := range c20Goroutines(".openSub.func1") {
		h.oldDrainG[c20GoroutineID(g)] = true
	}
	filter := c20Filters[p.Filter%len(c20Filters)]
	h.openSub("filtered", fmt.Sprintf(`{_or: [{name: {_eq: %q}}, %s]}`, c20Marker, filter))
	h.openSub("unfiltered", "")
	defer func() {
		for _, s := range h.subs {
			s.cancel()
		}
		// a cancelled subscription goroutine only notices the cancellation at its next select
		h.n.DB.Events().Publish(event.NewMessage(event.UpdateName, "verif-wakeup"))
	}()
	h.barrier()

	// marker document + a few initial documents
	md, err := client.NewDocFromMap(map[string]any{"name": c20Marker, "u": 0, "f": 0.5}, h.col.Definition())
	core.Must(err)
	core.Must(h.col.Create(ctx, md))
	h.marker = md.ID().String()
	for i := 0; i < 3; i++ {
		d, err := client.NewDocFromMap(h.newDocMap(), h.col.Definition())
		core.Must(err)
		core.Must(h.col.Create(ctx, d))
	}
	commits := h.newCommits()
	h.barrier()
	h.checkWindow("initial-creates", "success", commits, nil)
	h.refresh()
	// the first marker round also consumes the results of the initial creates (the marker's own
	// creation matches every subscription and is accounted for as a changed document)
	h.settleSubs("initial-creates", "success", commits, true, nil)

	steps := p.Steps
	script := p.Script
	for s := 0; s < steps || len(script) > 0; s++ {
		h.step++
		var kind string
		if len(script) > 0 {
			kind, script = script[0], script[1:]
		} else {
			switch x := h.rng.IntN(100); {
			case x < 45:
				kind = c20SimpleKinds[h.rng.IntN(len(c20SimpleKinds))]
			case x < 57:
				kind = c20InvalidKinds[h.rng.IntN(len(c20InvalidKinds))]
			case x < 68:
				kind = "fault:" + c20SimpleKinds[h.rng.IntN(len(c20SimpleKinds))]
			case x < 72:
				kind = "commitfault:" + c20SimpleKinds[h.rng.IntN(len(c20SimpleKinds))]
			case x < 80:
				kind = "burst"
				if p.Churn && h.rng.IntN(2) == 0 {
					kind = "churn_burst"
				}
			case x < 87:
				kind = "txn:commit"
			case x < 92:
				kind = "txn:discard"
			default:
				kind = "txn:failing-commit"
			}
		}
		for k, at := range p.StallAt {
			if at == s && len(p.Script) == 0 {
				h.stepStall(p.StallKind[k%len(p.StallKind)])
				h.step++
			}
		}
		if h.abort {
			break
		}
		if p.Churn && len(p.Script) == 0 && h.rng.IntN(100) < 22 {
			// a subscriber leaves or joins at a quiescent point, before the step
			h.churnAction([]string{"leave", "join"}[h.rng.IntN(2)], nil)
		}
		switch {
		case kind == "rec_join" || kind == "rec_leave" || kind == "sub_join" || kind == "sub_leave":
			if !h.churnAction(kind, nil) {
				h.r.Note("scripted_churn_step_not_applicable/" + kind) // the floors tell if an anchor no longer does its job
			}
		case kind == "churn_burst":
			h.stepChurnBurst()
		case kind == "cancel_race":
			h.stepCancelRace()
		case strings.HasPrefix(kind, "stall:"):
			h.stepStall(strings.TrimPrefix(kind, "stall:"))
		case kind == "burst":
			h.stepBurst()
		case kind == "parallel":
			h.stepParallel()
		case strings.HasPrefix(kind, "txn:"):
			h.stepTxn(strings.TrimPrefix(kind, "txn:"))
		case strings.HasPrefix(kind, "fault:"):
			h.stepSimple(strings.TrimPrefix(kind, "fault:"), "random")
		case strings.HasPrefix(kind, "commitfault:"):
			h.stepSimple(strings.TrimPrefix(kind, "commitfault:"), "commit")
		default:
			h.stepSimple(kind, "")
		}
		if len(h.live) > 9 {
			// keep the collection small
			h.step++
			h.stepSimple("delete", "")
		}
		if h.abort {
			break
		}
	}
	if p.Parallel && !h.abort {
		h.step++
		h.stepParallel()
	}
	if h.abort {
		r.Count("histories_aborted", 1)
		return
	}

	// --- end of history
	h.barrier()
	// (the subscribers' sequences were compared window by window, for the commits made while both were subscribed)
	received := 0
	for _, rc := range h.recs {
		received += rc.rc.Len()
	}
	if h.badReceipt > 0 {
		var bad []string
		sig := "event/block-not-readable-at-receipt"
		for _, rc := range h.recs {
			for _, e := range rc.rc.Events() {
				if e.AtReceipt != nil {
					bad = append(bad, fmt.Sprintf("recorder#%d doc=%q cid=%s %v", rc.id, e.DocID, e.Cid, e.AtReceipt))
					if e.AtReceipt["hash_mismatch"] != nil || e.AtReceipt["stored_bytes_differ"] != nil {
						sig = "event/block-bytes-do-not-match-cid"
					}
				}
			}
		}
		h.violate(sig, fmt.Sprintf("%d update event(s) carried a block that was not readable from the store, or whose bytes do not hash to the announced cid, when the event was received", h.badReceipt), map[string]any{"events": bad})
	}
	r.Count("receipt_checks", int64(received))
	// cross-check with the commits query: document-level (_C) and collection-level commits = announced cids
	rows, err := h.n.Rows(ctx, `query { commits { cid docID fieldName } }`, "commits")
	core.Must(err)
	inQuery := map[string]bool{}
	for _, row := range rows {
		if row["fieldName"] == "_C" || row["docID"] == nil {
			inQuery[fmt.Sprint(row["cid"])] = true
		}
	}
	announced := h.announced
	var onlyQ, onlyE []string
	for k := range inQuery {
		if !announced[k] {
			onlyQ = append(onlyQ, k)
		}
	}
	for k := range announced {
		if !inQuery[k] {
			onlyE = append(onlyE, k)
		}
	}
	r.Count("commits_query_crosschecks", 1)
	if len(onlyQ) > 0 || len(onlyE) > 0 {
		h.violate("event/set-differs-from-commits-query", fmt.Sprintf("at the end of the history the commits query lists %d document/collection-level commits that were never announced and %d announced cids are not listed", len(onlyQ), len(onlyE)),
			map[string]any{"only_in_commits_query": onlyQ, "only_announced": onlyE})
	}
	// the subscriptions that are still open are cancelled under observation (see waitCancelled)
	open := h.liveSubs()
	for _, sub := range open {
		sub.cancel()
		sub.gone = true
	}
	for _, sub := range open {
		if !h.waitCancelled(sub, "at the end of the history") {
			r.Count("histories_aborted", 1)
			return
		}
	}
	if h.failed && h.multi {
		r.Count("nontrivial_histories", 1)
		for t := range h.tuples {
			r.Nontrivial(t)
		}
	}
	r.Count("histories", 1)
	r.Sample(map[string]any{"params": p, "history_head": h.log[:min(len(h.log), 12)]})
}

func c20Cases(seed uint64, tier string) []core.Case {
	var cs []core.Case
	anchor := []string{"create", "create_many", "update", "update_unchanged", "gql_create_multi", "gql_multi", "other_create", "other_update", "update_filter",
		"invalid_create_duplicate", "invalid_create_unique", "invalid_gql_multi_last_fails", "invalid_create_many_dup", "invalid_delete_missing",
		"fault:update", "fault:create_many", "fault:gql_multi", "commitfault:update", "commitfault:create",
		"txn:commit", "txn:discard", "txn:failing-commit", "burst", "parallel", "delete", "update", "invalid_update_deleted", "delete_filter", "gql_update_filter", "burst"}
	// subscriber churn. Minimal: three subscribers of update events (one bus recorder, two GraphQL
	// subscriptions); create; one GraphQL subscription is cancelled; create again: the two that stay
	// must be notified. Long: every kind of leave / join, at quiescent points and inside bursts.
	churnMin := []string{"create", "sub_leave", "create"}
	churnRec := []string{"create", "rec_leave", "create"}
	churnLong := []string{"create", "rec_join", "update", "sub_join", "create", "rec_leave", "update", "sub_leave", "create_many", "churn_burst",
		"rec_join", "sub_join", "delete", "rec_leave", "txn:commit", "sub_leave", "burst", "churn_burst", "gql_multi", "sub_join", "other_create", "churn_burst", "update"}
	var cancelRace []string
	for i := 0; i < 10; i++ {
		cancelRace = append(cancelRace, "cancel_race")
	}
	for _, cfg := range []string{"plain", "branchable"} {
		cs = append(cs, core.MkCase("anchor-churn-min/"+cfg, 1, c20Params{Config: cfg, Subs: 1, Filter: 0, Script: churnMin}))
		cs = append(cs, core.MkCase("anchor-churn-rec/"+cfg, 1, c20Params{Config: cfg, Subs: 2, Filter: 0, Script: churnRec}))
		cs = append(cs, core.MkCase("anchor-churn/"+cfg, 1, c20Params{Config: cfg, Subs: 2, Filter: 1, Script: churnLong}))
		cs = append(cs, core.MkCase("anchor-cancel-while-busy/"+cfg, 1, c20Params{Config: cfg, Subs: 1, Filter: 2, Script: cancelRace}))
	}
	// a subscriber that does not read (any more) leaves after more commits than its buffer holds; the
	// minimal histories first (one kind each), then all four kinds in one history
	for _, cfg := range []string{"plain", "branchable"} {
		cs = append(cs, core.MkCase("anchor-stalled-graphql-client-cancels/"+cfg, 1, c20Params{Config: cfg, Subs: 1, Filter: 0, Script: []string{"create", "stall:sub_fresh", "create"}}))
		cs = append(cs, core.MkCase("anchor-stalled-bus-subscriber-unsubscribes/"+cfg, 1, c20Params{Config: cfg, Subs: 2, Filter: 0, Script: []string{"create", "stall:rec_fresh", "create"}}))
	}
	cs = append(cs, core.MkCase("anchor-stalled-subscribers/plain", 1, c20Params{Config: "plain", Subs: 2, Filter: 3, Script: []string{"create", "stall:sub_live", "update", "stall:rec_live", "burst", "stall:rec_fresh", "txn:commit", "stall:sub_fresh", "create_many", "stall:both"}}))
	for _, cfg := range []string{"plain", "branchable"} {
		for _, k := range []int{1, 2, 4} {
			cs = append(cs, core.MkCase("anchor/"+cfg, 1, c20Params{Config: cfg, Subs: k, Filter: 0, Script: anchor}))
		}
	}
	n := 200
	if tier == "thorough" {
		n = 5000
	}
	rng := rand.New(rand.NewPCG(seed, 2020))
	rngChurn := rand.New(rand.NewPCG(seed, 2021)) // separate stream: the histories without churn stay what they were
	for i := 0; i < n; i++ {
		p := c20Params{Config: []string{"plain", "branchable"}[rng.IntN(2)], Subs: []int{1, 2, 4}[rng.IntN(3)], Steps: 12 + rng.IntN(12), Filter: rng.IntN(len(c20Filters)), Parallel: rng.IntN(4) == 0}
		p.Churn = rngChurn.IntN(4) != 0
		cs = append(cs, core.MkCase("history/"+p.Config, rng.Uint64(), p))
	}
	// histories in which, besides the ordinary churn, subscribers that have stopped reading leave
	rngStall := rand.New(rand.NewPCG(seed, 2022))
	for i := 0; i < n/10; i++ {
		p := c20Params{Config: []string{"plain", "branchable"}[rngStall.IntN(2)], Subs: []int{1, 2, 4}[rngStall.IntN(3)], Steps: 6 + rngStall.IntN(8), Filter: rngStall.IntN(len(c20Filters)), Churn: rngStall.IntN(3) != 0}
		for k := 1 + rngStall.IntN(2); k > 0; k-- {
			p.StallAt = append(p.StallAt, rngStall.IntN(p.Steps))
			p.StallKind = append(p.StallKind, c20StallKinds[rngStall.IntN(len(c20StallKinds))])
		}
		cs = append(cs, core.MkCase("history-stall/"+p.Config, rngStall.Uint64(), p))
	}
	return cs
}

func init() {
	var floors []string
	for _, cfg := range []string{"plain", "branchable"} {
		for _, o := range []string{"success", "validation-error", "injected-fault", "discard", "failing-commit"} {
			floors = append(floors, "outcome:"+o+":"+cfg)
		}
	}
	floors = append(floors, "evaluations", "events_seen", "collection_level_commits", "subscription_results", "subscription_windows", "multi_document_requests",
		"bursts", "parallel_phases", "order_checks", "open_transaction_checks", "subscriber_sequence_comparisons", "receipt_checks", "commits_query_crosschecks", "nontrivial_histories",
		// subscriber churn: the oracle was applied to subscribers that stayed while another left, and to subscribers that joined later
		"subscriber_left_while_others_stayed", "subscriber_joined_mid_history",
		"recorder_left_while_others_stayed", "graphql_subscription_cancelled_while_others_stayed", "recorder_joined_mid_history", "graphql_subscription_joined_mid_history",
		"recorder_windows_after_another_subscriber_left", "recorder_windows_of_mid_history_joiner",
		"subscription_windows_after_another_subscriber_left", "subscription_windows_of_mid_history_joiner",
		"churn_bursts", "subscriber_left_inside_burst", "subscriber_joined_inside_burst",
		// a subscriber that had stopped reading left with a full buffer while the bus was waiting for it, and the others were judged afterwards
		"stalled_bus_subscriber_unsubscribed_with_full_buffer", "stalled_graphql_client_cancelled_with_full_buffer", "subscriber_stopped_reading_mid_history", "bus_seen_waiting_for_stalled_subscriber_before_it_left",
		"recorder_windows_after_stalled_subscriber_left", "subscription_windows_after_stalled_subscriber_left", "node_closed_after_stalled_subscriber_left")
	core.Register(&core.Check{
		ID: "C20", Level: "exploration",
		Rule: "case = one mutation history on one node (plain or @branchable collection plus a second collection) observed by k in {1,2,4} bus recorders and two GraphQL subscriptions (generated filter / none): " +
			"creates, updates, deletes, filtered and multi-document requests, several mutations in one request, requests failing by validation, by an injected storage fault (random k) or by a failing Commit, " +
			"explicit transactions that commit / are discarded / fail at commit, bursts without intermediate barrier, a phase with 2-3 concurrent callers; in 3 of 4 histories subscribers come and go: recorders unsubscribe and " +
			"GraphQL subscriptions are cancelled while others stay, new ones join, at quiescent points and between the operations of a burst - every subscriber must get exactly the events of the commits made while it was subscribed; anchors and n/10 extra histories contain subscribers that stop reading (or never read), fall 105-125 events behind (buffer: 100) and then unsubscribe / cancel: the subscribers that stay must get every commit of that window and of the rest of the history, and the node must close. evaluations = quiescent windows compared " +
			"(events vs new composite/collection blocks in /db/blocks). distinct = (operation kind, outcome, configuration, recorder count) seen in histories with >=1 failed or discarded operation and >=1 multi-document request.",
		Cases:       c20Cases,
		Run:         runC20,
		Floors:      floors,
		CaseTimeout: 900 * time.Second,
		Assumptions: []string{
			"ground truth for 'committed' = composite and collection blocks newly present in the raw block store after the operation returned (cross-checked with the commits query at the end of each history)",
			"quiescence of the bus = a message published by the harness has come out at a FRESH subscriber (single command channel: every earlier publication has been pushed to the subscribers' buffers), then every recorder has drained its buffer on request (core.BusFence / ChurnRecorder.Flush) - a recorder the bus no longer serves is reported, not waited for; quiescence of a GraphQL subscription = the result for a marker update that matches every filter has arrived (watchdog: 90 s, extended up to 450 s while no subscription goroutine is blocked; then reported as a stalled or deadlocked subscription); a subscription is reported as idle-without-result without waiting when one consistent goroutine snapshot (runtime.Stack, world stopped) taken after the bus fence shows every subscription goroutine parked in its event select and every reader parked in its receive and the marker result is not there",
			"a subscriber has left once its Unsubscribe is queued on the bus (GraphQL: result channel closed after cancel), has joined once Subscribe / ExecRequest returned; the bus handles commands in order, so both are exact points of a single caller's history",
			"a GraphQL subscription result is expected for every non-delete document-level commit of the subscribed collection whose document matches the filter in an ordinary query right after the operation; results for delete commits are counted, not judged; every document is touched at most once per quiescent window",
			"single caller for most of the history; the concurrent phase uses disjoint documents per caller",
			"a bus that waits for a subscriber with a full buffer is documented behaviour and not judged while that subscriber is subscribed; once its Unsubscribe is queued (GraphQL: result channel closed after cancel) the bus must get on. 'Blocked for good' is a state verdict, not a timeout: in three consecutive goroutine snapshots the bus goroutine of this node is parked in a channel send while every recorder goroutine is parked waiting for a message (empty buffer), every subscription goroutine and reader is idle, and the fence issued after the leave has not come out; node close: watchdog 450 s",
		},
	})
}
