package checks

import (
	"context"
	"fmt"
	"math/rand/v2"
	"runtime"
	"strings"
	"sync"
	"sync/atomic"
	"time"

	"github.com/sourcenetwork/immutable"

	"github.com/sourcenetwork/defradb/acp/dac"
	"github.com/sourcenetwork/defradb/client"
	dnet "github.com/sourcenetwork/defradb/net"
	netConfig "github.com/sourcenetwork/defradb/net/config"
	"github.com/sourcenetwork/defradb/verifharness/core"
)

// Workload "bidir": two real peers on loopback replicate the same collection to each other
// (replicator in both directions + pubsub subscription) while clients on BOTH nodes update the
// same documents and other clients change / read the P2P configuration. Incoming merges therefore
// arrive through the real receive path (net server -> syncDAG -> merge event -> merge queue)
// concurrently with local writes, which is the part of the statement ("incoming merges against
// one node") that the "mixed" workload only reaches through the event bus.
//
// Oracles: the race detector and the crash/panic monitors (as for every C16 workload), plus
// conservation on each node from what was acknowledged:
//
//	own acknowledged increments  <=  counter on the node  <=  increments acknowledged on either node
//
// and equality with the total when both nodes report the same composite heads for the document.
// Whether the two nodes do reach the same heads is C15's subject and is only counted here.
func c16RunBidir(ctx context.Context, c core.Case, p c16Params, r *core.Rec) {
	nodes := [2]*core.Node{core.NewNode(ctx, core.NodeOpts{Fault: true}), core.NewNode(ctx, core.NodeOpts{Fault: true})}
	for _, n := range nodes {
		defer n.Close()
		_, err := n.DB.AddSchema(ctx, c16SDL)
		core.Must(err)
	}
	var peers [2]*dnet.Peer
	for i, n := range nodes {
		pr, err := dnet.NewPeer(ctx, n.DB.Events(), immutable.None[dac.DocumentACP](), n.DB,
			netConfig.WithListenAddresses("/ip4/127.0.0.1/tcp/0"), netConfig.WithEnablePubSub(true),
			netConfig.WithRetryInterval([]time.Duration{time.Second, time.Second}))
		core.Must(err)
		peers[i] = pr
		defer pr.Close()
	}
	nDocs := 2 + int(c.Seed%3)
	colA := nodes[0].Col(ctx, "U")
	ids := make([]client.DocID, nDocs)
	for d := 0; d < nDocs; d++ {
		doc, err := client.NewDocFromMap(map[string]any{"name": fmt.Sprintf("b%d", d), "k": d, "v": "init", "n": 0}, colA.Definition())
		core.Must(err)
		core.Must(colA.Create(ctx, doc))
		ids[d] = doc.ID()
	}
	core.Must(peers[0].SetReplicator(ctx, peers[1].PeerInfo(), "U"))
	// wait (bounded, not a verdict) until B holds every document
	have := func() bool {
		colB := nodes[1].Col(ctx, "U")
		for _, id := range ids {
			if _, err := colB.Get(ctx, id, false); err != nil {
				return false
			}
		}
		return true
	}
	ok := false
	for i := 0; i < 10000 && !ok; i++ {
		if ok = have(); !ok {
			time.Sleep(2 * time.Millisecond)
		}
	}
	if !ok {
		r.Count("bidir_setup_incomplete", 1)
		r.Note("bidir: the initial push did not reach the second node within the setup bound (case not evaluated)")
		return
	}
	core.Must(peers[1].SetReplicator(ctx, peers[0].PeerInfo(), "U"))
	for _, pr := range peers {
		core.Must(pr.AddP2PCollections(ctx, "U"))
	}
	for i, n := range nodes {
		n.Fault.EnableYield(p.Yield, c.Seed+uint64(i))
	}

	var sums [2][]atomic.Int64
	for i := range sums {
		sums[i] = make([]atomic.Int64, nDocs)
	}
	var acked, conflicts, cfgOps, cfgErrs atomic.Int64
	var stop atomic.Bool
	var wg, cwg sync.WaitGroup
	for ni := range nodes {
		for g := 0; g < p.G; g++ {
			wg.Add(1)
			go func(ni, g int) {
				defer wg.Done()
				defer c16Guard(r, "bidir: local update while merges arrive from the other peer")
				rng := rand.New(rand.NewPCG(c.Seed, uint64(ni*100+g)+7))
				for i := 0; i < p.Ops; i++ {
					d := rng.IntN(nDocs)
					hc, err := nodes[ni].DB.GetCollectionByName(ctx, "U")
					core.Must(err)
					doc, err := hc.Get(ctx, ids[d], false)
					if err != nil {
						r.Note("bidir err: col.Get: " + err.Error())
						continue
					}
					inc := int64(1 + rng.IntN(3))
					core.Must(doc.Set("n", inc))
					if rng.IntN(2) == 0 {
						core.Must(doc.Set("v", fmt.Sprintf("n%d.g%d.%d", ni, g, i)))
					}
					if err := hc.Update(ctx, doc); err != nil {
						if c16IsConflict(err) {
							conflicts.Add(1)
						} else {
							r.Note("bidir err: col.Update: " + c16Scrub(err.Error()))
						}
						continue
					}
					sums[ni][d].Add(inc)
					acked.Add(1)
				}
			}(ni, g)
		}
		// configuration client of this node: changes and reads the P2P state while logs flow
		cwg.Add(1)
		go func(ni int) {
			defer cwg.Done()
			defer c16Guard(r, "bidir: P2P configuration calls")
			rng := rand.New(rand.NewPCG(c.Seed, uint64(ni)+991))
			pr := peers[ni]
			for i := 0; !stop.Load() && i < 2000; i++ {
				var err error
				switch rng.IntN(7) {
				case 0:
					err = pr.RemoveP2PCollections(ctx, "U")
				case 1:
					err = pr.AddP2PCollections(ctx, "U")
				case 2:
					_, err = pr.GetAllP2PCollections(ctx)
				case 3:
					_, err = pr.GetAllReplicators(ctx)
				case 4:
					pr.VerifReplicatorRouting()
				case 5:
					_ = pr.PeerInfo()
				default:
					// SyncDocuments waits for answers until its context ends (that is its contract),
					// so it gets a deadline; its outcome is only noted
					sctx, cancel := context.WithTimeout(ctx, 300*time.Millisecond)
					err = pr.SyncDocuments(sctx, "U", []string{ids[rng.IntN(nDocs)].String()})
					cancel()
					if err != nil {
						r.Note("bidir SyncDocuments: " + c16Scrub(err.Error()))
						err = nil
					}
				}
				cfgOps.Add(1)
				if err != nil {
					cfgErrs.Add(1)
					r.Note("bidir cfg err: " + c16Scrub(err.Error()))
				}
				time.Sleep(time.Duration(200+rng.IntN(800)) * time.Microsecond)
			}
		}(ni)
	}
	wg.Wait()
	stop.Store(true)
	cwg.Wait()
	for _, n := range nodes {
		n.Fault.EnableYield(0, 1)
	}
	for _, pr := range peers {
		_ = pr.AddP2PCollections(ctx, "U")
	}
	// bounded wait for the pushes in flight to end and (opportunistically) for the heads to agree
	headsEqual := func(d int) bool {
		a, b := nodes[0].CompositeHeads(ctx, ids[d].String()), nodes[1].CompositeHeads(ctx, ids[d].String())
		return strings.Join(a, ",") == strings.Join(b, ",")
	}
	stackBuf := make([]byte, 8<<20)
	inFlight := func() bool {
		s := string(stackBuf[:runtime.Stack(stackBuf, true)])
		for _, f := range []string{"net.(*Peer).pushHeadsForAllDocs", "net.(*server).pushLog", "net.syncDAG", "db.(*DB).executeMerge", "net.(*Peer).handleLog", "net.(*server).PushLog"} {
			if strings.Contains(s, f) {
				return true
			}
		}
		return false
	}
	// (the all-goroutine stack dump stops the world: it is taken at most 600 times)
	for i := 0; i < 400; i++ {
		all := true
		for d := 0; all && d < nDocs; d++ {
			all = headsEqual(d)
		}
		if all && !inFlight() {
			break
		}
		time.Sleep(10 * time.Millisecond)
	}
	for i := 0; i < 200 && inFlight(); i++ {
		time.Sleep(10 * time.Millisecond)
	}
	r.Count("evaluations", int64(2*p.G*p.Ops)+cfgOps.Load())
	r.Count("bidir_runs", 1)
	r.Count("bidir_config_calls", cfgOps.Load())
	r.Count("bidir_config_errors", cfgErrs.Load())
	r.Count("bidir_conflicts", conflicts.Load())
	r.Count("acked_ops", acked.Load())
	remoteSeen := int64(0)
	for d := 0; d < nDocs; d++ {
		total := sums[0][d].Load() + sums[1][d].Load()
		eq := headsEqual(d)
		if eq {
			r.Count("bidir_docs_heads_equal", 1)
		} else {
			r.Count("bidir_docs_heads_differ_at_end", 1)
		}
		for ni, n := range nodes {
			doc, err := n.Col(ctx, "U").Get(ctx, ids[d], false)
			core.Must(err)
			_, _, got, err := c16DocState(doc)
			core.Must(err)
			own := sums[ni][d].Load()
			detail := map[string]any{"params": p, "node": ni, "doc": d, "counter": got, "acknowledged_on_this_node": own, "acknowledged_on_both": total, "heads_equal": eq}
			switch {
			case got < own:
				r.Violate("conservation/counter-below-acknowledged-sum", fmt.Sprintf("bidir workload: node %d counter %d is below its own acknowledged increments %d", ni, got, own), detail)
			case got > total:
				r.Violate("conservation/counter-above-acknowledged-sum", fmt.Sprintf("bidir workload: node %d counter %d exceeds all acknowledged increments %d", ni, got, total), detail)
			case eq && got != total:
				r.Violate("conservation/same-heads-counter-differs-from-acknowledged-sum", fmt.Sprintf("bidir workload: both nodes report the same heads, node %d counter %d, acknowledged increments %d", ni, got, total), detail)
			}
			if got > own {
				remoteSeen++
			}
		}
	}
	r.Count("bidir_docs_with_remote_increments_merged", remoteSeen)
	r.Nontrivial(fmt.Sprintf("bidir|g%d|procs%d|y%v|c%d|r%d", p.G, p.Procs, p.Yield, conflicts.Load()/5, remoteSeen))
	r.Sample(map[string]any{"kind": "bidir", "params": p, "acknowledged_updates": acked.Load(), "conflicts": conflicts.Load(),
		"config_calls": cfgOps.Load(), "config_errors": cfgErrs.Load(), "documents_with_remote_increments": remoteSeen})
}

// c16Scrub removes ids from error texts so that notes aggregate.
func c16Scrub(s string) string {
	f := strings.Fields(s)
	for i, w := range f {
		if len(w) > 30 {
			f[i] = "<id>"
		}
	}
	return strings.Join(f, " ")
}
