package checks

import (
	"context"
	"fmt"
	"math/rand/v2"
	"sync"
	"sync/atomic"

	"github.com/sourcenetwork/defradb/client"
	"github.com/sourcenetwork/defradb/verifharness/core"
)

// Workload "shared-handle": the goroutines share ONE collection handle (fetched once, after the
// secondary indexes exist) instead of fetching a handle per operation as the other workloads do.
// A client.Collection is handed out to be used, and nothing says it belongs to one goroutine.
// Every worker owns one document, so no two calls conflict: every call must succeed, return the
// caller's own document, and leave the final state and the index entries as acknowledged.
func c16RunSharedHandle(ctx context.Context, c core.Case, p c16Params, r *core.Rec) {
	a := core.NewNode(ctx, core.NodeOpts{Fault: true})
	defer a.Close()
	_, err := a.DB.AddSchema(ctx, c16SDL)
	core.Must(err)
	{
		h, err := a.DB.GetCollectionByName(ctx, "U")
		core.Must(err)
		for _, f := range []string{"k", "v"} {
			_, err = h.CreateIndex(ctx, client.IndexCreateRequest{Name: "idx_" + f, Fields: []client.IndexedFieldDescription{{Name: f}}})
			core.Must(err)
		}
	}
	h, err := a.DB.GetCollectionByName(ctx, "U") // the shared handle
	core.Must(err)
	ids := make([]client.DocID, p.G)
	for g := 0; g < p.G; g++ {
		doc, err := client.NewDocFromMap(map[string]any{"name": fmt.Sprintf("w%d", g), "k": g, "v": fmt.Sprintf("w%d.init", g), "n": 0}, h.Definition())
		core.Must(err)
		core.Must(h.Create(ctx, doc))
		ids[g] = doc.ID()
	}
	a.Fault.EnableYield(p.Yield, c.Seed)
	sums := make([]int64, p.G)
	lastV := make([]string, p.G)
	var acked, conflicts atomic.Int64
	var wg sync.WaitGroup
	for g := 0; g < p.G; g++ {
		wg.Add(1)
		go func(g int) {
			defer wg.Done()
			defer c16Guard(r, "shared collection handle")
			rng := rand.New(rand.NewPCG(c.Seed, uint64(g)+31))
			lastV[g] = fmt.Sprintf("w%d.init", g)
			fail := func(op string, err error) bool {
				if err == nil {
					return false
				}
				if c16IsConflict(err) {
					conflicts.Add(1)
					return true
				}
				r.Violate("shared-handle/call-on-own-document-failed/"+op, fmt.Sprintf("%s on the caller's own document through a shared collection handle failed: %s", op, c16Scrub(err.Error())),
					map[string]any{"params": p, "worker": g, "error": err.Error()})
				return true
			}
			for i := 0; i < p.Ops; i++ {
				doc, err := h.Get(ctx, ids[g], false)
				if fail("col.Get", err) {
					continue
				}
				if doc.ID().String() != ids[g].String() {
					r.Violate("shared-handle/get-returned-another-document", "Get through a shared collection handle returned a document other than the one asked for",
						map[string]any{"params": p, "worker": g, "asked": ids[g].String(), "got": doc.ID().String()})
					continue
				}
				if m, err := doc.ToMap(); err == nil && c16Str(m["name"]) != fmt.Sprintf("w%d", g) {
					r.Violate("shared-handle/get-returned-another-document", "Get through a shared collection handle returned the fields of another worker's document",
						map[string]any{"params": p, "worker": g, "name": m["name"]})
					continue
				}
				switch rng.IntN(6) {
				case 0:
					if ok, err := h.Exists(ctx, ids[g]); !fail("col.Exists", err) && !ok {
						r.Violate("shared-handle/exists-false-for-live-document", "Exists through a shared collection handle denies the caller's live document", map[string]any{"params": p, "worker": g})
					}
					continue
				case 1:
					rows, err := a.Rows(ctx, fmt.Sprintf(`query { U(filter: {k: {_eq: %d}}) { name } }`, g), "U")
					if err == nil && len(rows) != 1 {
						r.Violate("shared-handle/index-query-misses-live-document", fmt.Sprintf("index-served query on k returns %d rows for the worker's live document", len(rows)), map[string]any{"params": p, "worker": g})
					}
					continue
				}
				inc := int64(1 + rng.IntN(3))
				val := fmt.Sprintf("w%d.%d", g, i)
				core.Must(doc.Set("v", val))
				core.Must(doc.Set("n", inc))
				if fail("col.Update", h.Update(ctx, doc)) {
					continue
				}
				sums[g] += inc
				lastV[g] = val
				acked.Add(1)
			}
		}(g)
	}
	wg.Wait()
	a.Fault.EnableYield(0, 1)
	r.Count("evaluations", int64(p.G*p.Ops))
	r.Count("shared_handle_runs", 1)
	r.Count("shared_handle_acked_updates", acked.Load())
	r.Count("shared_handle_conflicts", conflicts.Load())
	r.Count("acked_ops", acked.Load())
	fresh, err := a.DB.GetCollectionByName(ctx, "U")
	core.Must(err)
	for g := 0; g < p.G; g++ {
		doc, err := fresh.Get(ctx, ids[g], false)
		core.Must(err)
		v, _, n, err := c16DocState(doc)
		core.Must(err)
		det := map[string]any{"params": p, "worker": g, "final_v": v, "last_acknowledged_v": lastV[g], "final_n": n, "acknowledged_sum": sums[g]}
		if n != sums[g] {
			r.Violate("conservation/shared-handle/counter-differs-from-acknowledged-sum", fmt.Sprintf("shared-handle workload: final counter %d, acknowledged increments sum to %d", n, sums[g]), det)
		}
		if v != lastV[g] {
			r.Violate("conservation/shared-handle/acknowledged-write-lost", fmt.Sprintf("shared-handle workload: final v=%q, last acknowledged write %q", v, lastV[g]), det)
		}
		rows, err := a.Rows(ctx, fmt.Sprintf(`query { U(filter: {v: {_eq: %q}}) { name } }`, lastV[g]), "U")
		core.Must(err)
		if len(rows) != 1 || c16Str(rows[0]["name"]) != fmt.Sprintf("w%d", g) {
			det["rows_for_last_value"] = rows
			r.Violate("conservation/shared-handle/index-entry-of-acknowledged-write-missing", fmt.Sprintf("shared-handle workload: the index-served query for the last acknowledged value of v returns %d rows", len(rows)), det)
		}
	}
	r.Nontrivial(fmt.Sprintf("shared-handle|g%d|procs%d|y%v", p.G, p.Procs, p.Yield))
	r.Sample(map[string]any{"kind": "shared-handle", "params": p, "acknowledged_updates": acked.Load(), "conflicts": conflicts.Load()})
}
