package checks

import (
	"context"

	badgerds "github.com/dgraph-io/badger/v4"
	"github.com/dgraph-io/badger/v4/options"
	"github.com/sourcenetwork/corekv/badger"
	"github.com/sourcenetwork/corelog"

	"github.com/sourcenetwork/defradb/verifharness/core"
)

// fastNode opens a node on an in-memory badger store with small arenas and no caches.
// The default options allocate a 64 MB memtable and 256 MB of cache bookkeeping per store,
// which costs 30-300 ms per node (allocation + GC) when thousands of fresh nodes are created;
// with these options a node is up in ~3 ms. Behaviour of the store is otherwise unchanged.
func fastNode(ctx context.Context, o core.NodeOpts) *core.Node {
	if o.Existing == nil && (o.Store == "" || o.Store == "badger") {
		bo := badgerds.DefaultOptions("").WithInMemory(true).WithLogger(nil).WithMemTableSize(8 << 20).
			WithBlockCacheSize(0).WithIndexCacheSize(0).WithCompression(options.None).WithNumCompactors(2).WithNumMemtables(2)
		rs, err := badger.NewDatastore("", bo)
		core.Must(err)
		o.Existing = rs
	}
	return core.NewNode(ctx, o)
}

// quietLogs raises the log level of the system under test to "error" for this worker process.
// At level info every merged block logs a line ("Replacing DAG head"); time-travel queries (one
// per subscription event) replay whole histories and produce hundreds of MB of log per worker,
// which under load makes log I/O the bottleneck. Errors are still logged.
func quietLogs() {
	cfg := corelog.DefaultConfig()
	cfg.Level = corelog.LevelError
	corelog.SetConfig(cfg)
}
