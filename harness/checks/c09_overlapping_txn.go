package checks

import (
	"context"
	"fmt"

	"github.com/sourcenetwork/defradb/client"
	"github.com/sourcenetwork/defradb/internal/db"
	"github.com/sourcenetwork/defradb/verifharness/core"
	"github.com/sourcenetwork/defradb/verifharness/qsem"
)

// C09, fourth workload — "local writes never leave a one-to-one link held by two documents at once",
// for writes made by two OVERLAPPING explicit transactions. Both transactions are opened before either
// writes; each gives the link to the SAME target to a different document (by create or by update), then
// both commit (in either order). Afterwards at most one live document may hold the link: one of the
// writes or one of the commits has to fail. (The sequential form of the same two writes is the control:
// the second one must be rejected.)

type c09otParams struct {
	Topo    string `json:"topo"`
	Rel     int    `json:"rel"`
	Mode    string `json:"mode"` // create-create | create-update | update-update
	Indexed bool   `json:"indexed"`
	Commit  string `json:"commit_order"` // 12 | 21
	Same    bool   `json:"same_target"`  // false: the two transactions link to DIFFERENT targets (both must succeed)
}

func c09otCases() []core.Case {
	var cs []core.Case
	topos := c09Topologies()
	i := 0
	for _, name := range c09TopoNames {
		t := topos[name]
		for ri, rel := range t.Rels {
			if rel.Many {
				continue
			}
			for _, mode := range []string{"create-create", "create-update", "update-update"} {
				i++
				p := c09otParams{Topo: name, Rel: ri, Mode: mode, Indexed: i%2 == 0, Commit: []string{"12", "21"}[(i/2)%2], Same: true}
				cs = append(cs, core.MkCase("anchor-overlapping-transactions/"+name+"/"+mode, 1, p))
			}
			// control: different targets
			cs = append(cs, core.MkCase("anchor-overlapping-transactions/"+name+"/different-targets", 1,
				c09otParams{Topo: name, Rel: ri, Mode: "create-update", Indexed: ri%2 == 0, Commit: "12", Same: false}))
		}
	}
	return cs
}

var c09otFloors = []string{"one_to_one_overlapping_transaction_pairs", "one_to_one_overlapping_transaction_pairs_create_create", "one_to_one_overlapping_transaction_pairs_create_update",
	"one_to_one_overlapping_transaction_pairs_update_update", "one_to_one_overlapping_transactions_sequential_control_rejected", "one_to_one_overlapping_transactions_different_targets_both_committed"}

func c09otRun(ctx context.Context, c core.Case, r *core.Rec) {
	var p c09otParams
	c.P(&p)
	topo, known := c09Topologies()[p.Topo]
	if !known || p.Rel >= len(topo.Rels) {
		panic("C09 overlapping transactions: unknown topology / relation")
	}
	rel := topo.Rels[p.Rel]
	n := core.NewNode(ctx, core.NodeOpts{})
	defer n.Close()
	_, err := n.DB.AddSchema(ctx, topo.SDL(p.Indexed))
	core.Must(err)
	ex := &qsem.Exec{Ctx: ctx, N: n, R: r, Kind: c.Kind}
	r.Count("evaluations", 1)
	fk := rel.CtoP + "_id"
	var log []string
	mk := func(cctx context.Context, col, name string, link string) (string, error) {
		m := map[string]any{"name": name}
		if link != "" {
			m[fk] = link
		}
		cl := n.Col(ctx, col)
		doc, err := client.NewDocFromMap(m, cl.Definition())
		if err != nil {
			return "", err
		}
		err = cl.Create(cctx, doc)
		log = append(log, fmt.Sprintf("create %s %s %s=%q -> %v", col, name, fk, link, err))
		return doc.ID().String(), err
	}
	relink := func(cctx context.Context, id, name, link string) error {
		cl := n.Col(ctx, rel.CCol)
		docID, err := client.NewDocIDFromString(id)
		if err != nil {
			return err
		}
		doc, err := cl.Get(cctx, docID, false)
		if err == nil {
			if err = doc.Set(fk, link); err == nil {
				err = cl.Update(cctx, doc)
			}
		}
		log = append(log, fmt.Sprintf("update %s %s %s=%q -> %v", rel.CCol, name, fk, link, err))
		return err
	}
	var t0, t1, free1, free2 string
	_, pn, hung := ex.Guard("setup", func() error {
		var err error
		if t0, err = mk(ctx, rel.PCol, "target0", ""); err != nil {
			return err
		}
		if t1, err = mk(ctx, rel.PCol, "target1", ""); err != nil {
			return err
		}
		if free1, err = mk(ctx, rel.CCol, "free1", ""); err != nil {
			return err
		}
		if free2, err = mk(ctx, rel.CCol, "free2", ""); err != nil {
			return err
		}
		// control: sequentially, the second holder of a link is rejected
		h, err := mk(ctx, rel.CCol, "holder", t1)
		if err != nil {
			return err
		}
		if _, err2 := mk(ctx, rel.CCol, "second", t1); err2 != nil {
			r.Count("one_to_one_overlapping_transactions_sequential_control_rejected", 1)
		}
		id, _ := client.NewDocIDFromString(h)
		_, err = n.Col(ctx, rel.CCol).Delete(ctx, id)
		return err
	})
	if pn != "" || hung {
		return
	}
	if t0 == "" || free2 == "" {
		r.Violate("overlapping-transactions/setup-failed", "creating the documents of the case failed", map[string]any{"log": log, "params": p})
		return
	}
	targetOf2 := t0
	if !p.Same {
		targetOf2 = t1
	}
	var outcome [2]string
	_, pn, hung = ex.Guard("overlapping transactions", func() error {
		txn1, err := n.DB.NewTxn(ctx, false)
		if err != nil {
			return err
		}
		defer txn1.Discard(ctx)
		txn2, err := n.DB.NewTxn(ctx, false)
		if err != nil {
			return err
		}
		defer txn2.Discard(ctx)
		ctx1, ctx2 := db.InitContext(ctx, txn1), db.InitContext(ctx, txn2)
		var w1, w2 error
		switch p.Mode {
		case "create-create":
			_, w1 = mk(ctx1, rel.CCol, "new1", t0)
			_, w2 = mk(ctx2, rel.CCol, "new2", targetOf2)
		case "create-update":
			_, w1 = mk(ctx1, rel.CCol, "new1", t0)
			w2 = relink(ctx2, free2, "free2", targetOf2)
		default:
			w1 = relink(ctx1, free1, "free1", t0)
			w2 = relink(ctx2, free2, "free2", targetOf2)
		}
		commit := func(i int) {
			w, txn, cctx := w1, txn1, ctx1
			if i == 1 {
				w, txn, cctx = w2, txn2, ctx2
			}
			if w != nil {
				outcome[i] = "write-rejected"
				return
			}
			if err := txn.Commit(cctx); err != nil {
				outcome[i] = "commit-failed"
				log = append(log, fmt.Sprintf("commit %d -> %v", i+1, err))
				return
			}
			outcome[i] = "committed"
			log = append(log, fmt.Sprintf("commit %d -> ok", i+1))
		}
		if p.Commit == "21" {
			commit(1)
			commit(0)
		} else {
			commit(0)
			commit(1)
		}
		return nil
	})
	if pn != "" || hung {
		return
	}
	res := ex.Do(fmt.Sprintf(`query { %s { _docID name %s } }`, rel.CCol, fk))
	if !res.OK() {
		return
	}
	holders := map[string][]string{}
	for _, row := range res.Rows(rel.CCol) {
		if l, _ := row[fk].(string); l != "" {
			holders[l] = append(holders[l], mcStr(row["name"]))
		}
	}
	if !p.Same {
		if outcome[0] == "committed" && outcome[1] == "committed" && len(holders[t0]) == 1 && len(holders[t1]) == 1 {
			r.Count("one_to_one_overlapping_transactions_different_targets_both_committed", 1)
		}
		return
	}
	r.Count("one_to_one_overlapping_transaction_pairs", 1)
	r.Count("one_to_one_overlapping_transaction_pairs_"+map[string]string{"create-create": "create_create", "create-update": "create_update", "update-update": "update_update"}[p.Mode], 1)
	r.Count("one_to_one_link_invariant_checks", 1)
	r.Nontrivial("overlapping-transactions|" + p.Topo + "|" + p.Mode + "|" + p.Commit)
	if hs := holders[t0]; len(hs) > 1 {
		r.Violate("one-to-one/link-held-by-two-live-documents/overlapping-transactions",
			"two overlapping explicit transactions each gave the same one-to-one link to a different document and both committed: the link is held by two live documents",
			map[string]any{"holders": qsem.SortedCopy(hs), "outcomes": outcome, "mode": p.Mode, "commit_order": p.Commit, "relation": rel, "sdl": topo.SDL(p.Indexed), "log": log})
	}
}
