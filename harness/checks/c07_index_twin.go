package checks

// C07 — secondary indexes never change what a query returns.
//
// Twin comparison: database A carries an index set, database B does not; both get the same
// schema and the same mutation history (collection API, GraphQL mutations, UpdateWithFilter,
// DeleteWithFilter, commits merged from a third node C). After every step a batch of generated
// queries is sent to both and the answers are compared (multiset of rows; sequence of sort-key
// tuples when an order is requested; limit/offset windows only when the order is total).
// Unique indexes: A must reject a local write iff the write would leave two live documents with
// the same non-null indexed value — the predicate is evaluated on B's contents.
// Structural side monitor: A's raw index entries vs the entries after dropping and re-creating
// the same index.

import (
	"context"
	"encoding/json"
	"fmt"
	"math/rand/v2"
	"regexp"
	"runtime"
	"sort"
	"strconv"
	"strings"
	"time"

	"github.com/sourcenetwork/defradb/client"
	"github.com/sourcenetwork/defradb/internal/encoding"
	"github.com/sourcenetwork/defradb/verifharness/core"
	"github.com/sourcenetwork/defradb/verifharness/qgen"
)

type twinParams struct {
	Specs     []qgen.IndexSpec `json:"specs"`
	Mode      string           `json:"mode"` // sdl | api-before | api-after | drop-recreate
	Edge      bool             `json:"edge,omitempty"`
	RangeOnly bool             `json:"range_only,omitempty"`
	Steps     int              `json:"steps"`
	Queries   int              `json:"queries"`
	Anchor    string           `json:"anchor,omitempty"` // "ops": deterministic op cycle; "cells": operator table
	NoRemote  bool             `json:"no_remote,omitempty"`
	JSONMode  string           `json:"json_mode,omitempty"` // "" = mixed (scalars, arrays, objects) | "objects" (same keys everywhere)
	// Quiet: the per-case probe for the null-JSON panic adapts the workload but does not report
	// (C17 end-to-end: that finding belongs to C07)
	Quiet bool `json:"quiet,omitempty"`
	// Partial: the history also updates documents through objects that carry only the patched
	// fields (client.NewDocWithID + Set)
	Partial bool `json:"partial,omitempty"`
}

type twin struct {
	ctx   context.Context
	p     twinParams
	rng   *rand.Rand
	r     *core.Rec
	A, B  *core.Node
	C     *core.Node
	colID map[*core.Node]string

	docs    []string // every docID ever created successfully (A's view == B's view)
	gIDs    []string
	gNames  []string
	nextK   int
	log     []string
	idxName []string // name of the index of Specs[i] on A ("" = not present)
	step    int
	stop    bool // a divergence of the twin itself was reported; later comparisons are meaningless
	served  int
	// avoidNullJSON: the tree panics when a document with a null JSON field is written to a
	// collection with an index on that field (probed per case, reported as its own finding);
	// such histories then use non-null JSON values only
	avoidNullJSON bool
	curFilter     *qgen.Filter // filter of the filtered write being applied
	// partial: documents updated through a document object that carries only the patched fields
	// (client.NewDocWithID + Set) while a live index covered a field the object did not carry
	partial map[string]bool
	preRows map[string]map[string]any // B's live rows before that write, by docID
}

func (t *twin) logf(f string, a ...any) {
	t.log = append(t.log, fmt.Sprintf("[%d] ", t.step)+fmt.Sprintf(f, a...))
}

func (t *twin) detail(extra map[string]any) map[string]any {
	d := map[string]any{"index_set": specStrings(t.p.Specs), "mode": t.p.Mode, "history": clipTail(t.log, 60)}
	for k, v := range extra {
		d[k] = v
	}
	return d
}

func specStrings(s []qgen.IndexSpec) []string {
	out := make([]string, len(s))
	for i, x := range s {
		out[i] = x.String()
	}
	return out
}

func clipTail(l []string, n int) []string {
	if len(l) > n {
		return append([]string{fmt.Sprintf("... %d earlier lines", len(l)-n)}, l[len(l)-n:]...)
	}
	return l
}

func clipList(l []string, n int) []string {
	if len(l) > n {
		return append(append([]string{}, l[:n]...), fmt.Sprintf("... %d more", len(l)-n))
	}
	return l
}

// ---------------------------------------------------------------------------------------
// set-up

func runTwin(ctx context.Context, c core.Case, r *core.Rec) {
	var p twinParams
	c.P(&p)
	t := &twin{ctx: ctx, p: p, rng: c.Rng(), r: r, colID: map[*core.Node]string{}, partial: map[string]bool{}}
	t.A = core.NewNode(ctx, core.NodeOpts{})
	t.B = core.NewNode(ctx, core.NodeOpts{})
	defer t.A.Close()
	defer t.B.Close()
	sdlA := qgen.SDL(nil)
	if p.Mode == "sdl" {
		sdlA = qgen.SDL(p.Specs)
	}
	_, err := t.A.DB.AddSchema(ctx, sdlA)
	core.Must(err)
	_, err = t.B.DB.AddSchema(ctx, qgen.SDL(nil))
	core.Must(err)
	nodes := []*core.Node{t.A, t.B}
	if !p.NoRemote {
		t.C = core.NewNode(ctx, core.NodeOpts{})
		defer t.C.Close()
		_, err = t.C.DB.AddSchema(ctx, qgen.SDL(nil))
		core.Must(err)
		nodes = append(nodes, t.C)
	}
	for _, n := range nodes {
		t.colID[n] = n.Col(ctx, "U").Version().CollectionID
	}
	t.idxName = make([]string, len(p.Specs))
	for _, s := range p.Specs {
		if s.Has("j") {
			if p.Quiet {
				// C17 end-to-end: null JSON documents are not its subject (C07 probes and reports that)
				t.avoidNullJSON = true
			} else {
				t.probeNullJSON()
			}
			break
		}
	}
	if p.Mode == "sdl" {
		idx, err := t.A.Col(ctx, "U").GetIndexes(ctx)
		core.Must(err)
		if len(idx) != len(p.Specs) {
			panic(fmt.Sprintf("SDL produced %d indexes for %d specs", len(idx), len(p.Specs)))
		}
		for i, s := range p.Specs {
			for _, d := range idx {
				if sameIndex(d, s) {
					t.idxName[i] = d.Name
				}
			}
			if t.idxName[i] == "" {
				panic("index of spec " + s.String() + " not found after AddSchema")
			}
		}
	}
	if p.Mode == "api-before" || p.Mode == "drop-recreate" {
		for i := range p.Specs {
			t.createIndex(i)
		}
	}
	// G documents (relation targets), identical on every node
	for _, name := range []string{"x", "y"} {
		for _, n := range nodes {
			col := n.Col(ctx, "G")
			doc, err := client.NewDocFromMap(map[string]any{"name": name}, col.Definition())
			core.Must(err)
			core.Must(col.Create(ctx, doc))
			if n == t.A {
				t.gIDs = append(t.gIDs, doc.ID().String())
				t.gNames = append(t.gNames, name)
			}
		}
	}

	switch p.Anchor {
	case "cells":
		t.anchorCells()
	case "zero-time":
		t.anchorZeroTime()
		return
	case "halloween":
		t.anchorHalloween()
	case "partial":
		t.anchorPartial()
	default:
		t.history()
	}
	if !t.stop {
		t.structural()
	}
	r.Count("histories", 1)
	if t.served > 0 {
		r.Count("histories_with_index_served_query", 1)
	}
	r.Sample(map[string]any{"params": p, "log": clipTail(t.log, 25)})
}

// probeNullJSON checks on a throw-away node whether a document with a null JSON field can be
// created under a JSON index.
func (t *twin) probeNullJSON() {
	n := core.NewNode(t.ctx, core.NodeOpts{})
	defer n.Close()
	_, err := n.DB.AddSchema(t.ctx, qgen.SDL([]qgen.IndexSpec{sp(false, "j")}))
	core.Must(err)
	var text string
	func() {
		defer func() {
			if p := recover(); p != nil {
				buf := make([]byte, 8<<10)
				buf = buf[:runtime.Stack(buf, false)]
				text = fmt.Sprintf("panic: %v\n%s", p, buf)
			}
		}()
		o := createAPI(t.ctx, n, map[string]any{"k": 0, "i": 1})
		if o.err != nil {
			text = "error: " + o.err.Error()
		}
	}()
	t.r.Count("null_json_probes", 1)
	if text == "" {
		return
	}
	t.avoidNullJSON = true
	if t.p.Quiet {
		return
	}
	if strings.HasPrefix(text, "panic:") && strings.Contains(text, "JSONFieldGenerator") {
		t.r.Violate("panic/json-index/create-document-with-null-json-field", "creating a document whose JSON field is null (or absent) in a collection with an index on that field panics: "+firstLineOf(text),
			map[string]any{"schema": qgen.SDL([]qgen.IndexSpec{sp(false, "j")}), "document": map[string]any{"k": 0, "i": 1}, "stack": text})
		return
	}
	t.r.Violate("json-index/create-document-with-null-json-field/"+errClassTwin(fmt.Errorf("%s", firstLineOf(text))), "creating a document whose JSON field is null fails under a JSON index: "+firstLineOf(text), map[string]any{"stack": text})
}

var jsonObjects = []any{
	map[string]any{"a": 1, "b": "x", "arr": []any{1, "x"}},
	map[string]any{"a": 2, "b": "y", "arr": []any{}},
	map[string]any{"a": nil, "b": "x", "arr": []any{2}},
	map[string]any{"a": 1, "b": nil, "arr": []any{1}},
	map[string]any{"a": "x", "b": "", "arr": []any{1, 2}},
	map[string]any{"a": 2, "b": "x", "arr": []any{"x"}},
}

// fixJSON adapts the JSON value of a generated document / patch to the JSON mode of the case.
func (t *twin) fixJSON(m map[string]any, full bool) {
	v, has := m["j"]
	objs := jsonObjects
	if t.p.Edge {
		objs = nil
		for _, n := range qgen.EdgeJSONNumbers {
			objs = append(objs, map[string]any{"a": n})
		}
		objs = append(objs, map[string]any{"a": nil}, map[string]any{"a": 1.0, "b": "a\x00"})
	}
	if t.p.JSONMode == "objects" && has && v != nil {
		m["j"] = objs[t.rng.IntN(len(objs))]
	}
	if t.avoidNullJSON && (full && !has || has && v == nil) {
		if t.p.JSONMode == "objects" {
			m["j"] = objs[t.rng.IntN(len(objs))]
			return
		}
		d := qgen.Domain("j", t.p.Edge)
		for {
			if x := d[t.rng.IntN(len(d))]; x != nil {
				m["j"] = x
				return
			}
		}
	}
}

func sameIndex(d client.IndexDescription, s qgen.IndexSpec) bool {
	if d.Unique != s.Unique || len(d.Fields) != len(s.Fields) {
		return false
	}
	for i, f := range d.Fields {
		if f.Name != qgen.FieldByName(s.Fields[i].Name).StoreName() || f.Descending != s.Fields[i].Desc {
			return false
		}
	}
	return true
}

func isUniqueErr(err error) bool {
	return err != nil && strings.Contains(err.Error(), "violates unique index")
}

// createIndex creates the index of spec i on A through the collection API.
func (t *twin) createIndex(i int) {
	s := t.p.Specs[i]
	req := client.IndexCreateRequest{Unique: s.Unique}
	for _, f := range s.Fields {
		req.Fields = append(req.Fields, client.IndexedFieldDescription{Name: f.Name, Descending: f.Desc})
	}
	dupBefore := false
	if s.Unique {
		dupBefore = len(t.duplicates(t.liveRows(t.B), []qgen.IndexSpec{s})) > 0
	}
	d, err := t.A.Col(t.ctx, "U").CreateIndex(t.ctx, req)
	t.logf("create index %s -> %v", s.String(), err)
	t.r.Count("op/index-create", 1)
	switch {
	case err == nil && dupBefore:
		t.r.Violate("unique/index-created-over-duplicate-values", "a unique index was created although live documents share a non-null value", t.detail(map[string]any{"spec": s.String()}))
		t.idxName[i] = d.Name
	case err != nil && s.Unique && dupBefore && isUniqueErr(err):
		t.r.Count("unique_index_creation_legitimately_rejected", 1)
	case err != nil:
		t.r.Violate("index-create-failed/"+errClassTwin(err), "CreateIndex failed: "+err.Error(), t.detail(map[string]any{"spec": s.String()}))
		t.stop = true
	default:
		t.idxName[i] = d.Name
	}
}

func (t *twin) dropIndex(i int) {
	err := t.A.Col(t.ctx, "U").DropIndex(t.ctx, t.idxName[i])
	t.logf("drop index %s (%s) -> %v", t.p.Specs[i].String(), t.idxName[i], err)
	t.r.Count("op/index-drop", 1)
	if err != nil {
		t.r.Violate("index-drop-failed/"+errClassTwin(err), "DropIndex failed: "+err.Error(), t.detail(nil))
		t.stop = true
		return
	}
	t.idxName[i] = ""
}

func (t *twin) liveSpecs() []qgen.IndexSpec {
	var out []qgen.IndexSpec
	for i, s := range t.p.Specs {
		if t.idxName[i] != "" {
			out = append(out, s)
		}
	}
	return out
}

func errClassTwin(err error) string {
	e := err.Error()
	if i := strings.IndexAny(e, ".:"); i > 0 {
		e = e[:i]
	}
	e = strings.TrimSpace(e)
	if len(e) > 60 {
		e = e[:60]
	}
	return strings.ReplaceAll(e, " ", "-")
}

// ---------------------------------------------------------------------------------------
// history

var twinOps = []string{"create-api", "create-gql", "create-many", "update-api", "update-gql", "update-filter-api", "update-filter-gql",
	"delete-api", "delete-gql", "delete-filter-api", "delete-filter-gql", "remote-create", "remote-update", "remote-delete",
	"recreate-deleted", "delete-missing", "update-noop"}

// ops: the operation kinds of the case. Cases with Partial also update through partial document
// objects (witnesses stored before that operation existed replay their old histories unchanged).
func (t *twin) ops() []string {
	if t.p.Partial {
		return append(append([]string{}, twinOps...), "update-partial-api")
	}
	return twinOps
}

func (t *twin) history() {
	p := t.p
	// initial contents
	n0 := 3 + t.rng.IntN(5)
	for i := 0; i < n0 && !t.stop; i++ {
		t.opCreate([]string{"create-api", "create-gql"}[t.rng.IntN(2)])
	}
	t.queries()
	createAt, dropAt, recreateAt := -1, -1, -1
	switch p.Mode {
	case "api-after":
		createAt = p.Steps / 3
	case "drop-recreate":
		dropAt = p.Steps / 3
		recreateAt = 2 * p.Steps / 3
	}
	dropped := -1
	for t.step = 1; t.step <= p.Steps && !t.stop; t.step++ {
		if t.step == createAt {
			for i := range p.Specs {
				t.createIndex(i)
			}
		}
		if t.step == dropAt && len(p.Specs) > 0 {
			dropped = t.rng.IntN(len(p.Specs))
			if t.idxName[dropped] != "" {
				t.dropIndex(dropped)
			}
		}
		if t.step == recreateAt && dropped >= 0 {
			t.createIndex(dropped)
		}
		var op string
		if p.Anchor == "ops" {
			op = t.ops()[(t.step-1)%len(t.ops())]
		} else {
			op = t.pickOp()
		}
		t.apply(op)
		if !t.stop {
			t.checkUniqueInvariant()
			t.queries()
		}
	}
}

func (t *twin) pickOp() string {
	w := map[string]int{"create-api": 10, "create-gql": 8, "create-many": 4, "update-api": 14, "update-gql": 10, "update-filter-api": 7, "update-filter-gql": 5,
		"delete-api": 5, "delete-gql": 4, "delete-filter-api": 4, "delete-filter-gql": 3, "remote-create": 4, "remote-update": 6, "remote-delete": 2,
		"recreate-deleted": 2, "delete-missing": 1, "update-noop": 2, "update-partial-api": 8}
	if t.C == nil {
		w["remote-create"], w["remote-update"], w["remote-delete"] = 0, 0, 0
	}
	tot := 0
	for _, o := range t.ops() {
		tot += w[o]
	}
	x := t.rng.IntN(tot)
	for _, o := range t.ops() {
		x -= w[o]
		if x < 0 {
			return o
		}
	}
	return "create-api"
}

// compareState: after every write the complete contents (live and deleted documents, every
// field) of the two databases must be equal; the unfiltered listing is never served from an index.
func (t *twin) compareState(op string) {
	if t.stop {
		return
	}
	req := (&qgen.Query{ShowDeleted: true}).Render("", false)
	ra, ea := rowsOrErr(t.ctx, t.A, req, "U")
	rb, eb := rowsOrErr(t.ctx, t.B, req, "U")
	t.r.Count("state_comparisons", 1)
	if ea != "" || eb != "" {
		if ea != eb {
			t.r.Violate("twin/listing-fails/"+errClassTwin(fmt.Errorf("%s%s", firstLineOf(ea), firstLineOf(eb))), fmt.Sprintf("unfiltered listing fails after %s: indexed=%q index-free=%q", op, firstLineOf(ea), firstLineOf(eb)), t.detail(nil))
			t.stop = true
		}
		return
	}
	onlyA, onlyB := qgen.MultisetDiff(qgen.Multiset(ra), qgen.Multiset(rb))
	if len(onlyA)+len(onlyB) == 0 {
		return
	}
	t.stop = true
	sig := ""
	if t.curFilter != nil {
		// a filtered write selected different documents: name the defect as the query comparison would
		var miss []map[string]any
		for _, r := range parseRows(onlyB) {
			if pre, ok := t.preRows[fmt.Sprint(r["_docID"])]; ok {
				miss = append(miss, pre)
			}
		}
		if len(miss) > 0 {
			sig = t.classifyMissing(t.curFilter, miss)
		}
	}
	if sig == "" {
		sig = "twin/contents-differ-after/" + op
	}
	t.r.Violate(sig, fmt.Sprintf("after %s the contents of the indexed and the index-free database differ (%d documents)", op, max(len(onlyA), len(onlyB))),
		t.detail(map[string]any{"only_indexed": clipList(onlyA, 6), "only_index_free": clipList(onlyB, 6)}))
}

func (t *twin) apply(op string) {
	t.r.Count("op/"+op, 1)
	t.setFilterCtx(nil)
	defer t.compareState(op)
	switch op {
	case "create-api", "create-gql", "create-many":
		t.opCreate(op)
	case "update-api", "update-gql", "update-noop", "update-partial-api":
		t.opUpdate(op)
	case "update-filter-api", "update-filter-gql":
		t.opUpdateFilter(op)
	case "delete-api", "delete-gql", "delete-missing":
		t.opDelete(op)
	case "delete-filter-api", "delete-filter-gql":
		t.opDeleteFilter(op)
	case "remote-create", "remote-update", "remote-delete":
		if t.C != nil {
			t.opRemote(op)
		}
	case "recreate-deleted":
		t.opRecreate()
	}
}

// genValues draws values for the mutable fields (u and g_id included).
func (t *twin) genValues(full bool) map[string]any {
	m := qgen.GenDoc(t.rng, t.p.Edge)
	if !full {
		// a patch: 1-3 fields
		keys := make([]string, 0, len(m))
		for k := range m {
			keys = append(keys, k)
		}
		sort.Strings(keys)
		t.rng.Shuffle(len(keys), func(i, j int) { keys[i], keys[j] = keys[j], keys[i] })
		// bias to indexed fields
		var idxf []string
		for _, s := range t.p.Specs {
			for _, f := range s.Fields {
				if f.Name != "g" && f.Name != "u" {
					idxf = append(idxf, f.Name)
				}
			}
		}
		n := 1 + t.rng.IntN(3)
		pm := map[string]any{}
		for len(pm) < n {
			var k string
			if len(idxf) > 0 && t.rng.IntN(2) == 0 {
				k = idxf[t.rng.IntN(len(idxf))]
			} else if len(keys) > 0 {
				k = keys[0]
				keys = keys[1:]
			} else {
				break
			}
			d := qgen.Domain(k, t.p.Edge)
			pm[k] = d[t.rng.IntN(len(d))]
		}
		m = pm
	}
	if full || t.rng.IntN(4) == 0 {
		switch x := t.rng.IntN(8); {
		case x == 0:
			m["u"] = nil
		case x == 1 && full:
		default:
			m["u"] = t.rng.IntN(3*len(t.docs) + 6)
		}
	}
	if full && t.rng.IntN(3) != 0 || !full && t.rng.IntN(6) == 0 {
		if t.rng.IntN(5) == 0 {
			m["g_id"] = nil
		} else {
			m["g_id"] = t.gIDs[t.rng.IntN(len(t.gIDs))]
		}
	}
	t.fixJSON(m, full)
	return m
}

// outcome of one write on one node
type outcome struct {
	err error
	ids []string // affected docIDs (sorted) where the API reports them
}

func (o outcome) String() string {
	if o.err != nil {
		return "error: " + o.err.Error()
	}
	return fmt.Sprintf("ok %v", shortIDs(o.ids))
}

func shortIDs(ids []string) []string {
	out := make([]string, len(ids))
	for i, id := range ids {
		out[i] = shortID(id)
	}
	return out
}

func shortID(id string) string {
	if len(id) > 12 {
		return id[4:12]
	}
	return id
}

// both applies one write to A and then (unless A legitimately rejected it on a unique index) to B
// and compares the outcomes. wouldDup is the uniqueness predicate evaluated on B beforehand
// (nil when the write cannot touch a unique index); local=false for merges.
func (t *twin) both(what string, local bool, wouldDup *bool, fn0 func(n *core.Node) outcome) (outcome, bool) {
	// a panic inside a write is turned into an error "panic: ..." of that side
	fn := func(n *core.Node) (o outcome) {
		defer func() {
			if p := recover(); p != nil {
				buf := make([]byte, 8<<10)
				buf = buf[:runtime.Stack(buf, false)]
				o = outcome{err: fmt.Errorf("panic: %v\n%s", p, buf)}
			}
		}()
		return fn0(n)
	}
	oa := fn(t.A)
	if oa.err != nil && strings.HasPrefix(oa.err.Error(), "panic:") {
		t.logf("%s -> PANIC on A: %s", what, firstLineOf(oa.err.Error()))
		t.stop = true
		idx, _ := t.liveIndexFields()
		if t.curFilter != nil && strings.Contains(oa.err.Error(), "Unclosed iterator") {
			for _, l := range t.curFilter.Leaves() {
				if l.Leaf.Cmp == "_in" && idx[l.Leaf.Field] {
					t.r.Violate("panic/_in-on-indexed-field/unclosed-iterator-when-iteration-stops-early", "filtered write panics on the indexed database: "+what+": "+firstLineOf(oa.err.Error()), t.detail(map[string]any{"stack": oa.err.Error()}))
					return oa, false
				}
			}
		}
		if strings.HasPrefix(what, "update-partial-api") && t.aboutPartial(what) && strings.Contains(oa.err.Error(), "isUpdatingIndexedFields") {
			t.r.Violate("panic/update-with-partial-document-object/unique-index-compares-field-not-carried", "updating a document through an object that carries only the patched fields panics under a unique index: "+what+": "+firstLineOf(oa.err.Error()), t.detail(map[string]any{"stack": oa.err.Error()}))
			return oa, false
		}
		t.r.Violate("panic/write-on-indexed-side/"+panicFrame(oa.err.Error()), "write panics on the indexed database: "+what+": "+firstLineOf(oa.err.Error()), t.detail(map[string]any{"stack": oa.err.Error()}))
		return oa, false
	}
	hasUnique := false
	for _, s := range t.liveSpecs() {
		hasUnique = hasUnique || s.Unique
	}
	if hasUnique && isUniqueErr(oa.err) {
		if local && wouldDup != nil {
			if *wouldDup {
				t.r.Count("unique_legit_rejections", 1)
				t.logf("%s -> rejected by unique index on A (legitimately), skipped on B", what)
			} else {
				t.logf("%s -> rejected by unique index on A although B shows no duplicate", what)
				t.r.Violate("unique/rejects-write-that-creates-no-duplicate", "the unique index rejected a local write that would not leave two live documents with the same non-null value: "+what,
					t.detail(map[string]any{"error": oa.err.Error(), "live_rows_B": t.uniqueView()}))
			}
		} else {
			t.r.Count("unique_merge_rejections", 1)
			t.logf("%s -> rejected by unique index on A, skipped on B", what)
		}
		return oa, false
	}
	if local && wouldDup != nil && *wouldDup && oa.err == nil {
		t.logf("%s -> accepted on A although it creates a duplicate", what)
		t.r.Violate("unique/accepts-write-that-creates-duplicate", "the unique index accepted a local write that leaves two live documents with the same non-null indexed value: "+what,
			t.detail(map[string]any{"live_rows_B_before": t.uniqueView()}))
	}
	ob := fn(t.B)
	t.logf("%s -> A: %s | B: %s", what, oa, ob)
	switch {
	case (oa.err == nil) != (ob.err == nil):
		side, e := "indexed", oa.err
		if oa.err == nil {
			side, e = "index-free", ob.err
		}
		if side == "indexed" && (t.aboutPartial(what) || t.curFilter != nil && len(t.partial) > 0) && (strings.Contains(e.Error(), "corrupted index") || isUniqueErr(e)) {
			t.r.Violate(sigPartialUpdate, fmt.Sprintf("a document updated earlier through an object that carried only the patched fields can no longer be written on the indexed database: %s: %v", what, e), t.detail(nil))
			t.stop = true
			return oa, false
		}
		t.r.Violate("write/error-only-on-"+side+"-side/"+errClassTwin(e), fmt.Sprintf("the same write fails only on the %s database: %s: %v", side, what, e), t.detail(nil))
		t.stop = true
		return oa, false
	case oa.err != nil:
		t.r.Count("writes_failing_on_both", 1)
		return oa, false
	case strings.Join(oa.ids, ",") != strings.Join(ob.ids, ","):
		// Halloween effect: the filtered update iterates the index it is modifying; a document whose
		// new value still satisfies the filter is met (and updated, and reported) a second time
		if t.curFilter != nil && strings.Join(dedupSorted(oa.ids), ",") == strings.Join(ob.ids, ",") {
			// (a repeated value in an _in list no longer fetches a document twice since fix 06978ea, so a
			// document met twice by a filtered write is always the Halloween effect)
			t.r.Violate("write/update-with-filter/document-visited-twice-through-the-index-being-updated", fmt.Sprintf("the filtered update applied its patch twice to one document on the indexed database: %s: indexed %v, index-free %v", what, shortIDs(oa.ids), shortIDs(ob.ids)), t.detail(nil))
			return oa, true
		}
		// the selection of a filtered write is a query: name the defect as the query comparison would
		onlyA, onlyB := qgen.MultisetDiff(oa.ids, ob.ids)
		sig := ""
		if t.curFilter != nil && len(onlyA) == 0 {
			var miss []map[string]any
			for _, id := range onlyB {
				if r, ok := t.preRows[id]; ok {
					miss = append(miss, r)
				}
			}
			if len(miss) == len(onlyB) {
				sig = t.classifyMissing(t.curFilter, miss)
			}
		}
		if sig == "" {
			sig = "write/affected-documents-differ/" + strings.SplitN(what, " ", 2)[0]
		}
		t.r.Violate(sig, fmt.Sprintf("the same filtered write touched different documents: %s: indexed %v, index-free %v", what, shortIDs(oa.ids), shortIDs(ob.ids)), t.detail(nil))
		t.stop = true
		return oa, false
	}
	return oa, true
}

func fitsGQL(m map[string]any) bool {
	for _, v := range m {
		if !qgen.FitsGQLInt(v) {
			return false
		}
	}
	return true
}

func dedupSorted(l []string) []string {
	var out []string
	for i, x := range l {
		if i == 0 || x != l[i-1] {
			out = append(out, x)
		}
	}
	return out
}

func (t *twin) docMap(vals map[string]any) map[string]any {
	m := map[string]any{}
	for k, v := range vals {
		m[k] = v
	}
	m["k"] = t.nextK
	t.nextK++
	return m
}

func createAPI(ctx context.Context, n *core.Node, ms ...map[string]any) outcome {
	col := n.Col(ctx, "U")
	var docs []*client.Document
	var ids []string
	for _, m := range ms {
		doc, err := client.NewDocFromMap(m, col.Definition())
		if err != nil {
			return outcome{err: err}
		}
		docs = append(docs, doc)
		ids = append(ids, doc.ID().String())
	}
	var err error
	if len(docs) == 1 {
		err = col.Create(ctx, docs[0])
	} else {
		err = col.CreateMany(ctx, docs)
	}
	sort.Strings(ids)
	return outcome{err: err, ids: ids}
}

func gqlMutation(ctx context.Context, n *core.Node, req, name string) outcome {
	rows, err := n.Rows(ctx, req, name)
	if err != nil {
		return outcome{err: err}
	}
	var ids []string
	for _, r := range rows {
		ids = append(ids, fmt.Sprint(r["_docID"]))
	}
	sort.Strings(ids)
	return outcome{ids: ids}
}

func (t *twin) opCreate(op string) {
	n := 1
	if op == "create-many" {
		n = 2 + t.rng.IntN(2)
	}
	var ms []map[string]any
	for i := 0; i < n; i++ {
		ms = append(ms, t.docMap(t.genValues(true)))
	}
	dup := t.wouldDuplicate(nil, ms)
	var o outcome
	var ok bool
	if op == "create-gql" && !fitsGQL(ms[0]) {
		op = "create-api" // 64-bit integers cannot be written as GraphQL literals
	}
	if op == "create-gql" {
		req := fmt.Sprintf("mutation { create_U(input: %s) { _docID } }", qgen.Lit(ms[0]))
		o, ok = t.both("create-gql "+qgen.Lit(ms[0]), true, dup, func(n *core.Node) outcome { return gqlMutation(t.ctx, n, req, "create_U") })
	} else {
		b, _ := json.Marshal(ms)
		o, ok = t.both(op+" "+string(b), true, dup, func(n *core.Node) outcome { return createAPI(t.ctx, n, ms...) })
	}
	if ok {
		t.docs = append(t.docs, o.ids...)
	}
}

// pickDoc returns a docID: live with high probability.
func (t *twin) pickLive() (string, qgen.Row) {
	rows := t.liveRows(t.B)
	if len(rows) == 0 {
		return "", nil
	}
	r := rows[t.rng.IntN(len(rows))]
	return fmt.Sprint(r["_docID"]), r
}

func updateAPI(ctx context.Context, n *core.Node, docID string, patch map[string]any) outcome {
	col := n.Col(ctx, "U")
	id, err := client.NewDocIDFromString(docID)
	if err != nil {
		return outcome{err: err}
	}
	doc, err := col.Get(ctx, id, false)
	if err != nil {
		return outcome{err: err}
	}
	keys := make([]string, 0, len(patch))
	for k := range patch {
		keys = append(keys, k)
	}
	sort.Strings(keys)
	for _, k := range keys {
		if err := doc.Set(k, patch[k]); err != nil {
			return outcome{err: err}
		}
	}
	return outcome{err: col.Update(ctx, doc), ids: []string{docID}}
}

// updatePartialAPI updates a document through a document object that carries only the fields
// being changed (client.NewDocWithID + Set): the way the client package documents for patching
// a document without reading it first.
func updatePartialAPI(ctx context.Context, n *core.Node, docID string, patch map[string]any) outcome {
	col := n.Col(ctx, "U")
	id, err := client.NewDocIDFromString(docID)
	if err != nil {
		return outcome{err: err}
	}
	doc, err := client.NewDocWithID(id, col.Definition())
	if err != nil {
		return outcome{err: err}
	}
	keys := make([]string, 0, len(patch))
	for k := range patch {
		keys = append(keys, k)
	}
	sort.Strings(keys)
	for _, k := range keys {
		if err := doc.Set(k, patch[k]); err != nil {
			return outcome{err: err}
		}
	}
	return outcome{err: col.Update(ctx, doc), ids: []string{docID}}
}

// indexedFieldsNotIn lists the fields (store names) of live indexes that the patch does not carry.
func (t *twin) indexedFieldsNotIn(patch map[string]any) []string {
	set := map[string]bool{}
	for _, s := range t.liveSpecs() {
		for _, f := range s.Fields {
			n := qgen.FieldByName(f.Name).StoreName()
			if _, ok := patch[n]; !ok {
				set[n] = true
			}
		}
	}
	var out []string
	for n := range set {
		out = append(out, n)
	}
	sort.Strings(out)
	return out
}

// probeEntries asks both databases for the document through every live index whose fields are all
// scalar: an equality condition on each field of the index with the value the index-free database
// shows (the request is served from that index on A).
func (t *twin) probeEntries(id string) {
	var row qgen.Row
	for _, r := range t.liveRows(t.B) {
		if fmt.Sprint(r["_docID"]) == id {
			row = r
		}
	}
	if row == nil {
		return
	}
	for _, s := range t.liveSpecs() {
		f := &qgen.Filter{Op: "_and"}
		for _, x := range s.Fields {
			fd := qgen.FieldByName(x.Name)
			if fd.Kind.IsArray() || fd.Kind == qgen.KJSON || fd.Kind == qgen.KBlob {
				f = nil
				break
			}
			v := rowValue(row[fd.StoreName()])
			if !qgen.FitsGQLInt(v) {
				f = nil
				break
			}
			f.Sub = append(f.Sub, &qgen.Filter{Op: "leaf", Field: fd.StoreName(), Cmp: "_eq", Val: v})
		}
		if f == nil || t.stop {
			continue
		}
		if len(f.Sub) == 1 {
			f = f.Sub[0]
		}
		t.r.Count("entry_probes_after_partial_update", 1)
		t.checkQuery(&qgen.Query{Filter: f})
	}
}

const sigPartialUpdate = "index/update-with-partial-document-object/fields-not-carried-are-reindexed-as-null"

func (t *twin) opUpdate(op string) {
	id, row := t.pickLive()
	if id == "" {
		t.opCreate("create-api")
		return
	}
	patch := t.genValues(false)
	if op == "update-noop" {
		// write the values the document already has (index entries must survive)
		patch = map[string]any{}
		for _, f := range []string{"i", "s", "u"} {
			patch[f] = rowValue(row[f])
		}
	}
	dup := t.wouldDuplicate(map[string]map[string]any{id: patch}, nil)
	b, _ := json.Marshal(patch)
	if op == "update-gql" && !fitsGQL(patch) {
		op = "update-api"
	}
	if op == "update-gql" {
		req := fmt.Sprintf("mutation { update_U(docID: %q, input: %s) { _docID } }", id, qgen.Lit(patch))
		t.both(fmt.Sprintf("update-gql %s %s", shortID(id), b), true, dup, func(n *core.Node) outcome { return gqlMutation(t.ctx, n, req, "update_U") })
		return
	}
	if op == "update-partial-api" {
		left := t.indexedFieldsNotIn(patch)
		if len(left) > 0 {
			// marked before the write: a failure of the write itself is judged with this knowledge
			t.partial[id] = true
			t.r.Count("partial_updates_leaving_an_indexed_field_out", 1)
		}
		_, ok := t.both(fmt.Sprintf("%s %s %s (indexed fields not carried: %v)", op, shortID(id), b, left), true, dup, func(n *core.Node) outcome { return updatePartialAPI(t.ctx, n, id, patch) })
		if ok && len(left) > 0 {
			t.probeEntries(id)
		}
		return
	}
	t.both(fmt.Sprintf("%s %s %s", op, shortID(id), b), true, dup, func(n *core.Node) outcome { return updateAPI(t.ctx, n, id, patch) })
}

// aboutPartial tells whether the text of a write names a document that was updated through a
// partial document object.
func (t *twin) aboutPartial(what string) bool {
	for id := range t.partial {
		if strings.Contains(what, " "+shortID(id)) {
			return true
		}
	}
	return false
}

// rowValue converts a result value back to a Go value usable in a document.
func rowValue(v any) any {
	if n, ok := v.(json.Number); ok {
		if i, err := strconv.ParseInt(n.String(), 10, 64); err == nil {
			return i
		}
		f, _ := n.Float64()
		return f
	}
	return v
}

// mutation filters avoid the shapes of the known query-side defects (_or, _nlike): a wrong
// document selection would make the twin diverge for a reason that the query comparison already
// reports on its own.
func (t *twin) genMutationFilter() *qgen.Filter {
	fields := []string{"i", "d", "s", "f", "b", "u", "k", "t"}
	var idxf []string
	for _, s := range t.liveSpecs() {
		n := s.Fields[0].Name
		for _, f := range fields {
			if f == n {
				idxf = append(idxf, n)
			}
		}
	}
	f := fields[t.rng.IntN(len(fields))]
	if len(idxf) > 0 && t.rng.IntN(3) != 0 {
		f = idxf[t.rng.IntN(len(idxf))]
	}
	for tries := 0; tries < 20; tries++ {
		lf := qgen.GenLeaf(t.rng, f, qgen.GenOpts{Edge: t.p.Edge})
		switch lf.Cmp {
		case "_eq", "_gt", "_ge", "_lt", "_le", "_in", "_ne":
			return lf
		}
	}
	return &qgen.Filter{Op: "leaf", Field: "k", Cmp: "_ge", Val: 0}
}

func (t *twin) matching(n *core.Node, f *qgen.Filter) []qgen.Row {
	q := &qgen.Query{Filter: f}
	rows, err := n.Rows(t.ctx, q.Render("", false), "U")
	if err != nil {
		return nil
	}
	return rows
}

func (t *twin) setFilterCtx(f *qgen.Filter) {
	t.curFilter, t.preRows = f, map[string]map[string]any{}
	if f == nil {
		return
	}
	for _, r := range t.liveRows(t.B) {
		t.preRows[fmt.Sprint(r["_docID"])] = parseRows([]string{qgen.CanonRow(r)})[0]
	}
}

func (t *twin) opUpdateFilter(op string) {
	f := t.genMutationFilter()
	t.setFilterCtx(f)
	patch := t.genValues(false)
	delete(patch, "j") // JSON merge-patch semantics of nested objects are not the subject here
	if len(patch) == 0 {
		patch["i"] = 1
	}
	changes := map[string]map[string]any{}
	for _, r := range t.matching(t.B, f) {
		changes[fmt.Sprint(r["_docID"])] = patch
	}
	dup := t.wouldDuplicate(changes, nil)
	pb, _ := json.Marshal(patch)
	if op == "update-filter-gql" && !fitsGQL(patch) {
		op = "update-filter-api"
	}
	what := fmt.Sprintf("%s filter=%s patch=%s", op, f.Render(), pb)
	if op == "update-filter-gql" {
		req := fmt.Sprintf("mutation { update_U(filter: %s, input: %s) { _docID } }", f.Render(), qgen.Lit(patch))
		t.both(what, true, dup, func(n *core.Node) outcome {
			o := gqlMutation(t.ctx, n, req, "update_U")
			o.ids = nil // the mutation returns only documents that still match the filter
			return o
		})
		return
	}
	t.both(what, true, dup, func(n *core.Node) outcome {
		res, err := n.Col(t.ctx, "U").UpdateWithFilter(t.ctx, f.Render(), string(pb))
		if err != nil {
			return outcome{err: err}
		}
		ids := append([]string{}, res.DocIDs...)
		sort.Strings(ids)
		return outcome{ids: ids}
	})
}

func (t *twin) opDelete(op string) {
	id, _ := t.pickLive()
	if op == "delete-missing" || id == "" {
		// a deleted document if there is one, else an id that never existed
		id = "bae-00000000-0000-5000-8000-000000000000"
		live := map[string]bool{}
		for _, r := range t.liveRows(t.B) {
			live[fmt.Sprint(r["_docID"])] = true
		}
		for _, d := range t.docs {
			if !live[d] {
				id = d
			}
		}
	}
	if op == "delete-gql" {
		req := fmt.Sprintf("mutation { delete_U(docID: %q) { _docID } }", id)
		t.both("delete-gql "+shortID(id), true, nil, func(n *core.Node) outcome { return gqlMutation(t.ctx, n, req, "delete_U") })
		return
	}
	t.both(op+" "+shortID(id), true, nil, func(n *core.Node) outcome {
		did, err := client.NewDocIDFromString(id)
		if err != nil {
			return outcome{err: err}
		}
		ok, err := n.Col(t.ctx, "U").Delete(t.ctx, did)
		if err == nil && !ok {
			return outcome{ids: []string{"not-deleted"}}
		}
		return outcome{err: err, ids: []string{id}}
	})
}

func (t *twin) opDeleteFilter(op string) {
	f := t.genMutationFilter()
	t.setFilterCtx(f)
	what := fmt.Sprintf("%s filter=%s", op, f.Render())
	if op == "delete-filter-gql" {
		req := fmt.Sprintf("mutation { delete_U(filter: %s) { _docID } }", f.Render())
		t.both(what, true, nil, func(n *core.Node) outcome { return gqlMutation(t.ctx, n, req, "delete_U") })
		return
	}
	t.both(what, true, nil, func(n *core.Node) outcome {
		res, err := n.Col(t.ctx, "U").DeleteWithFilter(t.ctx, f.Render())
		if err != nil {
			return outcome{err: err}
		}
		ids := append([]string{}, res.DocIDs...)
		sort.Strings(ids)
		return outcome{ids: ids}
	})
}

// opRecreate creates again a document with the content of a deleted one (same docID).
func (t *twin) opRecreate() {
	all, err := t.B.Rows(t.ctx, (&qgen.Query{ShowDeleted: true}).Render("", false), "U")
	core.Must(err)
	var del []qgen.Row
	for _, r := range all {
		if r["_deleted"] == true {
			del = append(del, r)
		}
	}
	if len(del) == 0 {
		t.opDelete("delete-api")
		return
	}
	r := del[t.rng.IntN(len(del))]
	m := map[string]any{}
	for _, f := range qgen.Fields {
		if v, ok := r[f.StoreName()]; ok && v != nil {
			m[f.StoreName()] = rowValue(v)
		}
	}
	b, _ := json.Marshal(m)
	t.both("recreate-deleted "+string(b), true, t.wouldDuplicate(nil, []map[string]any{m}), func(n *core.Node) outcome { return createAPI(t.ctx, n, m) })
}

// opRemote performs a write on the third node C and merges the resulting commit into A and B.
func (t *twin) opRemote(op string) {
	ctx := t.ctx
	var docID string
	switch op {
	case "remote-create":
		m := t.docMap(t.genValues(true))
		o := createAPI(ctx, t.C, m)
		if o.err != nil {
			t.logf("remote-create on C failed: %v", o.err)
			return
		}
		docID = o.ids[0]
		b, _ := json.Marshal(m)
		t.logf("remote-create on C %s %s", shortID(docID), b)
	default:
		id, _ := t.pickLive()
		if id == "" {
			return
		}
		docID = id
		// let C learn the document (A's and B's blocks are identical: same content, no signing)
		for _, h := range t.A.CompositeHeads(ctx, docID) {
			c := core.ParseCid(h)
			core.CopyClosure(ctx, t.A, t.C, c)
			if err := t.C.Merge(ctx, docID, c, t.colID[t.C]); err != nil {
				t.logf("sync %s to C failed: %v", shortID(docID), err)
				t.r.Note("remote_sync_to_C_failed")
				return
			}
		}
		if op == "remote-update" {
			patch := t.genValues(false)
			o := updateAPI(ctx, t.C, docID, patch)
			b, _ := json.Marshal(patch)
			t.logf("remote-update on C %s %s -> %v", shortID(docID), b, o.err)
			if o.err != nil {
				return
			}
		} else {
			did, _ := client.NewDocIDFromString(docID)
			_, err := t.C.Col(ctx, "U").Delete(ctx, did)
			t.logf("remote-delete on C %s -> %v", shortID(docID), err)
			if err != nil {
				return
			}
		}
	}
	heads := t.C.CompositeHeads(ctx, docID)
	for _, h := range heads {
		c := core.ParseCid(h)
		_, ok := t.both(fmt.Sprintf("merge %s head %s", shortID(docID), h[len(h)-6:]), false, nil, func(n *core.Node) outcome {
			core.CopyClosure(ctx, t.C, n, c)
			return outcome{err: n.Merge(ctx, docID, c, t.colID[n])}
		})
		if ok {
			t.r.Count("remote_merges", 1)
			if op == "remote-create" {
				t.docs = append(t.docs, docID)
			}
		}
	}
}

// ---------------------------------------------------------------------------------------
// uniqueness predicate (evaluated on B)

func (t *twin) liveRows(n *core.Node) []qgen.Row {
	rows, err := n.Rows(t.ctx, (&qgen.Query{}).Render("", false), "U")
	core.Must(err)
	return rows
}

func canonScalar(v any) string {
	switch x := v.(type) {
	case nil:
		return "null"
	case json.Number:
		f, _ := x.Float64()
		return strconv.FormatFloat(f, 'g', -1, 64)
	case int:
		return strconv.FormatFloat(float64(x), 'g', -1, 64)
	case int64:
		return strconv.FormatFloat(float64(x), 'g', -1, 64)
	case float64:
		return strconv.FormatFloat(x, 'g', -1, 64)
	}
	b, _ := json.Marshal(v)
	return string(b)
}

// tuple returns the canonical tuple of a row under a spec, ok=false if a component is null.
func tupleOf(r qgen.Row, s qgen.IndexSpec) (string, bool) {
	var p []string
	for _, f := range s.Fields {
		v := r[qgen.FieldByName(f.Name).StoreName()]
		if v == nil {
			return "", false
		}
		p = append(p, canonScalar(v))
	}
	return strings.Join(p, "|"), true
}

// duplicates lists groups of live documents that share a fully non-null tuple of a unique spec.
func (t *twin) duplicates(rows []qgen.Row, specs []qgen.IndexSpec) []string {
	var out []string
	for _, s := range specs {
		if !s.Unique {
			continue
		}
		seen := map[string]string{}
		for _, r := range rows {
			tp, ok := tupleOf(r, s)
			if !ok {
				continue
			}
			if prev, dup := seen[tp]; dup {
				out = append(out, fmt.Sprintf("%s: %s shared by %s and %s", s.String(), tp, shortID(prev), shortID(fmt.Sprint(r["_docID"]))))
			}
			seen[tp] = fmt.Sprint(r["_docID"])
		}
	}
	return out
}

func (t *twin) uniqueView() []string {
	var out []string
	for _, r := range t.liveRows(t.B) {
		m := map[string]any{"_docID": shortID(fmt.Sprint(r["_docID"]))}
		for _, s := range t.liveSpecs() {
			if s.Unique {
				for _, f := range s.Fields {
					n := qgen.FieldByName(f.Name).StoreName()
					m[n] = r[n]
				}
			}
		}
		out = append(out, qgen.CanonRow(m))
	}
	return out
}

// wouldDuplicate evaluates, on B's current contents, whether applying the patches / creating the
// documents would leave two live documents sharing a fully non-null tuple of a live unique index
// of A, with at least one of them written by this operation with a changed tuple.
// Returns nil when A has no live unique index.
func (t *twin) wouldDuplicate(patches map[string]map[string]any, creates []map[string]any) *bool {
	var specs []qgen.IndexSpec
	for _, s := range t.liveSpecs() {
		if s.Unique {
			specs = append(specs, s)
		}
	}
	if len(specs) == 0 {
		return nil
	}
	res := false
	before := t.liveRows(t.B)
	for _, s := range specs {
		type ent struct {
			id      string
			changed bool
		}
		groups := map[string][]ent{}
		for _, r := range before {
			id := fmt.Sprint(r["_docID"])
			old, oldOK := tupleOf(r, s)
			nr := r
			if p, ok := patches[id]; ok {
				nr = qgen.Row{}
				for k, v := range r {
					nr[k] = v
				}
				for k, v := range p {
					nr[k] = v
				}
			}
			tp, ok := tupleOf(nr, s)
			if !ok {
				continue
			}
			groups[tp] = append(groups[tp], ent{id, !oldOK || old != tp})
		}
		for i, m := range creates {
			tp, ok := tupleOf(m, s)
			if !ok {
				continue
			}
			groups[tp] = append(groups[tp], ent{fmt.Sprintf("new%d", i), true})
		}
		for _, g := range groups {
			if len(g) < 2 {
				continue
			}
			for _, e := range g {
				if e.changed {
					res = true
				}
			}
		}
	}
	return &res
}

func (t *twin) checkUniqueInvariant() {
	specs := t.liveSpecs()
	hasU := false
	for _, s := range specs {
		hasU = hasU || s.Unique
	}
	if !hasU {
		return
	}
	t.r.Count("unique_invariant_checks", 1)
	if d := t.duplicates(t.liveRows(t.A), specs); len(d) > 0 {
		t.r.Violate("unique/live-documents-share-non-null-value", "two live documents of the indexed database share a non-null value of a unique index: "+d[0], t.detail(map[string]any{"duplicates": d}))
	}
}

// ---------------------------------------------------------------------------------------
// queries

var reIndexFetches = regexp.MustCompile(`indexFetches:(\d+)`)

func (t *twin) indexFetches(q *qgen.Query) int {
	data, e := gqlOrPanic(t.ctx, t.A, q.Render("@explain(type: execute)", true))
	if e != "" {
		return -1
	}
	n := 0
	for _, m := range reIndexFetches.FindAllStringSubmatch(data, -1) {
		x, _ := strconv.Atoi(m[1])
		n += x
	}
	return n
}

func (t *twin) hasOrderNode(n *core.Node, q *qgen.Query) bool {
	// the explained request carries no limit/offset and every _in is replaced by an _eq on the same
	// field: the choice of the index and of the order node depends on fields only, and a simple
	// explain of an _in over an indexed field trips the unclosed-iterator panic (known finding)
	data, _ := gqlOrPanic(t.ctx, n, (&qgen.Query{Filter: withoutIn(q.Filter), Order: q.Order, ShowDeleted: q.ShowDeleted}).Render("@explain(type: simple)", false))
	return strings.Contains(data, "orderNode")
}

func (t *twin) genOpts() qgen.GenOpts {
	o := qgen.GenOpts{Edge: t.p.Edge, GIDs: t.gIDs, GNames: t.gNames, RangeOnly: t.p.RangeOnly}
	for _, s := range t.liveSpecs() {
		o.First = append(o.First, s.Fields[0].Name)
		for _, f := range s.Fields {
			o.Indexed = append(o.Indexed, f.Name)
		}
	}
	if len(o.First) == 0 {
		// index not created yet (api-after): still query the fields that will be indexed
		for _, s := range t.p.Specs {
			o.First = append(o.First, s.Fields[0].Name)
		}
	}
	return o
}

func (t *twin) queries() {
	o := t.genOpts()
	for i := 0; i < t.p.Queries && !t.stop; i++ {
		q := qgen.GenQuery(t.rng, o)
		// every sixth query also names 1-3 (known, possibly deleted) documents with the docID argument:
		// an index-served plan walks index entries, not the docID prefixes, and must still honour it
		if !q.FromG && len(t.docs) > 0 && t.rng.IntN(6) == 0 {
			for k := 1 + t.rng.IntN(3); k > 0; k-- {
				q.DocIDs = append(q.DocIDs, t.docs[t.rng.IntN(len(t.docs))])
			}
			t.r.Count("queries_with_docid_argument", 1)
		}
		t.checkQuery(q)
	}
}

// rowsOrErr executes a query; a panic inside the request is turned into an error text
// "panic: ..." so that it gets a signature of its own and the history can go on.
func rowsOrErr(ctx context.Context, n *core.Node, req, col string) (rows []qgen.Row, errText string) {
	defer func() {
		if p := recover(); p != nil {
			buf := make([]byte, 8<<10)
			buf = buf[:runtime.Stack(buf, false)]
			rows, errText = nil, fmt.Sprintf("panic: %v\n%s", p, buf)
		}
	}()
	rows, err := n.Rows(ctx, req, col)
	if err != nil {
		return nil, err.Error()
	}
	return rows, ""
}

// gqlOrPanic executes a request and renders the data with %v (explain results hold maps with
// non-string keys that encoding/json cannot marshal).
func gqlOrPanic(ctx context.Context, n *core.Node, req string) (data string, errText string) {
	defer func() {
		if p := recover(); p != nil {
			data, errText = "", fmt.Sprintf("panic: %v", p)
		}
	}()
	res := n.DB.ExecRequest(ctx, req)
	if len(res.GQL.Errors) > 0 {
		return "", res.GQL.Errors[0].Error()
	}
	return fmt.Sprintf("%v", res.GQL.Data), ""
}

func (t *twin) indexedLeafOps(q *qgen.Query) []string {
	if q.Filter == nil {
		return nil
	}
	idx := map[string]bool{}
	for _, s := range t.liveSpecs() {
		for _, f := range s.Fields {
			idx[qgen.FieldByName(f.Name).StoreName()] = true
		}
	}
	set := map[string]bool{}
	for _, l := range q.Filter.Leaves() {
		if idx[l.Leaf.Field] {
			k := string(qgen.FieldByName(l.Leaf.Field).Kind)
			if l.Leaf.ArrOp != "" {
				k += "." + l.Leaf.ArrOp
			}
			set[k+"."+l.Leaf.Cmp] = true
		}
	}
	var out []string
	for k := range set {
		out = append(out, k)
	}
	sort.Strings(out)
	return out
}

func (t *twin) checkQuery(q *qgen.Query) {
	req := q.Render("", true)
	col := q.Col()
	rowsA, errA := rowsOrErr(t.ctx, t.A, req, col)
	rowsB, errB := rowsOrErr(t.ctx, t.B, req, col)
	t.r.Count("evaluations", 1)
	t.r.Count("query_pairs", 1)
	if errA != "" || errB != "" {
		if errA == errB {
			t.r.Count("queries_failing_on_both", 1)
			t.r.Note("both_fail:" + errClassTwin(fmt.Errorf("%s", errA)))
			return
		}
		t.reportQueryError(q, req, errA, errB)
		return
	}
	// coverage: was the indexed side served from an index?
	fetches := 0
	if len(t.liveSpecs()) > 0 {
		fetches = t.indexFetches(q)
	}
	if fetches > 0 {
		t.served++
		t.r.Count("index_served_queries", 1)
		if len(q.Order) > 0 && !t.hasOrderNodeCached(q) {
			t.r.Count("order_served_by_index", 1)
		}
		if len(rowsA) > 0 {
			t.r.Count("nontrivial_pairs", 1)
			var cls []string
			for _, s := range t.liveSpecs() {
				cls = append(cls, s.Class())
			}
			sort.Strings(cls)
			t.r.Nontrivial(strings.Join(cls, "+") + "|" + q.Filter.Skeleton() + "|" + q.OrderClass())
			if q.Filter != nil && q.Filter.Op == "leaf" {
				l := q.Filter
				k := string(qgen.FieldByName(l.Field).Kind)
				if l.ArrOp != "" {
					k += "/" + l.ArrOp
				}
				for _, s := range t.liveSpecs() {
					if qgen.FieldByName(s.Fields[0].Name).StoreName() == l.Field {
						t.r.Count("cell/"+k+"/"+l.Cmp, 1)
						break
					}
				}
			}
		}
	}
	t.compare(q, req, rowsA, rowsB)
}

func withoutIn(f *qgen.Filter) *qgen.Filter {
	if f == nil {
		return nil
	}
	c := *f
	c.Sub = nil
	for _, s := range f.Sub {
		c.Sub = append(c.Sub, withoutIn(s))
	}
	if c.Op == "leaf" && c.Cmp == "_in" {
		c.Cmp = "_eq"
		if l, ok := c.Val.([]any); ok && len(l) > 0 {
			c.Val = l[0]
		} else {
			c.Val = nil
		}
	}
	return &c
}

func (t *twin) hasOrderNodeCached(q *qgen.Query) bool { return t.hasOrderNode(t.A, q) }

func seqOf(rows []qgen.Row) string {
	var sb strings.Builder
	for _, r := range rows {
		sb.WriteString(qgen.CanonRow(r))
		sb.WriteByte('\n')
	}
	return sb.String()
}

func (t *twin) compare(q *qgen.Query, req string, rowsA, rowsB []qgen.Row) {
	sliced := q.Limit > 0 || q.Offset > 0
	if !sliced {
		onlyA, onlyB := qgen.MultisetDiff(qgen.Multiset(rowsA), qgen.Multiset(rowsB))
		if len(onlyA)+len(onlyB) > 0 {
			t.reportRowDiff(q, req, onlyA, onlyB, rowsA, rowsB)
			return
		}
		if len(q.Order) > 0 && !keySeqEqual(rowsA, rowsB, q.Order) {
			t.reportOrderDiff(q, req, rowsA, rowsB)
		}
		return
	}
	t.r.Count("sliced_queries", 1)
	// the unsliced answers are the reference for classification and membership
	full := q.Render("", false)
	if q.OrderTotal() {
		t.r.Count("sliced_queries_total_order", 1)
		if seqOf(rowsA) == seqOf(rowsB) {
			return
		}
		fa, ea := rowsOrErr(t.ctx, t.A, full, q.Col())
		fb, eb := rowsOrErr(t.ctx, t.B, full, q.Col())
		if ea != "" || eb != "" {
			return
		}
		onlyA, onlyB := qgen.MultisetDiff(qgen.Multiset(fa), qgen.Multiset(fb))
		switch {
		case len(onlyA)+len(onlyB) > 0:
			t.reportRowDiff(q, full, onlyA, onlyB, fa, fb)
		case !keySeqEqual(fa, fb, q.Order):
			t.reportOrderDiff(q, full, fa, fb)
		default:
			// the unsliced answers agreed this time; when a recogniser explains the rows missing from
			// the window (e.g. the _or defect, whose effect varies between executions of the same
			// request because the index condition is picked by map iteration) report that defect
			wa, wb := qgen.MultisetDiff(qgen.Multiset(rowsA), qgen.Multiset(rowsB))
			if len(wb) > 0 && t.classifyMissing(q.Filter, parseRows(wb)) != "" {
				t.reportRowDiff(q, req, nil, wb, rowsA, rowsB)
				return
			}
			_ = wa
			t.r.Violate("slice/window-differs-although-unsliced-results-agree", fmt.Sprintf("limit/offset window differs between the indexed and the index-free database while the unsliced ordered results agree: %s", req),
				t.detail(map[string]any{"query": req, "indexed": qgen.Multiset(rowsA), "index_free": qgen.Multiset(rowsB)}))
		}
		return
	}
	fa, ea := rowsOrErr(t.ctx, t.A, full, q.Col())
	fb, eb := rowsOrErr(t.ctx, t.B, full, q.Col())
	if ea != "" || eb != "" {
		return
	}
	onlyA, onlyB := qgen.MultisetDiff(qgen.Multiset(fa), qgen.Multiset(fb))
	if len(onlyA)+len(onlyB) > 0 {
		t.reportRowDiff(q, full, onlyA, onlyB, fa, fb)
		return
	}
	if len(rowsA) != len(rowsB) && t.orOverIndexed(q.Filter) {
		// the unsliced answers agreed this time; the effect of the _or defect varies between
		// executions of one request (the index condition is picked by map iteration)
		t.r.Violate("index/_or-over-indexed-field/rows-missing", fmt.Sprintf("limit/offset returns %d rows on the indexed and %d on the index-free database: %s", len(rowsA), len(rowsB), req), t.detail(map[string]any{"query": req}))
		return
	}
	if len(rowsA) != len(rowsB) {
		t.r.Violate("slice/count-differs", fmt.Sprintf("limit/offset returns %d rows on the indexed and %d on the index-free database although the unsliced results agree: %s", len(rowsA), len(rowsB), req),
			t.detail(map[string]any{"query": req}))
		return
	}
	// every row returned by A must be in the (agreed) unsliced result
	if extra, _ := qgen.MultisetDiff(qgen.Multiset(rowsA), qgen.Multiset(fb)); len(extra) > 0 {
		t.r.Violate("slice/row-outside-unsliced-result", "a sliced query on the indexed database returned a row that the unsliced query does not contain: "+req, t.detail(map[string]any{"query": req, "rows": extra}))
	}
}

func keySeqEqual(a, b []qgen.Row, order []qgen.OrderKey) bool {
	if len(a) != len(b) {
		return false
	}
	for i := range a {
		for _, o := range order {
			if qgen.CmpVal(qgen.FieldByName(o.Field).Kind, a[i][o.Field], b[i][o.Field]) != 0 {
				return false
			}
		}
	}
	return true
}

// reportOrderDiff classifies a difference of the sort-key sequences (row multisets agree).
func (t *twin) reportOrderDiff(q *qgen.Query, req string, rowsA, rowsB []qgen.Row) {
	n := len(q.Order)
	upA, upB := qgen.SortedUpTo(rowsA, q.Order), qgen.SortedUpTo(rowsB, q.Order)
	onA, onB := t.hasOrderNode(t.A, q), t.hasOrderNode(t.B, q)
	det := t.detail(map[string]any{"query": req, "indexed_keys": clipList(qgen.KeySeq(rowsA, q.Order), 30), "index_free_keys": clipList(qgen.KeySeq(rowsB, q.Order), 30),
		"indexed_sorted_up_to_key": upA, "index_free_sorted_up_to_key": upB, "indexed_plan_has_order_node": onA, "index_free_plan_has_order_node": onB})
	path := func(on bool) string {
		if on {
			return "scan-path"
		}
		return "index-served"
	}
	// showDeleted: the deleted documents come from a second fetcher and are merged in by docID;
	// with the order node dropped (index-served order) nothing sorts them in
	if q.ShowDeleted && !onA && upA < n {
		var live []qgen.Row
		nd := 0
		for _, r := range rowsA {
			if r["_deleted"] == true {
				nd++
			} else {
				live = append(live, r)
			}
		}
		if nd > 0 && qgen.SortedUpTo(live, q.Order) == n {
			t.r.Violate("order/index-served/showDeleted-documents-not-sorted-in", "index-served order with showDeleted: the live documents are in order, the deleted ones are merged in unsorted: "+req, det)
			return
		}
	}
	// _in on the field that also gives the order: the order node is dropped but the entries come
	// value by value in the order of the list, and within one value always forwards (the per-value
	// iterators ignore the direction in which the index would have to be read)
	if !onA && upA < n && q.Filter != nil {
		for _, l := range q.Filter.Leaves() {
			if l.Leaf.Cmp == "_in" && l.Leaf.Field == q.Order[0].Field && !l.Negated() {
				t.r.Violate("order/index-served/_in-on-order-field/rows-in-list-order", "index-served order with an _in on the ordering field: rows come in the order of the _in list: "+req, det)
				return
			}
		}
	}
	// the known defect of the in-memory sort (planner/values.go docValueLess): keys after the first
	// are ignored. It shows on whichever side sorts in memory (plan has an orderNode).
	if n >= 2 && upA >= 1 && upB >= 1 && keySeqEqual(rowsA, rowsB, q.Order[:1]) {
		if upA < n && !onA {
			t.r.Violate("order/index-served/tie-on-first-key-not-broken-by-later-keys", "multi-key order served from an index leaves ties unsorted: "+req, det)
			return
		}
		if upA < n || upB < n {
			t.r.Violate("order/scan-path/tie-on-key1-not-broken-by-later-keys",
				fmt.Sprintf("multi-key order: the side that sorts in memory leaves ties on the first key unsorted by the later keys (indexed side sorted up to key %d of %d via %s, index-free side up to key %d): %s", upA, n, path(onA), upB, req), det)
			return
		}
	}
	if !onA {
		for _, r := range rowsA {
			if t.partial[fmt.Sprint(r["_docID"])] {
				t.r.Violate(sigPartialUpdate, "index-served order places a document that was updated through an object carrying only the patched fields (client.NewDocWithID + Set) where the null entry of a field it did not carry sorts: "+req, det)
				t.stop = true
				return
			}
		}
	}
	switch {
	case upA == 0:
		t.r.Violate("order/"+path(onA)+"/first-key-out-of-order/indexed-side", "ordered result of the indexed database is not sorted by its first key: "+req, det)
	case upB == 0:
		t.r.Violate("order/scan-path/first-key-out-of-order/index-free-side", "ordered result of the index-free database is not sorted by its first key: "+req, det)
	default:
		t.r.Violate("order/sort-key-sequences-differ", "sequences of sort keys differ between the indexed and the index-free database: "+req, det)
	}
}

// ---------------------------------------------------------------------------------------
// structural side monitor

// indexEntries returns, per index id of A, the raw entries (key suffix after the index id -> value).
func indexEntries(ctx context.Context, n *core.Node) map[uint64]map[string]string {
	out := map[uint64]map[string]string{}
	for k, v := range n.RawScan(ctx, "/db/data/") {
		b := []byte(strings.TrimPrefix(k, "/db/data"))
		if len(b) < 2 || b[0] != '/' {
			continue
		}
		rest, _, err := encoding.DecodeUvarintAscending(b[1:])
		if err != nil || len(rest) < 2 || rest[0] != '/' || rest[1] < encoding.IntMin {
			continue // document data: /<col>/<v|p|d>/...
		}
		rest2, id, err := encoding.DecodeUvarintAscending(rest[1:])
		if err != nil {
			continue
		}
		if out[id] == nil {
			out[id] = map[string]string{}
		}
		out[id][string(rest2)] = v
	}
	return out
}

func (t *twin) structural() {
	ctx := t.ctx
	col := t.A.Col(ctx, "U")
	for i, s := range t.p.Specs {
		if t.idxName[i] == "" {
			continue
		}
		descs, err := col.GetIndexes(ctx)
		core.Must(err)
		var oldID uint64
		for _, d := range descs {
			if d.Name == t.idxName[i] {
				oldID = uint64(d.ID)
			}
		}
		before := indexEntries(ctx, t.A)[oldID]
		t.step++
		t.dropIndex(i)
		if t.stop {
			return
		}
		if left := indexEntries(ctx, t.A)[oldID]; len(left) > 0 {
			t.r.Violate("structural/entries-left-after-drop", fmt.Sprintf("%d entries of a dropped index remain in the store", len(left)), t.detail(map[string]any{"spec": s.String()}))
		}
		col = t.A.Col(ctx, "U")
		t.createIndex(i)
		if t.stop || t.idxName[i] == "" {
			return
		}
		col = t.A.Col(ctx, "U")
		descs, err = col.GetIndexes(ctx)
		core.Must(err)
		var newID uint64
		for _, d := range descs {
			if d.Name == t.idxName[i] {
				newID = uint64(d.ID)
			}
		}
		after := indexEntries(ctx, t.A)[newID]
		t.r.Count("structural_checks", 1)
		t.r.Count("structural_entries_compared", int64(len(after)))
		var stale, missing []string
		for k, v := range before {
			if w, ok := after[k]; !ok || w != v {
				stale = append(stale, fmt.Sprintf("%q=%q", k, v))
			}
		}
		for k, v := range after {
			if w, ok := before[k]; !ok || w != v {
				missing = append(missing, fmt.Sprintf("%q=%q", k, v))
			}
		}
		sort.Strings(stale)
		sort.Strings(missing)
		if len(stale)+len(missing) > 0 {
			kind := "stale-and-missing"
			switch {
			case len(missing) == 0:
				kind = "stale-entries"
			case len(stale) == 0:
				kind = "missing-entries"
			}
			if len(t.partial) > 0 {
				// every differing entry belongs to a document that was updated through a partial document object
				all := true
				for _, e := range append(append([]string{}, stale...), missing...) {
					hit := false
					for id := range t.partial {
						hit = hit || strings.Contains(e, id)
					}
					all = all && hit
				}
				if all {
					t.r.Violate(sigPartialUpdate, fmt.Sprintf("index %s: the entries of documents updated through an object that carried only the patched fields differ from the entries rebuilt from the documents (%d only maintained, %d only rebuilt)", s.String(), len(stale), len(missing)),
						t.detail(map[string]any{"only_maintained": clipList(stale, 10), "only_rebuilt": clipList(missing, 10)}))
					continue
				}
			}
			t.r.Violate("structural/"+kind, fmt.Sprintf("index %s maintained incrementally differs from the index rebuilt from the documents: %d entries only in the maintained index, %d only in the rebuilt one", s.String(), len(stale), len(missing)),
				t.detail(map[string]any{"only_maintained": clipList(stale, 10), "only_rebuilt": clipList(missing, 10)}))
		}
	}
}

// ---------------------------------------------------------------------------------------
// anchor: operator table per index kind (fills the kind x operator cells deterministically)

func (t *twin) anchorCells() {
	// fixed contents: every domain value of the indexed field appears, plus nulls
	f := t.p.Specs[0].Fields[0].Name
	dom := qgen.Domain(f, t.p.Edge)
	if f == "g" {
		dom = []any{nil, t.gIDs[0], t.gIDs[1]}
	}
	for i, v := range dom {
		if v == nil && f == "j" && t.avoidNullJSON {
			continue
		}
		m := map[string]any{"k": t.nextK, "i": i % 3, "s": []any{"a", "b", nil}[i%3]}
		t.nextK++
		if v != nil {
			m[qgen.FieldByName(f).StoreName()] = v
		}
		o, ok := t.both("create "+qgen.Lit(m), true, nil, func(n *core.Node) outcome { return createAPI(t.ctx, n, m) })
		if ok {
			t.docs = append(t.docs, o.ids...)
		}
	}
	// an extra duplicate of the second value (ties)
	o := t.genOpts()
	// every operator of the kind (every array quantifier x operator), three draws each
	k := qgen.FieldByName(f).Kind
	type want struct{ arr, cmp string }
	var wants []want
	switch {
	case k.IsArray():
		ops := []string{"_eq", "_ne", "_gt", "_ge", "_lt", "_le", "_in", "_nin"}
		if k == qgen.KStrArrN {
			ops = []string{"_eq", "_ne", "_in", "_nin", "_like", "_nlike"}
		}
		for _, a := range []string{"_any", "_all", "_none"} {
			for _, c := range ops {
				wants = append(wants, want{a, c})
			}
		}
	case k == qgen.KJSON:
		for i := 0; i < 30; i++ {
			wants = append(wants, want{"*", "*"})
		}
	default:
		for _, c := range qgen.Ops(k) {
			wants = append(wants, want{"", c})
		}
	}
	round := 0
	for _, w := range wants {
		for n := 0; n < 3; n++ {
			var lf *qgen.Filter
			for tries := 0; tries < 400; tries++ {
				lf = qgen.GenLeaf(t.rng, f, o)
				if w.cmp == "*" || (lf.ArrOp == w.arr && lf.Cmp == w.cmp && !lf.Rel) {
					break
				}
			}
			round++
			t.checkQuery(&qgen.Query{Filter: lf})
			if k.Orderable() && n == 0 {
				t.checkQuery(&qgen.Query{Filter: lf, Order: []qgen.OrderKey{{Field: f, Desc: round%2 == 0}}})
			}
		}
	}
	if qgen.FieldByName(f).Kind.Orderable() {
		t.checkQuery(&qgen.Query{Order: []qgen.OrderKey{{Field: f}}})
		t.checkQuery(&qgen.Query{Order: []qgen.OrderKey{{Field: f, Desc: true}}, Limit: 2})
	}
}

// anchorHalloween: a filtered update through an _in over the indexed field whose patch moves the
// document to a value that comes later in the list ({i: {_in: [1, 9]}}, set i = 9): the iterator
// of each value is opened when its turn comes and sees the writes made so far.
func (t *twin) anchorHalloween() {
	for _, i := range []int{1, 5, -3} {
		m := map[string]any{"k": t.nextK, "i": i, "s": "a"}
		t.nextK++
		if o, ok := t.both("create "+qgen.Lit(m), true, nil, func(n *core.Node) outcome { return createAPI(t.ctx, n, m) }); ok {
			t.docs = append(t.docs, o.ids...)
		}
	}
	f := &qgen.Filter{Op: "leaf", Field: "i", Cmp: "_in", Val: []any{1, 9}}
	t.setFilterCtx(f)
	t.r.Count("op/update-filter-api", 1)
	t.both(`update-filter-api filter={i: {_in: [1, 9]}} patch={"i":9}`, true, nil, func(n *core.Node) outcome {
		res, err := n.Col(t.ctx, "U").UpdateWithFilter(t.ctx, f.Render(), `{"i":9}`)
		if err != nil {
			return outcome{err: err}
		}
		ids := append([]string{}, res.DocIDs...)
		sort.Strings(ids)
		return outcome{ids: ids}
	})
	t.compareState("update-filter-api")
	t.queries()
}

// anchorPartial: three documents; one is updated through an object that carries only a field no
// index covers, one through an object that carries one of the two fields of a composite index.
func (t *twin) anchorPartial() {
	for n, i := range []int{1, 2, 3} {
		m := map[string]any{"k": t.nextK, "i": i, "s": []string{"a", "b", "ab"}[n], "d": n, "u": n}
		t.nextK++
		if o, ok := t.both("create "+qgen.Lit(m), true, nil, func(n *core.Node) outcome { return createAPI(t.ctx, n, m) }); ok {
			t.docs = append(t.docs, o.ids...)
		}
	}
	for n, patch := range []map[string]any{{"f": 0.5}, {"d": 3}} {
		if t.stop || len(t.docs) < 3 {
			return
		}
		id := t.docs[n]
		t.step++
		t.r.Count("op/update-partial-api", 1)
		t.setFilterCtx(nil)
		left := t.indexedFieldsNotIn(patch)
		t.partial[id] = true
		t.r.Count("partial_updates_leaving_an_indexed_field_out", 1)
		b, _ := json.Marshal(patch)
		if _, ok := t.both(fmt.Sprintf("update-partial-api %s %s (indexed fields not carried: %v)", shortID(id), b, left), true, t.wouldDuplicate(map[string]map[string]any{id: patch}, nil), func(n *core.Node) outcome { return updatePartialAPI(t.ctx, n, id, patch) }); ok {
			t.probeEntries(id)
		}
		t.compareState("update-partial-api")
		t.queries()
	}
}

// anchorZeroTime: the DateTime value 0001-01-01T00:00:00Z (Go's zero time) is stored as null by
// the document layer (CBOR encodes the zero time as null) while the index entry is built from the
// value that was written. The edge-value domain leaves this one value out (it would make every
// history with a DateTime index diverge); this anchor keeps the finding visible.
func (t *twin) anchorZeroTime() {
	m := map[string]any{"k": 0, "t": "0001-01-01T00:00:00Z", "i": 1}
	o, ok := t.both("create "+qgen.Lit(m), true, nil, func(n *core.Node) outcome { return createAPI(t.ctx, n, m) })
	if !ok {
		return
	}
	id := o.ids[0]
	var diffs []string
	for _, f := range []string{`{t: {_eq: null}}`, `{t: {_ne: null}}`, `{t: {_le: "1970-01-01T00:00:00Z"}}`} {
		req := "query { U(filter: " + f + ") { _docID t } }"
		ra, ea := rowsOrErr(t.ctx, t.A, req, "U")
		rb, eb := rowsOrErr(t.ctx, t.B, req, "U")
		t.r.Count("evaluations", 1)
		if ea != eb || len(ra) != len(rb) {
			diffs = append(diffs, fmt.Sprintf("%s: indexed %d rows %s, index-free %d rows %s", f, len(ra), ea, len(rb), eb))
		}
	}
	did, _ := client.NewDocIDFromString(id)
	_, errA := t.A.Col(t.ctx, "U").Delete(t.ctx, did)
	_, errB := t.B.Col(t.ctx, "U").Delete(t.ctx, did)
	if (errA == nil) != (errB == nil) {
		diffs = append(diffs, fmt.Sprintf("delete: indexed %v, index-free %v", errA, errB))
	}
	rows := t.liveRows(t.B)
	if len(diffs) > 0 {
		t.r.Violate("index/datetime-zero-value-stored-as-null/index-entry-keeps-the-value",
			"a document written with the DateTime 0001-01-01T00:00:00Z reads back with a null field, but its index entry holds the value: "+strings.Join(diffs, "; "),
			t.detail(map[string]any{"differences": diffs, "document_as_read": rows}))
	}
}

// ---------------------------------------------------------------------------------------
// case lists

func sp(unique bool, fs ...string) qgen.IndexSpec {
	s := qgen.IndexSpec{Unique: unique}
	for _, f := range fs {
		d := strings.HasSuffix(f, "-")
		s.Fields = append(s.Fields, qgen.IndexField{Name: strings.TrimSuffix(f, "-"), Desc: d})
	}
	return s
}

// named index sets (a trailing '-' marks a descending field)
var twinIndexSets = [][]qgen.IndexSpec{
	{sp(false, "i")},
	{sp(false, "d-")},
	{sp(false, "s")},
	{sp(false, "s-")},
	{sp(false, "f")},
	{sp(false, "f-")},
	{sp(false, "f32")},
	{sp(false, "b")},
	{sp(false, "t")},
	{sp(false, "t-")},
	{sp(false, "j")},
	{sp(false, "ai")},
	{sp(false, "an")},
	{sp(false, "as")},
	{sp(false, "bl")},
	{sp(false, "g")},
	{sp(false, "i", "s-")},
	{sp(false, "s", "i")},
	{sp(false, "d-", "f")},
	{sp(false, "b", "i-", "s")},
	{sp(false, "s-", "d-")},
	{sp(false, "i", "ai")},
	{sp(false, "g", "i")},
	{sp(true, "u")},
	{sp(true, "i")},
	{sp(true, "s", "i")},
	{sp(true, "u-")},
	{sp(false, "i"), sp(false, "s"), sp(false, "d-"), sp(false, "f"), sp(false, "t")},
	{sp(false, "i", "s"), sp(false, "s")},
	{sp(true, "u"), sp(false, "i", "d-")},
	{sp(false, "j"), sp(false, "an"), sp(false, "b")},
}

var twinModes = []string{"api-before", "sdl", "api-after", "drop-recreate"}

func randomIndexSet(rng *rand.Rand) []qgen.IndexSpec {
	names := []string{"i", "d", "s", "f", "f32", "b", "t", "j", "ai", "an", "as", "bl", "u", "g"}
	n := 1 + rng.IntN(3)
	var out []qgen.IndexSpec
	for x := 0; x < n; x++ {
		s := qgen.IndexSpec{}
		nf := 1
		if r := rng.IntN(10); r >= 8 {
			nf = 3
		} else if r >= 5 {
			nf = 2
		}
		seen := map[string]bool{}
		arr := false
		for len(s.Fields) < nf {
			f := names[rng.IntN(len(names))]
			k := qgen.FieldByName(f).Kind
			if seen[f] || (arr && (k.IsArray() || k == qgen.KJSON)) {
				continue
			}
			// array fields inside composite indexes only in a minority of the random sets: documents
			// whose array is null or empty drop out of such an index (known finding) and that masks
			// most other comparisons
			if nf > 1 && k.IsArray() && rng.IntN(4) != 0 {
				continue
			}
			seen[f] = true
			arr = arr || k.IsArray() || k == qgen.KJSON
			s.Fields = append(s.Fields, qgen.IndexField{Name: f, Desc: rng.IntN(3) == 0})
		}
		// unique only over scalar fields (the statement's uniqueness clause is about values of documents)
		if rng.IntN(6) == 0 && !arr {
			s.Unique = true
		}
		dup := false
		for _, o := range out {
			if o.String() == s.String() {
				dup = true
			}
		}
		if !dup {
			out = append(out, s)
		}
	}
	return out
}

func twinCases(seed uint64, n int, edge bool) []core.Case {
	var cs []core.Case
	// anchors (seed independent): operator table per single-field index kind, both directions
	for _, f := range []string{"i", "d", "s", "f", "f32", "b", "t", "j", "ai", "an", "as", "bl", "g"} {
		for _, desc := range []bool{false, true} {
			p := twinParams{Specs: []qgen.IndexSpec{{Fields: []qgen.IndexField{{Name: f, Desc: desc}}}}, Mode: "api-before", Anchor: "cells", NoRemote: true, Edge: edge}
			cs = append(cs, core.MkCase("twin/anchor-cells/"+p.Specs[0].Class(), 7, p))
		}
	}
	// anchors: every operation kind once, in each index life-cycle mode, with a unique and a composite index
	for i, m := range twinModes {
		p := twinParams{Specs: []qgen.IndexSpec{sp(true, "u"), sp(false, "i", "s-"), sp(false, "d-")}, Mode: m, Steps: 2 * (len(twinOps) + 1), Queries: 6, Anchor: "ops", Edge: edge, Partial: true}
		cs = append(cs, core.MkCase("twin/anchor-ops/"+m, uint64(11+i), p))
	}
	cs = append(cs, core.MkCase("twin/anchor-halloween", 3, twinParams{Specs: []qgen.IndexSpec{sp(false, "i")}, Mode: "api-before", Queries: 6, Anchor: "halloween", NoRemote: true, Edge: edge}))
	// updates through partial document objects under plain and under unique indexes
	cs = append(cs, core.MkCase("twin/anchor-partial/plain", 4, twinParams{Specs: []qgen.IndexSpec{sp(false, "i"), sp(false, "s-", "d")}, Mode: "api-before", Queries: 6, Anchor: "partial", NoRemote: true, Edge: edge, Partial: true}))
	cs = append(cs, core.MkCase("twin/anchor-partial/unique", 4, twinParams{Specs: []qgen.IndexSpec{sp(true, "u")}, Mode: "sdl", Queries: 6, Anchor: "partial", NoRemote: true, Edge: edge, Partial: true}))
	// low-cardinality unique index: legitimate rejections are certain
	cs = append(cs, core.MkCase("twin/anchor-ops/unique-low", 5, twinParams{Specs: []qgen.IndexSpec{sp(true, "i")}, Mode: "api-before", Steps: 2 * (len(twinOps) + 1), Queries: 4, Anchor: "ops", Edge: edge, Partial: true}))
	rng := rand.New(rand.NewPCG(seed, 707))
	for i := 0; i < n; i++ {
		var specs []qgen.IndexSpec
		if rng.IntN(3) == 0 {
			specs = randomIndexSet(rng)
		} else {
			specs = twinIndexSets[rng.IntN(len(twinIndexSets))]
		}
		p := twinParams{Specs: specs, Mode: twinModes[rng.IntN(len(twinModes))], Steps: 8 + rng.IntN(8), Queries: 24, Edge: edge, Partial: true}
		if rng.IntN(3) != 0 {
			p.JSONMode = "objects"
		}
		if edge {
			p.Edge = true
		}
		cs = append(cs, core.MkCase("twin/"+p.Mode, rng.Uint64(), p))
	}
	return cs
}

// cellFloors: every (kind x operator) cell that the anchors serve from an index with a non-empty
// result on the current tree (JSON cells are counted but not floors: most JSON shapes run into
// known findings).
func cellFloors() []string {
	var out []string
	for _, k := range []qgen.Kind{qgen.KInt, qgen.KFloat, qgen.KFloat32, qgen.KTime, qgen.KBool, qgen.KString, qgen.KBlob, qgen.KRel} {
		for _, op := range qgen.Ops(k) {
			out = append(out, "cell/"+string(k)+"/"+op)
		}
	}
	for _, k := range []qgen.Kind{qgen.KIntArr, qgen.KIntArrN} {
		for _, a := range []string{"_any", "_all"} {
			for _, op := range []string{"_eq", "_ne", "_gt", "_ge", "_lt", "_le", "_in", "_nin"} {
				out = append(out, "cell/"+string(k)+"/"+a+"/"+op)
			}
		}
	}
	for _, a := range []string{"_any", "_all"} {
		for _, op := range []string{"_eq", "_ne", "_in", "_nin", "_like", "_nlike"} {
			out = append(out, "cell/"+string(qgen.KStrArrN)+"/"+a+"/"+op)
		}
	}
	return out
}

var twinFloors = append(cellFloors(), []string{"index_served_queries", "queries_with_docid_argument", "nontrivial_pairs", "order_served_by_index", "structural_checks", "structural_entries_compared",
	"remote_merges", "unique_legit_rejections", "unique_invariant_checks", "sliced_queries_total_order",
	"op/create-api", "op/create-gql", "op/create-many", "op/update-api", "op/update-gql", "op/update-filter-api", "op/update-filter-gql",
	"op/delete-api", "op/delete-gql", "op/delete-filter-api", "op/delete-filter-gql", "op/remote-create", "op/remote-update", "op/remote-delete",
	"op/index-create", "op/index-drop", "state_comparisons", "op/update-partial-api", "partial_updates_leaving_an_indexed_field_out", "entry_probes_after_partial_update"}...)

func init() {
	core.Register(&core.Check{
		ID: "C07", Level: "exploration",
		Rule: "twin histories: database A with a generated index set (single-field on every indexable kind incl. arrays, JSON, relation id; composite 2-3 fields with mixed directions; unique; " +
			"created by SDL directive, by API before data, after data, dropped and re-created), database B without; same mutation history (collection API, GraphQL, UpdateWithFilter, DeleteWithFilter, " +
			"commits merged from a third node); after every step a batch of generated queries (leaf operators per kind, _and/_or/_not depth<=3, order 1-3 keys, limit/offset, showDeleted, through-relation) on both. " +
			"non-trivial = the indexed side's explain(execute) shows indexFetches>0 and the result is non-empty; distinct by (index classes, filter skeleton, order/limit class). " +
			"The history also updates through partial document objects (client.NewDocWithID + Set). Dedicated twins on small schemas: index over counter fields (increments by API, GraphQL, UpdateWithFilter, merged commits), " +
			"schema patches with SetActiveSchemaVersion back and forth and index DDL in between, document access control (index created by an identity that may not read every document; every requester asks both databases), " +
			"writes through a collection handle fetched before index DDL.",
		Cases: func(seed uint64, tier string) []core.Case {
			return append(twinCases(seed, tierN(tier, 120, 2000), false), specialCases(seed, tierN(tier, 40, 600))...)
		},
		Run: func(ctx context.Context, c core.Case, r *core.Rec) {
			for _, k := range []string{"twin/counter", "twin/versions", "twin/acp", "twin/stale-handle"} {
				if strings.HasPrefix(c.Kind, k) {
					runSpecial(ctx, c, r)
					return
				}
			}
			runTwin(ctx, c, r)
		},
		Floors: append(append([]string{}, twinFloors...), specialFloors...), CaseTimeout: 300 * time.Second,
		Assumptions: []string{"the index-free twin is the reference: its scan path is judged by C08, not here",
			"uniqueness predicate for composite unique indexes: only tuples whose components are all non-null are constrained",
			"merged remote commits that a unique index rejects on A are not applied to B (the uniqueness clause speaks of local writes only)"},
	})
}
