package checks

import (
	"encoding/json"
	"fmt"
	"math"
	"math/rand/v2"

	"github.com/sourcenetwork/defradb/verifharness/qsem"
)

func c08Num(v any) (float64, bool) {
	switch x := v.(type) {
	case json.Number:
		f, err := x.Float64()
		return f, err == nil
	case float64:
		return x, true
	case int64:
		return float64(x), true
	case int:
		return float64(x), true
	}
	return 0, false
}

// aggInline: aggregates over the inline array `a` of each document with every form of the
// limit/offset arguments - none, offset only, limit only, both. "limit/offset cut a slice of that
// sequence, and each aggregate equals the arithmetic over the listed values": the listed values
// are the elements of `a` as the same request returns them, in array order.
func (e *c08env) aggInline(rng *rand.Rand) {
	o, l := rng.IntN(3), 1+rng.IntN(2)
	variants := []struct {
		name, args string
		off, lim   int
	}{{"no-limit", "", 0, -1}, {"offset-only", fmt.Sprintf("offset: %d", o), o, -1}, {"limit-only", fmt.Sprintf("limit: %d", l), 0, l},
		{"limit-and-offset", fmt.Sprintf("limit: %d, offset: %d", l, o), o, l}}
	v := variants[rng.IntN(len(variants))]
	req := fmt.Sprintf(`query { U { k a c: _count(a: {%[1]s}) s: _sum(a: {%[1]s}) mn: _min(a: {%[1]s}) mx: _max(a: {%[1]s}) av: _avg(a: {%[1]s}) } }`, v.args)
	res, ok := e.query("aggregate", req)
	if !ok {
		return
	}
	e.r.Count("agg_inline_array_requests", 1)
	e.r.Count("agg_inline_array_"+v.name, 1)
	for _, row := range res.Rows("U") {
		arr, _ := row["a"].([]any)
		var vals []float64
		for _, x := range arr {
			if f, ok := c08Num(x); ok {
				vals = append(vals, f)
			}
		}
		lo := min(v.off, len(vals))
		hi := len(vals)
		if v.lim >= 0 {
			hi = min(lo+v.lim, len(vals))
		}
		sl := vals[lo:hi]
		if len(sl) < len(vals) {
			e.r.Count("agg_inline_array_slice_shorter_than_array", 1)
			e.nontrivial("agg-inline:"+v.name, 1, true)
		}
		want := map[string]float64{"c": float64(len(sl))}
		if len(sl) > 0 {
			s, mn, mx := 0.0, math.Inf(1), math.Inf(-1)
			for _, x := range sl {
				s += x
				mn, mx = math.Min(mn, x), math.Max(mx, x)
			}
			want["s"], want["mn"], want["mx"], want["av"] = s, mn, mx, s/float64(len(sl))
		} else {
			want["s"] = 0 // (min, max and average of no values are not judged)
		}
		for _, fn := range []string{"c", "s", "mn", "mx", "av"} {
			w, judged := want[fn]
			if !judged {
				continue
			}
			e.r.Count("agg_inline_array_values_judged", 1)
			got, isNum := c08Num(row[fn])
			if !isNum || math.Abs(got-w) > 1e-9 {
				name := map[string]string{"c": "_count", "s": "_sum", "mn": "_min", "mx": "_max", "av": "_avg"}[fn]
				e.r.Violate(fmt.Sprintf("aggregate/inline-array/%s/%s/differs-from-arithmetic-over-the-slice", name, v.name),
					fmt.Sprintf("%s(a: {%s}) = %v for a = %v: the slice [%d,%d) of the array gives %v", name, v.args, row[fn], arr, lo, hi, w),
					map[string]any{"request": req, "row": row, "slice": sl})
				return
			}
		}
	}
}

// aliasOnAggregate: a filter on the value of an aggregate, through its alias, keeps exactly the
// rows whose aggregate value - as the unfiltered request shows it - satisfies the condition
// (rows whose aggregate is null are not judged).
func (e *c08env) aliasOnAggregate(rng *rand.Rand) {
	fn := qsem.AggFns[rng.IntN(len(qsem.AggFns))]
	op := []string{"_gt", "_ge", "_lt", "_le"}[rng.IntN(4)]
	c := rng.IntN(4)
	sel := fmt.Sprintf("x: %s(a: {})", fn)
	full, ok := e.query("aggregate", fmt.Sprintf(`query { U { k %s } }`, sel))
	if !ok {
		return
	}
	freq := fmt.Sprintf(`query { U(filter: {_alias: {x: {%s: %d}}}) { k %s } }`, op, c, sel)
	filtered, ok := e.query("filter", freq)
	if !ok {
		return
	}
	got := qsem.ToSet(qsem.IDs(filtered.Rows("U"), "k"))
	e.r.Count("alias_on_aggregate_requests", 1)
	e.r.Count("alias_on_aggregate_"+fn, 1)
	for _, row := range full.Rows("U") {
		x, isNum := c08Num(row["x"])
		if !isNum {
			continue
		}
		k := fmt.Sprint(row["k"])
		var holds bool
		switch op {
		case "_gt":
			holds = x > float64(c)
		case "_ge":
			holds = x >= float64(c)
		case "_lt":
			holds = x < float64(c)
		default:
			holds = x <= float64(c)
		}
		e.r.Count("alias_on_aggregate_rows_judged", 1)
		if holds != got[k] {
			what := "row-that-fails-the-condition-returned"
			if holds {
				what = "row-that-satisfies-the-condition-missing"
			}
			arr, _ := row["a"].([]any)
			cls := "non-empty-array"
			if len(arr) == 0 {
				cls = "empty-or-null-array"
			}
			e.r.Violate(fmt.Sprintf("filter/alias-on-aggregate/%s/%s/%s", fn, cls, what),
				fmt.Sprintf("document k=%s has %s(a) = %v; the request filtering on {%s: %d} through the alias %s it", k, fn, row["x"], op, c, map[bool]string{true: "does not return", false: "returns"}[holds]),
				map[string]any{"request": freq, "row_in_unfiltered_request": row, "returned_k": qsem.IDs(filtered.Rows("U"), "k")})
			return
		}
	}
}
