package checks

import (
	"context"
	"encoding/json"
	"fmt"
	"math/rand/v2"
	"sort"
	"strings"
	"time"

	"github.com/sourcenetwork/defradb/client"
	"github.com/sourcenetwork/defradb/verifharness/core"
	"github.com/sourcenetwork/defradb/verifharness/qsem"
)

// C09 — relations read the same from both sides.
//
// One case = one link / re-link / unlink / delete history over one topology, applied to TWIN
// databases (without / with secondary indexes on the foreign key and on the filtered fields).
// After every step each relation is read four ways (parent side, child side, foreign-key filter,
// plain field dump joined with the live parents) and the four edge sets must coincide and agree
// with the model of the history; derived checks: filters through the relation from both sides,
// _count / _sum over the relation, order through the relation, filtered sub-selections; every
// answer is compared between the twins; one-to-one links are never held by two live documents.

type c09Rel struct {
	PCol, CCol string // parent / child collection
	CtoP       string // object field on the child (foreign key = CtoP+"_id")
	PtoC       string // object / list field on the parent
	Many       bool
	PVal, CVal string // small-domain Int fields
}

type c09Topo struct {
	Name string
	Cols []string          // creation order (parents first)
	Val  map[string]string // collection -> Int field
	Up   map[string]string // collection -> its link field (object field pointing "up"), "" if none
	UpTo map[string]string // collection -> collection the link points to
	Rels []c09Rel
	SDL  func(indexed bool) string
}

func c09Topologies() map[string]c09Topo {
	ix := func(indexed bool) string {
		if indexed {
			return " @index"
		}
		return ""
	}
	return map[string]c09Topo{
		"one-many": {Name: "one-many", Cols: []string{"P", "C"}, Val: map[string]string{"P": "v", "C": "w"}, Up: map[string]string{"C": "p"}, UpTo: map[string]string{"C": "P"},
			Rels: []c09Rel{{"P", "C", "p", "cs", true, "v", "w"}},
			SDL: func(i bool) string {
				return fmt.Sprintf("type P { name: String  v: Int%[1]s  cs: [C] }\ntype C { name: String  w: Int%[1]s  p: P%[1]s }", ix(i))
			}},
		"one-one": {Name: "one-one", Cols: []string{"P", "C"}, Val: map[string]string{"P": "v", "C": "w"}, Up: map[string]string{"C": "p"}, UpTo: map[string]string{"C": "P"},
			Rels: []c09Rel{{"P", "C", "p", "c", false, "v", "w"}},
			SDL: func(i bool) string {
				return fmt.Sprintf("type P { name: String  v: Int%[1]s  c: C }\ntype C { name: String  w: Int%[1]s  p: P @primary%[1]s }", ix(i))
			}},
		"self-many": {Name: "self-many", Cols: []string{"P"}, Val: map[string]string{"P": "v"}, Up: map[string]string{"P": "boss"}, UpTo: map[string]string{"P": "P"},
			Rels: []c09Rel{{"P", "P", "boss", "cs", true, "v", "v"}},
			SDL: func(i bool) string {
				return fmt.Sprintf("type P { name: String  v: Int%[1]s  boss: P @relation(name: \"bm\")%[1]s  cs: [P] @relation(name: \"bm\") }", ix(i))
			}},
		"self-one": {Name: "self-one", Cols: []string{"P"}, Val: map[string]string{"P": "v"}, Up: map[string]string{"P": "boss"}, UpTo: map[string]string{"P": "P"},
			Rels: []c09Rel{{"P", "P", "boss", "c", false, "v", "v"}},
			SDL: func(i bool) string {
				return fmt.Sprintf("type P { name: String  v: Int%[1]s  boss: P @primary @relation(name: \"bm\")%[1]s  c: P @relation(name: \"bm\") }", ix(i))
			}},
		"two-hops": {Name: "two-hops", Cols: []string{"A", "B", "C"}, Val: map[string]string{"A": "v", "B": "w", "C": "x"}, Up: map[string]string{"B": "a", "C": "b"}, UpTo: map[string]string{"B": "A", "C": "B"},
			Rels: []c09Rel{{"A", "B", "a", "bs", true, "v", "w"}, {"B", "C", "b", "cs", true, "w", "x"}},
			SDL: func(i bool) string {
				return fmt.Sprintf("type A { name: String  v: Int%[1]s  bs: [B] }\ntype B { name: String  w: Int%[1]s  a: A%[1]s  cs: [C] }\ntype C { name: String  x: Int%[1]s  b: B%[1]s }", ix(i))
			}},
	}
}

var c09TopoNames = []string{"one-many", "one-one", "self-many", "self-one", "two-hops"}

type c09Op struct {
	Kind string `json:"kind"` // create | relink | setval | delete
	Col  string `json:"col"`
	Doc  string `json:"doc"`           // document name (unique within the collection)
	To   string `json:"to,omitempty"`  // name of the document linked to ("" = null)
	Val  int    `json:"val,omitempty"` // for create / setval
	GQL  bool   `json:"gql,omitempty"` // apply through a GraphQL mutation instead of the collection API
}

type c09Params struct {
	Topo string  `json:"topo"`
	Ops  []c09Op `json:"ops"`
}

// c09GenOps: creation phase (parents before children) then mutations.
func c09GenOps(rng *rand.Rand, t c09Topo, steps int) []c09Op {
	var ops []c09Op
	names := map[string][]string{}
	pick := func(col string) string {
		if len(names[col]) == 0 {
			return ""
		}
		return names[col][rng.IntN(len(names[col]))]
	}
	create := func(col string) {
		name := fmt.Sprintf("%s%d", strings.ToLower(col), len(names[col]))
		op := c09Op{Kind: "create", Col: col, Doc: name, Val: rng.IntN(3)}
		if up := t.UpTo[col]; up != "" && rng.IntN(5) > 0 {
			op.To = pick(up)
		}
		names[col] = append(names[col], name)
		ops = append(ops, op)
	}
	for _, col := range t.Cols {
		for i, n := 0, 2+rng.IntN(3); i < n; i++ {
			create(col)
		}
	}
	for s := 0; s < steps; s++ {
		col := t.Cols[rng.IntN(len(t.Cols))]
		switch x := rng.IntN(10); {
		case x < 4 && t.UpTo[col] != "":
			to := pick(t.UpTo[col])
			if rng.IntN(4) == 0 {
				to = ""
			}
			ops = append(ops, c09Op{Kind: "relink", Col: col, Doc: pick(col), To: to, GQL: rng.IntN(3) == 0})
		case x < 5:
			ops = append(ops, c09Op{Kind: "setval", Col: col, Doc: pick(col), Val: rng.IntN(3), GQL: rng.IntN(3) == 0})
		case x < 8:
			ops = append(ops, c09Op{Kind: "delete", Col: col, Doc: pick(col), GQL: rng.IntN(3) == 0})
		case x < 9 && len(ops) > 0 && ops[len(ops)-1].Kind == "delete":
			ops = append(ops, ops[len(ops)-1]) // delete the same document twice
		default:
			if len(names[col]) < 6 {
				create(col)
			}
		}
	}
	return ops
}

func c09Anchor(topo string) []c09Op {
	t := c09Topologies()[topo]
	top, bottom := t.Cols[0], t.Cols[len(t.Cols)-1]
	n := func(col string, i int) string { return fmt.Sprintf("%s%d", strings.ToLower(col), i) }
	var ops []c09Op
	switch topo {
	case "two-hops":
		ops = []c09Op{{Kind: "create", Col: "A", Doc: "a0", Val: 1}, {Kind: "create", Col: "A", Doc: "a1", Val: 2},
			{Kind: "create", Col: "B", Doc: "b0", To: "a0", Val: 1}, {Kind: "create", Col: "B", Doc: "b1", To: "a0", Val: 2}, {Kind: "create", Col: "B", Doc: "b2", Val: 0},
			{Kind: "create", Col: "C", Doc: "c0", To: "b0", Val: 1}, {Kind: "create", Col: "C", Doc: "c1", To: "b0", Val: 1}, {Kind: "create", Col: "C", Doc: "c2", To: "b1", Val: 2}, {Kind: "create", Col: "C", Doc: "c3"},
			{Kind: "relink", Col: "C", Doc: "c1", To: "b1"}, {Kind: "relink", Col: "B", Doc: "b1", To: "a1", GQL: true}, {Kind: "delete", Col: "B", Doc: "b0"}, {Kind: "delete", Col: "B", Doc: "b0"},
			{Kind: "relink", Col: "C", Doc: "c2", To: ""}, {Kind: "delete", Col: "A", Doc: "a0", GQL: true}}
	case "self-many", "self-one":
		ops = []c09Op{{Kind: "create", Col: "P", Doc: "p0", Val: 1}, {Kind: "create", Col: "P", Doc: "p1", To: "p0", Val: 2}, {Kind: "create", Col: "P", Doc: "p2", To: "p0", Val: 2},
			{Kind: "create", Col: "P", Doc: "p3", To: "p1", Val: 0}, {Kind: "create", Col: "P", Doc: "p4", Val: 1},
			{Kind: "relink", Col: "P", Doc: "p3", To: "p0"}, {Kind: "relink", Col: "P", Doc: "p4", To: "p4", GQL: true}, {Kind: "relink", Col: "P", Doc: "p2", To: ""},
			{Kind: "delete", Col: "P", Doc: "p1"}, {Kind: "delete", Col: "P", Doc: "p1"}, {Kind: "relink", Col: "P", Doc: "p0", To: "p3"}, {Kind: "delete", Col: "P", Doc: "p0", GQL: true}}
	default:
		ops = []c09Op{{Kind: "create", Col: top, Doc: n(top, 0), Val: 1}, {Kind: "create", Col: top, Doc: n(top, 1), Val: 2}, {Kind: "create", Col: top, Doc: n(top, 2), Val: 1},
			{Kind: "create", Col: bottom, Doc: n(bottom, 0), To: n(top, 0), Val: 1}, {Kind: "create", Col: bottom, Doc: n(bottom, 1), To: n(top, 0), Val: 2},
			{Kind: "create", Col: bottom, Doc: n(bottom, 2), To: n(top, 1), Val: 2}, {Kind: "create", Col: bottom, Doc: n(bottom, 3), Val: 0},
			{Kind: "relink", Col: bottom, Doc: n(bottom, 3), To: n(top, 1)}, {Kind: "relink", Col: bottom, Doc: n(bottom, 1), To: n(top, 2), GQL: true},
			{Kind: "relink", Col: bottom, Doc: n(bottom, 2), To: ""}, {Kind: "setval", Col: top, Doc: n(top, 2), Val: 0},
			{Kind: "delete", Col: bottom, Doc: n(bottom, 0)}, {Kind: "delete", Col: bottom, Doc: n(bottom, 0)}, {Kind: "delete", Col: top, Doc: n(top, 1), GQL: true},
			{Kind: "relink", Col: bottom, Doc: n(bottom, 2), To: n(top, 2)}, {Kind: "relink", Col: bottom, Doc: n(bottom, 3), To: n(top, 2)}}
	}
	return ops
}

func c09Cases(seed uint64, tier string) []core.Case {
	var cs []core.Case
	for _, t := range c09TopoNames {
		cs = append(cs, core.MkCase("anchor/"+t, 1, c09Params{Topo: t, Ops: c09Anchor(t)}))
	}
	rng := rand.New(rand.NewPCG(seed, 909))
	topos := c09Topologies()
	for i, n := 0, tierN(tier, 150, 4000); i < n; i++ {
		t := c09TopoNames[i%len(c09TopoNames)]
		r := rand.New(rand.NewPCG(rng.Uint64(), 9))
		cs = append(cs, core.MkCase("history/"+t, rng.Uint64(), c09Params{Topo: t, Ops: c09GenOps(r, topos[t], 4+r.IntN(8))}))
	}
	return cs
}

func init() {
	floors := []string{"edge_set_comparisons", "filter_through_relation_checks", "count_over_relation_checks", "order_through_relation_checks", "twin_comparisons",
		"one_to_one_link_invariant_checks", "one_to_one_duplicate_link_rejected", "double_deletes_applied", "relinks_applied", "inverted_join_plans_by_filter", "inverted_join_plans_by_order"}
	for _, t := range c09TopoNames {
		floors = append(floors, "histories_"+t)
	}
	core.Register(&core.Check{
		ID: "C09", Level: "exploration",
		Rule: "link / re-link / unlink / delete histories (collection API and GraphQL mutations, incl. deleting a document twice) over 5 topologies (1-N, 1-1 @primary, self 1-N, self 1-1, two hops), " +
			"each applied to twin databases without / with indexes on the foreign key and the filtered fields; after EVERY step: edge set read from the parent side, the child side, by foreign-key filter and from the plain dump " +
			"must coincide and equal the model; filters through the relation from both sides, _count/_sum over it, order through it, filtered sub-selections; every answer equal between the twins; one-to-one links unique among live documents. " +
			"non-trivial = history with a re-link or delete and a parent with >=2 children (1-N) or a rejected duplicate link (1-1); distinct by (topology, operation-kind sequence).",
		Cases: c09Cases, Run: c09Run, Floors: floors, CaseTimeout: 10 * time.Minute,
		Assumptions: []string{
			"ground truth = child documents' foreign-key field joined with the live documents of the parent collection (a link to a deleted parent is not an edge)",
			"for operators other than _eq a child without (live) parent is not judged against the ground truth (undocumented), only compared between the twins",
			"inverted plans are recognised from @explain: the indexed twin's sub-type scan carries the relation filter / the order node is gone, unlike the index-free twin",
		},
	})
}

// ---------------------------------------------------------------------------------------

type c09Doc struct {
	Name, ID string
	Val      int
	To       string // name of the linked document, "" = null
	Deleted  bool
}

type c09Twin struct {
	tag string // plain | indexed
	n   *core.Node
	ex  *qsem.Exec
}

type c09env struct {
	ctx   context.Context
	r     *core.Rec
	topo  c09Topo
	twins [2]*c09Twin
	docs  map[string][]*c09Doc // model, per collection, creation order
	stats struct{ relinks, deletes, rejectedDup, maxChildren int }
}

func (e *c09env) doc(col, name string) *c09Doc {
	for _, d := range e.docs[col] {
		if d.Name == name {
			return d
		}
	}
	return nil
}

func c09Run(ctx context.Context, c core.Case, r *core.Rec) {
	var p c09Params
	c.P(&p)
	topo := c09Topologies()[p.Topo]
	e := &c09env{ctx: ctx, r: r, topo: topo, docs: map[string][]*c09Doc{}}
	for i, tag := range []string{"plain", "indexed"} {
		n := core.NewNode(ctx, core.NodeOpts{})
		defer n.Close()
		_, err := n.DB.AddSchema(ctx, topo.SDL(i == 1))
		core.Must(err)
		e.twins[i] = &c09Twin{tag: tag, n: n, ex: &qsem.Exec{Ctx: ctx, N: n, R: r, Kind: c.Kind}}
	}
	r.Count("histories_"+p.Topo, 1)
	var shape []string
	for i, op := range p.Ops {
		if e.twins[0].ex.Hung || e.twins[1].ex.Hung {
			return
		}
		r.Count("evaluations", 1)
		applied := e.apply(op)
		shape = append(shape, op.Kind[:2])
		if !applied && op.Kind == "create" {
			continue
		}
		e.checkAll(fmt.Sprintf("after step %d %+v", i, op), p.Ops[:i+1])
	}
	e.explainProbe()
	if e.stats.relinks+e.stats.deletes > 0 && (e.stats.maxChildren >= 2 || e.stats.rejectedDup > 0) {
		r.Nontrivial(p.Topo + "|" + strings.Join(shape, ""))
	}
	if c.Index%40 == 0 {
		r.Sample(map[string]any{"kind": c.Kind, "topology": p.Topo, "sdl_indexed": topo.SDL(true), "ops": p.Ops})
	}
}

// apply executes one operation on both twins under recover(); the model follows the plain twin's
// outcome and the twins must agree on it. Returns whether the write succeeded.
func (e *c09env) apply(op c09Op) bool {
	d := e.doc(op.Col, op.Doc)
	if op.Kind != "create" && d == nil {
		return false
	}
	fk := e.topo.Up[op.Col] + "_id"
	toID := func() any {
		if op.To == "" {
			return nil
		}
		if t := e.doc(e.topo.UpTo[op.Col], op.To); t != nil {
			return t.ID
		}
		return nil
	}
	var outcome [2]string
	var newID [2]string
	for i, tw := range e.twins {
		col := tw.n.Col(e.ctx, op.Col)
		var gqlErr string
		err, pn, hung := tw.ex.Guard(op.Kind, func() error {
			switch op.Kind {
			case "create":
				m := map[string]any{"name": op.Doc, e.topo.Val[op.Col]: op.Val}
				if id := toID(); id != nil {
					m[fk] = id
				}
				doc, err := client.NewDocFromMap(m, col.Definition())
				if err != nil {
					return err
				}
				newID[i] = doc.ID().String()
				return col.Create(e.ctx, doc)
			case "relink", "setval":
				field, val := fk, toID()
				if op.Kind == "setval" {
					field, val = e.topo.Val[op.Col], any(op.Val)
				}
				if op.GQL {
					b, _ := json.Marshal(val)
					res := tw.ex.Do(fmt.Sprintf(`mutation { update_%s(docID: "%s", input: {%s: %s}) { _docID } }`, op.Col, d.ID, field, b))
					if !res.OK() {
						gqlErr = res.Err()
					} else if len(res.Rows("update_"+op.Col)) == 0 {
						gqlErr = "no document updated"
					}
					return nil
				}
				id, err := client.NewDocIDFromString(d.ID)
				if err != nil {
					return err
				}
				doc, err := col.Get(e.ctx, id, false)
				if err != nil {
					return err
				}
				if err := doc.Set(field, val); err != nil {
					return err
				}
				return col.Update(e.ctx, doc)
			case "delete":
				if op.GQL {
					res := tw.ex.Do(fmt.Sprintf(`mutation { delete_%s(docID: "%s") { _docID } }`, op.Col, d.ID))
					if !res.OK() {
						gqlErr = res.Err()
					} else if len(res.Rows("delete_"+op.Col)) == 0 {
						gqlErr = "no document deleted"
					}
					return nil
				}
				id, err := client.NewDocIDFromString(d.ID)
				if err != nil {
					return err
				}
				ok, err := col.Delete(e.ctx, id)
				if err == nil && !ok {
					return fmt.Errorf("delete returned false")
				}
				return err
			}
			return nil
		})
		switch {
		case hung:
			return false
		case pn != "":
			what := op.Kind
			if op.Kind == "delete" && d != nil && d.Deleted {
				what = "delete-of-already-deleted-document"
			}
			e.r.Violate("write-panic/"+what+"/"+tw.tag+"/"+qsem.PanicSig(pn), "a local write panicked: "+qsem.FirstLine(pn), map[string]any{"op": op, "twin": tw.tag, "stack": pn})
			outcome[i] = "panic"
		case err != nil:
			outcome[i] = "error"
		case gqlErr != "":
			outcome[i] = "error"
		default:
			outcome[i] = "ok"
		}
	}
	if outcome[0] != outcome[1] {
		e.r.Violate("twin/write-outcome-differs/"+op.Kind, fmt.Sprintf("the same write ends differently on the twins: plain=%s indexed=%s", outcome[0], outcome[1]), map[string]any{"op": op})
	}
	if op.Kind == "delete" && d.Deleted {
		e.r.Count("double_deletes_applied", 1)
	}
	if outcome[0] != "ok" {
		if op.Kind == "relink" && !e.topo.Rels[0].Many && op.To != "" {
			e.r.Count("one_to_one_duplicate_link_rejected", 1)
			e.stats.rejectedDup++
		}
		return false
	}
	switch op.Kind {
	case "create":
		if newID[0] != newID[1] {
			e.r.Violate("twin/docid-differs", "the same document gets different docIDs on the twins", map[string]any{"op": op, "ids": newID})
		}
		e.docs[op.Col] = append(e.docs[op.Col], &c09Doc{Name: op.Doc, ID: newID[0], Val: op.Val, To: op.To})
	case "relink":
		d.To = op.To
		e.stats.relinks++
		e.r.Count("relinks_applied", 1)
	case "setval":
		d.Val = op.Val
	case "delete":
		d.Deleted = true
		e.stats.deletes++
	}
	return true
}

// ---------------------------------------------------------------------------------------
// reading the relation

type c09Answer struct {
	ok      bool
	flagged bool   // the twin's own oracle already reported this answer
	canon   string // canonical rendering for the twin comparison
}

func idOf(v any) string {
	m, _ := v.(map[string]any)
	if m == nil {
		return ""
	}
	s, _ := m["_docID"].(string)
	return s
}

func edgesStr(es []string) string {
	es = qsem.SortedCopy(es)
	return strings.Join(es, ",")
}

func (e *c09env) live(col string) []*c09Doc {
	var out []*c09Doc
	for _, d := range e.docs[col] {
		if !d.Deleted {
			out = append(out, d)
		}
	}
	return out
}

// modelEdges: (parentID>childID) for live children whose link points to a live parent.
func (e *c09env) modelEdges(rel c09Rel) []string {
	var es []string
	for _, c := range e.live(rel.CCol) {
		if c.To == "" {
			continue
		}
		if p := e.doc(rel.PCol, c.To); p != nil && !p.Deleted {
			es = append(es, p.ID+">"+c.ID)
		}
	}
	return es
}

func (e *c09env) checkAll(when string, history []c09Op) {
	for _, rel := range e.topo.Rels {
		kind := "one"
		if rel.Many {
			kind = "many"
		}
		answers := [2]map[string]*c09Answer{{}, {}}
		var order []string
		for ti, tw := range e.twins {
			ans := answers[ti]
			viol := func(qid, sig, msg string, detail map[string]any) {
				detail["when"], detail["twin"], detail["history"], detail["relation"], detail["relation_kind"], detail["query"] = when, tw.tag, history, rel, kind, qid
				e.r.Violate(sig+"/"+tw.tag, msg, detail)
				if a := ans[qid]; a != nil {
					a.flagged = true
				}
			}
			run := func(qid, req, top string) ([]map[string]any, bool) {
				if ti == 0 {
					order = append(order, qid)
				}
				res := tw.ex.Do(req)
				a := &c09Answer{}
				ans[qid] = a
				if res.Panic != "" || res.Hang {
					a.flagged = true
					return nil, false
				}
				if len(res.Errs) > 0 {
					a.canon = "ERR " + res.Errs[0]
					a.ok = true
					viol(qid, "valid-request-rejected", "a well-formed relation query was answered with an error: "+res.Errs[0], map[string]any{"request": req})
					return nil, false
				}
				rows := res.Rows(top)
				a.ok = true
				rs := make([]string, 0, len(rows))
				for _, row := range rows {
					rs = append(rs, core.Canon(row))
				}
				if !strings.Contains(qid, "order") {
					sort.Strings(rs)
				}
				a.canon = strings.Join(rs, ";")
				return rows, true
			}
			fk := rel.CtoP + "_id"
			// ground truth from the plain dump
			crow, ok1 := run("dump-child", fmt.Sprintf(`query { %s { _docID %s %s } }`, rel.CCol, fk, rel.CVal), rel.CCol)
			prow, ok2 := run("dump-parent", fmt.Sprintf(`query { %s { _docID %s } }`, rel.PCol, rel.PVal), rel.PCol)
			if !ok1 || !ok2 {
				continue
			}
			pval, cval, cfk := map[string]int64{}, map[string]int64{}, map[string]string{}
			liveP := map[string]bool{}
			for _, p := range prow {
				id := p["_docID"].(string)
				liveP[id] = true
				f, _ := qsem.ToFloat(p[rel.PVal])
				pval[id] = int64(f)
			}
			var ground []string
			children := map[string][]string{} // parent -> children
			var allC []string
			for _, c := range crow {
				id := c["_docID"].(string)
				allC = append(allC, id)
				f, _ := qsem.ToFloat(c[rel.CVal])
				cval[id] = int64(f)
				if p, _ := c[fk].(string); p != "" {
					cfk[id] = p
					if liveP[p] {
						ground = append(ground, p+">"+id)
						children[p] = append(children[p], id)
					}
				}
			}
			for _, cs := range children {
				if len(cs) > e.stats.maxChildren {
					e.stats.maxChildren = len(cs)
				}
			}
			e.r.Count("edge_set_comparisons", 1)
			if edgesStr(ground) != edgesStr(e.modelEdges(rel)) {
				viol("dump-child", "edges/dump-differs-from-the-history", "the links read from the plain field dump are not those the successful writes produced",
					map[string]any{"dump_edges": qsem.SortedCopy(ground), "model_edges": qsem.SortedCopy(e.modelEdges(rel))})
				continue
			}
			// one-to-one: a link value is held by at most one live document
			if !rel.Many {
				e.r.Count("one_to_one_link_invariant_checks", 1)
				holders := map[string][]string{}
				for c, p := range cfk {
					holders[p] = append(holders[p], c)
				}
				for p, hs := range holders {
					if len(hs) > 1 {
						viol("dump-child", "one-to-one/link-held-by-two-live-documents", "after local writes two live documents hold the same one-to-one link",
							map[string]any{"link": p, "holders": hs})
					}
				}
			}
			// 1. parent side
			if rows, ok := run("parent-side", fmt.Sprintf(`query { %s { _docID %s { _docID } } }`, rel.PCol, rel.PtoC), rel.PCol); ok {
				var es []string
				for _, p := range rows {
					if rel.Many {
						l, _ := p[rel.PtoC].([]any)
						for _, c := range l {
							es = append(es, p["_docID"].(string)+">"+idOf(c))
						}
					} else if c := idOf(p[rel.PtoC]); c != "" {
						es = append(es, p["_docID"].(string)+">"+c)
					}
				}
				if edgesStr(es) != edgesStr(ground) {
					viol("parent-side", "edges/parent-side-differs-from-child-fields", "Parent{children} lists a document whose relation field does not point to that parent, or omits one that does",
						map[string]any{"parent_side": qsem.SortedCopy(es), "ground": qsem.SortedCopy(ground)})
				}
			}
			// 2. child side
			if rows, ok := run("child-side", fmt.Sprintf(`query { %s { _docID %s { _docID } } }`, rel.CCol, rel.CtoP), rel.CCol); ok {
				var es []string
				for _, c := range rows {
					if p := idOf(c[rel.CtoP]); p != "" {
						es = append(es, p+">"+c["_docID"].(string))
					}
				}
				if edgesStr(es) != edgesStr(ground) {
					viol("child-side", "edges/child-side-differs-from-child-fields", "Child{parent} disagrees with the child's own relation field joined with the live parents",
						map[string]any{"child_side": qsem.SortedCopy(es), "ground": qsem.SortedCopy(ground)})
				}
			}
			// 3. foreign-key filter, for every live parent
			var fkEdges []string
			okAll := true
			for _, p := range e.live(rel.PCol) {
				rows, ok := run("fk-filter/"+p.Name, fmt.Sprintf(`query { %s(filter: {%s: {_eq: "%s"}}) { _docID } }`, rel.CCol, fk, p.ID), rel.CCol)
				if !ok {
					okAll = false
					continue
				}
				for _, c := range rows {
					fkEdges = append(fkEdges, p.ID+">"+c["_docID"].(string))
				}
			}
			if okAll && edgesStr(fkEdges) != edgesStr(ground) {
				viol("fk-filter", "edges/foreign-key-filter-differs-from-child-fields", "Child(filter: {parent_id: {_eq: p}}) over all live parents disagrees with the children's relation fields",
					map[string]any{"fk_filter": qsem.SortedCopy(fkEdges), "ground": qsem.SortedCopy(ground)})
			}
			// 4. filters through the relation, both sides
			for v := int64(0); v < 3; v++ {
				e.r.Count("filter_through_relation_checks", 1)
				var want []string
				for c, p := range cfk {
					if liveP[p] && pval[p] == v {
						want = append(want, c)
					}
				}
				qid := fmt.Sprintf("filter-child-by-parent/_eq/%d", v)
				rows, ok := run(qid, fmt.Sprintf(`query { %s(filter: {%s: {%s: {_eq: %d}}}) { _docID } }`, rel.CCol, rel.CtoP, rel.PVal, v), rel.CCol)
				childSide := qsem.IDs(rows, "_docID")
				for i := range childSide {
					childSide[i] = strings.Trim(childSide[i], `"`)
				}
				if ok && !qsem.SameMultiset(childSide, want) {
					viol(qid, "filter-through-relation/child-side/differs-from-child-fields", "Child(filter: {parent: {field: {_eq: v}}}) is not the set of children whose parent has that value",
						map[string]any{"value": v, "got": qsem.SortedCopy(childSide), "want": qsem.SortedCopy(want)})
				}
				qid = fmt.Sprintf("children-of-filtered-parent/%d", v)
				if rows, ok2 := run(qid, fmt.Sprintf(`query { %s(filter: {%s: {_eq: %d}}) { _docID %s { _docID } } }`, rel.PCol, rel.PVal, v, rel.PtoC), rel.PCol); ok2 && ok {
					var parentSide []string
					for _, p := range rows {
						if rel.Many {
							l, _ := p[rel.PtoC].([]any)
							for _, c := range l {
								parentSide = append(parentSide, idOf(c))
							}
						} else if c := idOf(p[rel.PtoC]); c != "" {
							parentSide = append(parentSide, c)
						}
					}
					if !qsem.SameMultiset(parentSide, childSide) && qsem.SameMultiset(childSide, want) {
						viol(qid, "filter-through-relation/two-sides-disagree", "the children of Parent(filter: {field: {_eq: v}}) differ from Child(filter: {parent: {field: {_eq: v}}})",
							map[string]any{"value": v, "parent_side": qsem.SortedCopy(parentSide), "child_side": qsem.SortedCopy(childSide)})
					}
				}
				// parents filtered by a child's value
				var wantP []string
				for p, cs := range children {
					for _, c := range cs {
						if cval[c] == v {
							wantP = append(wantP, p)
							break
						}
					}
				}
				qid = fmt.Sprintf("filter-parent-by-child/_eq/%d", v)
				if rows, ok := run(qid, fmt.Sprintf(`query { %s(filter: {%s: {%s: {_eq: %d}}}) { _docID } }`, rel.PCol, rel.PtoC, rel.CVal, v), rel.PCol); ok {
					got := qsem.IDs(rows, "_docID")
					for i := range got {
						got[i] = strings.Trim(got[i], `"`)
					}
					if !qsem.SameMultiset(got, wantP) {
						viol(qid, "filter-through-relation/parent-side/differs-from-child-fields", "Parent(filter: {children: {field: {_eq: v}}}) is not the set of parents that have such a child",
							map[string]any{"value": v, "got": qsem.SortedCopy(got), "want": qsem.SortedCopy(wantP)})
					}
				}
			}
			// other operators: judged on children that have a live parent, the rest only via the twin
			for _, opv := range []struct{ op, val string }{{"_ne", "1"}, {"_gt", "0"}, {"_le", "1"}, {"_in", "[0, 2]"}, {"_nin", "[1]"}} {
				qid := "filter-child-by-parent/" + opv.op
				rows, ok := run(qid, fmt.Sprintf(`query { %s(filter: {%s: {%s: {%s: %s}}}) { _docID } }`, rel.CCol, rel.CtoP, rel.PVal, opv.op, opv.val), rel.CCol)
				if !ok {
					continue
				}
				e.r.Count("filter_through_relation_checks", 1)
				got := map[string]bool{}
				for _, row := range rows {
					got[row["_docID"].(string)] = true
				}
				for c, p := range cfk {
					if !liveP[p] {
						continue
					}
					v := pval[p]
					var want bool
					switch opv.op {
					case "_ne":
						want = v != 1
					case "_gt":
						want = v > 0
					case "_le":
						want = v <= 1
					case "_in":
						want = v == 0 || v == 2
					case "_nin":
						want = v != 1
					}
					if got[c] != want {
						viol(qid, "filter-through-relation/child-side/differs-from-child-fields", "a child with a live parent is wrongly included in / excluded from Child(filter: {parent: {field: {"+opv.op+": ..}}})",
							map[string]any{"child": c, "parent_value": v, "returned": got[c]})
						break
					}
				}
			}
			// 5. aggregates over the relation
			if rel.Many {
				e.r.Count("count_over_relation_checks", 1)
				if rows, ok := run("count", fmt.Sprintf(`query { %s { _docID _count(%s: {}) fc: _count(%s: {filter: {%s: {_eq: 1}}}) _sum(%s: {field: %s}) } }`, rel.PCol, rel.PtoC, rel.PtoC, rel.CVal, rel.PtoC, rel.CVal), rel.PCol); ok {
					for _, p := range rows {
						id := p["_docID"].(string)
						var n, n1, sum int64
						for _, c := range children[id] {
							n++
							sum += cval[c]
							if cval[c] == 1 {
								n1++
							}
						}
						if !qsem.NumEq(p["_count"], float64(n)) || !qsem.NumEq(p["fc"], float64(n1)) || !qsem.NumEq(p["_sum"], float64(sum)) {
							viol("count", "aggregate-over-relation/differs-from-child-fields", "_count / filtered _count / _sum over the children differ from the group counts of the child dump",
								map[string]any{"parent": id, "returned": p, "want_count": n, "want_filtered_count": n1, "want_sum": sum})
							break
						}
					}
				}
				// filtered / limited sub-selection
				if rows, ok := run("sub-filter", fmt.Sprintf(`query { %s { _docID %s(filter: {%s: {_ne: 1}}) { _docID } } }`, rel.PCol, rel.PtoC, rel.CVal), rel.PCol); ok {
					for _, p := range rows {
						id := p["_docID"].(string)
						var want, got []string
						for _, c := range children[id] {
							if cval[c] != 1 {
								want = append(want, c)
							}
						}
						l, _ := p[rel.PtoC].([]any)
						for _, c := range l {
							got = append(got, idOf(c))
						}
						if !qsem.SameMultiset(got, want) {
							viol("sub-filter", "sub-selection-filter/differs-from-child-fields", "Parent{children(filter: ..)} is not the filtered set of that parent's children",
								map[string]any{"parent": id, "got": got, "want": want})
							break
						}
					}
				}
			}
			// 6. order through the relation
			for _, dir := range []string{"ASC", "DESC"} {
				e.r.Count("order_through_relation_checks", 1)
				qid := "order-child-by-parent/" + dir
				rows, ok := run(qid, fmt.Sprintf(`query { %s(order: {%s: {%s: %s}}) { _docID %s { %s } } }`, rel.CCol, rel.CtoP, rel.PVal, dir, rel.CtoP, rel.PVal), rel.CCol)
				if !ok {
					continue
				}
				got := make([]string, 0, len(rows))
				for _, row := range rows {
					got = append(got, row["_docID"].(string))
				}
				if !qsem.SameMultiset(got, allC) {
					viol(qid, "order-through-relation/not-a-permutation", "Child(order: {parent: {field: DIR}}) is not a permutation of the unordered listing (documents are lost or duplicated)",
						map[string]any{"ordered": got, "unordered": qsem.SortedCopy(allC)})
					continue
				}
				keys := []qsem.OrderKey{{Path: []string{rel.CtoP, rel.PVal}, Kind: qsem.KInt, Desc: dir == "DESC"}}
				if sym, at, _ := qsem.CheckSorted(rows, keys); sym != qsem.SortOK {
					viol(qid, "order-through-relation/"+sym, "Child(order: {parent: {field: DIR}}) is not sorted by the parent's field", map[string]any{"rows": rows, "at": at})
				}
				// the twin comparison of an ordered answer looks at the key sequence only (ties may permute)
				var ks []string
				for _, row := range rows {
					ks = append(ks, qsem.KeyTuple(row, keys))
				}
				ans[qid].canon = strings.Join(ks, ";")
			}
		}
		// twin comparison, query by query
		for _, qid := range order {
			a, b := answers[0][qid], answers[1][qid]
			if a == nil || b == nil || !a.ok || !b.ok {
				continue
			}
			e.r.Count("twin_comparisons", 1)
			if a.canon != b.canon && !a.flagged && !b.flagged {
				class := qid
				if i := strings.Index(qid, "/"); i > 0 {
					class = qid[:i]
				}
				e.r.Violate("twin/"+class+"/indexed-differs-from-plain", "the same relation query is answered differently with and without indexes on the foreign key / filtered field",
					map[string]any{"query": qid, "plain": a.canon, "indexed": b.canon, "when": when, "history": history, "relation": rel, "relation_kind": kind})
			}
		}
	}
	if e.topo.Name == "two-hops" {
		e.twoHops(when, history)
	}
}

// twoHops: A -> B -> C read from the top and from the bottom.
func (e *c09env) twoHops(when string, history []c09Op) {
	var canon [2][]string
	for ti, tw := range e.twins {
		top := tw.ex.Do(`query { A { _docID bs { _docID cs { _docID } } } }`)
		bottom := tw.ex.Do(`query { C { _docID b { _docID a { _docID } } } }`)
		if !top.OK() || !bottom.OK() {
			continue
		}
		var fromTop, fromBottom []string
		for _, a := range top.Rows("A") {
			bs, _ := a["bs"].([]any)
			for _, b := range bs {
				cs, _ := b.(map[string]any)["cs"].([]any)
				for _, c := range cs {
					fromTop = append(fromTop, a["_docID"].(string)+">"+idOf(b)+">"+idOf(c))
				}
			}
		}
		for _, c := range bottom.Rows("C") {
			b, _ := c["b"].(map[string]any)
			if b == nil {
				continue
			}
			if a := idOf(b["a"]); a != "" {
				fromBottom = append(fromBottom, a+">"+idOf(b)+">"+c["_docID"].(string))
			}
		}
		e.r.Count("two_hop_path_comparisons", 1)
		if edgesStr(fromTop) != edgesStr(fromBottom) {
			e.r.Violate("edges/two-hops/top-down-differs-from-bottom-up/"+tw.tag, "A{bs{cs}} and C{b{a}} disagree on the two-hop paths",
				map[string]any{"top_down": qsem.SortedCopy(fromTop), "bottom_up": qsem.SortedCopy(fromBottom), "when": when, "history": history})
		}
		// filter two hops away from both ends
		for v := 0; v < 3; v++ {
			r1 := tw.ex.Do(fmt.Sprintf(`query { C(filter: {b: {a: {v: {_eq: %d}}}}) { _docID } }`, v))
			r2 := tw.ex.Do(fmt.Sprintf(`query { A(filter: {v: {_eq: %d}}) { bs { cs { _docID } } } }`, v))
			if !r1.OK() || !r2.OK() {
				continue
			}
			x := qsem.IDs(r1.Rows("C"), "_docID")
			var y []string
			for _, a := range r2.Rows("A") {
				bs, _ := a["bs"].([]any)
				for _, b := range bs {
					cs, _ := b.(map[string]any)["cs"].([]any)
					for _, c := range cs {
						y = append(y, `"`+idOf(c)+`"`)
					}
				}
			}
			e.r.Count("filter_through_relation_checks", 1)
			if !qsem.SameMultiset(x, y) {
				e.r.Violate("filter-through-relation/two-hops/two-sides-disagree/"+tw.tag, "C(filter: {b: {a: {v: {_eq: x}}}}) differs from the grand-children of A(filter: {v: {_eq: x}})",
					map[string]any{"value": v, "bottom_up": qsem.SortedCopy(x), "top_down": qsem.SortedCopy(y), "when": when, "history": history})
			}
			canon[ti] = append(canon[ti], strings.Join(qsem.SortedCopy(x), ","))
			r3 := tw.ex.Do(fmt.Sprintf(`query { A(filter: {bs: {cs: {x: {_eq: %d}}}}) { _docID } }`, v))
			if r3.OK() {
				canon[ti] = append(canon[ti], strings.Join(qsem.SortedCopy(qsem.IDs(r3.Rows("A"), "_docID")), ","))
			}
		}
	}
	if len(canon[0]) == len(canon[1]) {
		for i := range canon[0] {
			e.r.Count("twin_comparisons", 1)
			if canon[0][i] != canon[1][i] {
				e.r.Violate("twin/two-hop-filter/indexed-differs-from-plain", "a two-hop filter is answered differently with and without indexes",
					map[string]any{"plain": canon[0][i], "indexed": canon[1][i], "when": when, "history": history})
				break
			}
		}
	}
}

// findKey: depth-first search for the first value stored under key.
func findKey(v any, key string) (any, bool) {
	switch x := v.(type) {
	case map[string]any:
		if r, ok := x[key]; ok {
			return r, true
		}
		ks := make([]string, 0, len(x))
		for k := range x {
			ks = append(ks, k)
		}
		sort.Strings(ks)
		for _, k := range ks {
			if r, ok := findKey(x[k], key); ok {
				return r, true
			}
		}
	case []any:
		for _, el := range x {
			if r, ok := findKey(el, key); ok {
				return r, true
			}
		}
	}
	return nil, false
}

// explainProbe: at the end of a history, ask both twins for the simple explain of the queries that
// can be inverted, and count the plans in which the indexed twin really took the inverted route
// (filter: the sub-type scan node carries the relation's field filter; order: the order node is gone).
func (e *c09env) explainProbe() {
	rel := e.topo.Rels[0]
	subScanFilter := func(tw *c09Twin, req string) (has, ok bool) {
		res := tw.ex.Do(req)
		if !res.OK() {
			return false, false
		}
		sub, found := findKey(res.Data, "subType")
		if !found {
			return false, true
		}
		scan, found := findKey(sub, "scanNode")
		if !found {
			return false, true
		}
		m, _ := scan.(map[string]any)
		return m != nil && m["filter"] != nil, true
	}
	for _, q := range []string{
		fmt.Sprintf(`query @explain { %s(filter: {%s: {%s: {_eq: 1}}}) { _docID } }`, rel.CCol, rel.CtoP, rel.PVal),
		fmt.Sprintf(`query @explain { %s(filter: {%s: {%s: {_eq: 1}}}) { _docID } }`, rel.PCol, rel.PtoC, rel.CVal),
	} {
		ph, ok1 := subScanFilter(e.twins[0], q)
		xh, ok2 := subScanFilter(e.twins[1], q)
		if ok1 && ok2 && xh && !ph {
			e.r.Count("inverted_join_plans_by_filter", 1)
		}
	}
	q := fmt.Sprintf(`query @explain { %s(order: {%s: {%s: ASC}}) { _docID } }`, rel.CCol, rel.CtoP, rel.PVal)
	p, x := e.twins[0].ex.Do(q), e.twins[1].ex.Do(q)
	if p.OK() && x.OK() {
		_, po := findKey(p.Data, "orderNode")
		_, xo := findKey(x.Data, "orderNode")
		if po && !xo {
			e.r.Count("inverted_join_plans_by_order", 1)
		}
	}
}
