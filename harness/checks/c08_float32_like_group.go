package checks

import (
	"context"
	"encoding/json"
	"fmt"
	"hash/fnv"
	"math/rand/v2"
	"os"
	"regexp"
	"sort"
	"strconv"
	"strings"

	"github.com/sourcenetwork/defradb/verifharness/core"
	"github.com/sourcenetwork/defradb/verifharness/qsem"
)

// C08, case kind "f32-like-group": a dedicated small collection W for the parts of the query
// language that the data sets of qsem.SDL do not reach:
//
//	Float32            a Float32 field / [Float32] / [Float32!] array holds the same
//	                   (float32-representable) values as a Float twin field of the same document: every
//	                   filter and every aggregate answers the same on both, and equals the arithmetic /
//	                   the documented _any/_all/_none semantics over the listed values
//	_like family       `%` stands for any (possibly empty) sequence of characters, everything else is
//	                   literal, _ilike/_nilike ignore case, _nlike/_nilike are the complement among the
//	                   non-null strings; the same pattern is put to a plain field (scan path) and to an
//	                   indexed field holding the same string (index-served path)
//	_group slices      limit/offset inside _group cut the slice [offset, offset+limit) of the member
//	                   list of every group (offset alone: everything from offset on), whether or not the
//	                   groups themselves are ordered
//	groupBy keys       groups partition the listing, members share the group's key and two groups never
//	                   share a key - over values chosen to collide under careless key building (null and
//	                   "<nil>", JSON 1 and "1", true and "true", ("a_N_b","c") and ("a","b_N_c"))
const c08xSDL = `type W { k: Int  g: Int  x: Float32  xf: Float  a: [Float32]  af: [Float]  b: [Float32!]  bf: [Float!]  s: String  si: String @index  p: String  q: String  j: JSON }`

var c08xFloors = []string{
	"f32_array_filter_checks", "f32_array_filter_reference_rows_judged", "f32_array_any_none_complement_checks", "f32_scalar_filter_checks",
	"f32_agg_field_values_judged", "f32_agg_field__max_over_two_or_more_values", "f32_agg_array_values_judged", "f32_agg_array_inner_filter_judged",
	"like_rows_judged_scan", "like_rows_judged_index", "like_index_served_verified", "like_pattern_lone-wildcard", "like_pattern_single-inner-wildcard",
	"like_pattern_several-wildcards", "like_pattern_leading-or-trailing-wildcard", "like_value_shorter_than_prefix_plus_suffix", "like_case_insensitive_inner_wildcard_on_index",
	"group_member_slice_offset-only", "group_member_slice_limit-only", "group_member_slice_limit-and-offset", "group_member_slice_shorter_than_member_list",
	"group_member_slice_groups_ordered", "group_key_checks", "group_key_null_next_to_nil_string", "group_key_json_values_of_different_types", "group_key_two_keys_with_separator_in_value",
}

// numbers that a float32 holds exactly (their JSON text is the same for both widths)
var c08xNums = []float64{-1.5, 0, 0.5, 1.5, 2, 2.5}
var c08xStrs = []string{"abc", "abbc", "ab", "bc", "abcbc", "hello world", "HeLLo WorLD", "hold", "held", "%", "a%c", "", "ABBC", "world"}

// c08xSepIndexes: numbers embedded in the adversarial group values ("a_N_b"); the anchor tries all of them.
var c08xSepIndexes = []int{0, 1, 2, 3, 4, 5, 6, 7, 8, 9, 10, 11, 12, 13, 14, 15, 16, 17, 18, 19, 20}

type c08xDoc map[string]any // field -> nil | int64 | float64 | string | bool | []any

func c08xLit(v any) string {
	switch x := v.(type) {
	case nil:
		return "null"
	case string:
		return strconv.Quote(x)
	case float64:
		s := strconv.FormatFloat(x, 'f', -1, 64)
		if !strings.Contains(s, ".") {
			s += ".0"
		}
		return s
	case int64:
		return strconv.FormatInt(x, 10)
	case int:
		return strconv.Itoa(x)
	case bool:
		return strconv.FormatBool(x)
	case []any:
		var ps []string
		for _, e := range x {
			ps = append(ps, c08xLit(e))
		}
		return "[" + strings.Join(ps, ", ") + "]"
	}
	panic(fmt.Sprintf("c08xLit: %T", v))
}

var c08xFields = []string{"k", "g", "x", "xf", "a", "af", "b", "bf", "s", "si", "p", "q", "j"}

func (d c08xDoc) input() string {
	var ps []string
	for _, f := range c08xFields {
		if v, ok := d[f]; ok && v != nil {
			ps = append(ps, f+": "+c08xLit(v))
		}
	}
	return "{" + strings.Join(ps, ", ") + "}"
}

// mk fills the twin fields: xf = x, af = a, bf = b, si = s.
func c08xMk(k int, g, x, a, b, s, p, q, j any) c08xDoc {
	return c08xDoc{"k": int64(k), "g": g, "x": x, "xf": x, "a": a, "af": a, "b": b, "bf": b, "s": s, "si": s, "p": p, "q": q, "j": j}
}

func c08xAnchorValues() []c08xDoc {
	return []c08xDoc{
		c08xMk(0, int64(1), 1.5, []any{1.5, nil, 2.5}, []any{1.5, 2.5}, "abc", "<nil>", "c", int64(1)),
		c08xMk(1, int64(1), 2.5, []any{0.5}, []any{}, "abbc", nil, "c", "1"),
		c08xMk(2, int64(1), nil, nil, nil, "hello world", "a", nil, true),
		c08xMk(3, int64(2), 0.5, []any{}, []any{2.0, 2.0, -1.5}, "HeLLo WorLD", "a", "<nil>", "true"),
		c08xMk(4, int64(1), -1.5, []any{2.0, 2.5, 0.0}, []any{0.5}, "%", nil, nil, nil),
		c08xMk(5, nil, 2.0, []any{nil}, nil, nil, "<nil>", "c", int64(1)),
		c08xMk(6, int64(2), 2.5, []any{2.5, 2.5}, []any{2.5}, "hold", "", "", "<nil>"),
		c08xMk(7, int64(1), 0.0, []any{-1.5, 1.5}, []any{1.5, 0.0, 2.5, 0.5}, "ab", "a", "c", int64(2)),
	}
}

func c08xAnchorKeys() []c08xDoc {
	ds := []c08xDoc{
		c08xMk(0, int64(0), nil, nil, nil, nil, "<nil>", "c", int64(1)), c08xMk(1, int64(0), nil, nil, nil, nil, nil, "c", "1"),
		c08xMk(2, int64(1), nil, nil, nil, nil, nil, "c", true), c08xMk(3, int64(1), nil, nil, nil, nil, "<nil>", "c", "true"),
	}
	for _, n := range c08xSepIndexes {
		ds = append(ds, c08xMk(len(ds), int64(n%3), nil, nil, nil, nil, fmt.Sprintf("a_%d_b", n), "c", nil))
		ds = append(ds, c08xMk(len(ds), int64(n%3), nil, nil, nil, nil, "a", fmt.Sprintf("b_%d_c", n), nil))
	}
	return ds
}

func c08xGen(rng *rand.Rand, n int) []c08xDoc {
	orNull := func(v any) any {
		if rng.IntN(4) == 0 {
			return nil
		}
		return v
	}
	num := func() any { return c08xNums[rng.IntN(len(c08xNums))] }
	arr := func(nullable bool) any {
		if rng.IntN(6) == 0 {
			return nil
		}
		out := []any{}
		for i, l := 0, rng.IntN(5); i < l; i++ {
			if nullable && rng.IntN(5) == 0 {
				out = append(out, nil)
			} else {
				out = append(out, num())
			}
		}
		return out
	}
	// one number per data set is embedded in the values, so that pairs can collide: ("a_N_b","c") and ("a","b_N_c") for
	// groupBy: [p, q], ("c_N_a","b") and ("c","a_N_b") for groupBy: [q, p]; 9 and 10 are the positions of p and q in W
	sep := []int{9, 10, 9, 10, c08xSepIndexes[rng.IntN(len(c08xSepIndexes))]}[rng.IntN(5)]
	var ds []c08xDoc
	for k := 0; k < n; k++ {
		p := []any{"<nil>", "a", fmt.Sprintf("a_%d_b", sep), "", "b", "a"}[rng.IntN(6)]
		q := []any{"c", fmt.Sprintf("b_%d_c", sep), "<nil>", "c", fmt.Sprintf("c_%d_a", sep)}[rng.IntN(5)]
		j := []any{int64(1), "1", true, "true", int64(2), "<nil>"}[rng.IntN(6)]
		ds = append(ds, c08xMk(k, orNull(int64(rng.IntN(3))), orNull(num()), arr(true), arr(false), orNull(c08xStrs[rng.IntN(len(c08xStrs))]), orNull(p), orNull(q), orNull(j)))
	}
	return ds
}

type c08xEnv struct {
	ex   *qsem.Exec
	r    *core.Rec
	rng  *rand.Rand
	docs []c08xDoc
	byK  map[string]c08xDoc
	all  []string
	sig  string
}

func c08RunF32LikeGroup(ctx context.Context, c core.Case, p c08Params, r *core.Rec) {
	rng := c.Rng()
	var docs []c08xDoc
	switch p.Anchor {
	case "values":
		docs = c08xAnchorValues()
	case "group-keys":
		docs = c08xAnchorKeys()
	default:
		docs = c08xGen(rng, p.NU)
	}
	n := core.NewNode(ctx, core.NodeOpts{})
	defer n.Close()
	_, err := n.DB.AddSchema(ctx, c08xSDL)
	core.Must(err)
	e := &c08xEnv{ex: &qsem.Exec{Ctx: ctx, N: n, R: r, Kind: c.Kind}, r: r, rng: rng, docs: docs, byK: map[string]c08xDoc{}}
	for _, d := range docs { // one request per document: creation order = k
		res := e.ex.Do(fmt.Sprintf(`mutation { create_W(input: %s) { _docID } }`, d.input()))
		if !res.OK() {
			if res.Panic == "" && !res.Hang {
				r.Violate("valid-request-rejected/create", "creating a document of the test collection was answered with an error: "+res.Err(), map[string]any{"document": d, "errors": res.Errs})
			}
			return
		}
		k := fmt.Sprint(d["k"])
		e.all = append(e.all, k)
		e.byK[k] = d
	}
	e.sig = fmt.Sprintf("W%d/%s", len(docs), p.Anchor)
	if p.Anchor == "" {
		b, _ := json.Marshal(docs)
		h := fnv.New64a()
		_, _ = h.Write(b)
		e.sig = fmt.Sprintf("W%d/%x", len(docs), h.Sum64())
	}
	r.Count("f32_like_group_data_sets", 1)
	if dbg := c08DebugQueries(); dbg != nil {
		for _, q := range dbg {
			res := e.ex.Do(q)
			fmt.Printf("DEBUG %s\n   -> %s %v\n", q, core.Canon(res.Data), res.Errs)
		}
		return
	}
	if !e.dumpCheck() {
		return
	}
	e.likeIndexServed()
	switch p.Anchor {
	case "values":
		e.anchorValues()
	case "group-keys":
		for _, keys := range [][]string{{"p"}, {"j"}, {"p", "j"}} {
			e.groupKeys(keys, "")
		}
		for _, keys := range [][]string{{"p", "q"}, {"q", "p"}, {"g", "p", "q"}} { // only the documents with the ("a_N_b","c") / ("a","b_N_c") pairs
			e.groupKeys(keys, "filter: {k: {_ge: 4}}")
		}
	}
	for q := 0; q < p.Queries && !e.ex.Hung; q++ {
		r.Count("evaluations", 1)
		switch x := rng.IntN(100); {
		case x < 22:
			e.f32Filter()
		case x < 50:
			e.like("")
		case x < 66:
			e.groupSlice("", -1, -1)
		case x < 84:
			e.f32Agg()
		default:
			e.groupKeys(nil)
		}
	}
	if c.Index%8 == 0 {
		r.Sample(map[string]any{"kind": c.Kind, "documents": len(docs), "first_documents": docs[:min(3, len(docs))]})
	}
}

// c08DebugQueries: development aid for --replay (C08_DEBUG_QUERIES="q1;;q2": run these on the case's data set).
func c08DebugQueries() []string {
	if dbg := os.Getenv("C08_DEBUG_QUERIES"); dbg != "" {
		return strings.Split(dbg, ";;")
	}
	return nil
}

func (e *c08xEnv) query(class, req string) (qsem.Result, bool) {
	res := e.ex.Do(req)
	if res.Panic != "" || res.Hang {
		return res, false
	}
	if len(res.Errs) > 0 {
		e.r.Violate("valid-request-rejected/"+class, "a generated well-formed "+class+" request was answered with an error: "+res.Errs[0], map[string]any{"request": req, "errors": res.Errs})
		return res, false
	}
	return res, true
}

func (e *c08xEnv) ks(class, req string) ([]string, bool) {
	res, ok := e.query(class, req)
	if !ok {
		return nil, false
	}
	return qsem.IDs(res.Rows("W"), "k"), true
}

func (e *c08xEnv) nontrivial(skel string, n int, force bool) {
	if force || (n > 0 && n < len(e.all)) {
		e.r.Nontrivial(skel + "#" + e.sig)
	}
}

func c08xCanon(v any) string {
	b, _ := json.Marshal(v)
	return string(b)
}

// same value: numbers by value (json.Number from the answer, float64/int64 from the generator), all else by JSON text
func c08xSame(got, want any) bool {
	if g, ok := c08Num(got); ok {
		w, ok2 := c08Num(want)
		return ok2 && g == w
	}
	if ga, ok := got.([]any); ok {
		wa, ok2 := want.([]any)
		if !ok2 || len(ga) != len(wa) {
			return false
		}
		for i := range ga {
			if !c08xSame(ga[i], wa[i]) {
				return false
			}
		}
		return true
	}
	return c08xCanon(got) == c08xCanon(want)
}

func (e *c08xEnv) dumpCheck() bool {
	res, ok := e.query("listing", `query { W { k g x xf a af b bf s si p q j } }`)
	if !ok {
		return false
	}
	rows := res.Rows("W")
	bad := len(rows) != len(e.docs)
	for _, row := range rows {
		d := e.byK[fmt.Sprint(row["k"])]
		if d == nil {
			bad = true
			continue
		}
		for _, f := range c08xFields {
			if !c08xSame(row[f], d[f]) {
				bad = true
			}
		}
	}
	if bad {
		e.r.Violate("listing/differs-from-created-documents", "the unfiltered listing does not return the documents that were created", map[string]any{"created": e.docs, "listed": rows})
		return false
	}
	return true
}

// ---------------------------------------------------------------------------------------
// Float32 filters

func c08xCmpHolds(cmp string, v, c float64) bool {
	switch cmp {
	case "_eq":
		return v == c
	case "_ne":
		return v != c
	case "_gt":
		return v > c
	case "_ge":
		return v >= c
	case "_lt":
		return v < c
	}
	return v <= c
}

var c08xCmps = []string{"_eq", "_ne", "_gt", "_ge", "_lt", "_le"}

func (e *c08xEnv) f32Filter() {
	if e.rng.IntN(4) == 0 {
		e.f32ScalarFilter(c08xCmps[e.rng.IntN(len(c08xCmps))], c08xNums[e.rng.IntN(len(c08xNums))])
		return
	}
	pair := [][2]string{{"a", "af"}, {"b", "bf"}}[e.rng.IntN(2)]
	var c any = c08xNums[e.rng.IntN(len(c08xNums))]
	cmp := c08xCmps[e.rng.IntN(len(c08xCmps))]
	if pair[0] == "a" && e.rng.IntN(6) == 0 {
		c, cmp = nil, c08xCmps[e.rng.IntN(2)]
	}
	e.f32ArrayFilter(pair, cmp, c)
}

func (e *c08xEnv) f32ScalarFilter(cmp string, c float64) {
	cond := fmt.Sprintf("{%s: %s}", cmp, c08xLit(c))
	if e.rng.IntN(4) == 0 {
		cond = fmt.Sprintf("{%s: [%s, %s]}", []string{"_in", "_nin"}[e.rng.IntN(2)], c08xLit(c), c08xLit(c08xNums[e.rng.IntN(len(c08xNums))]))
	}
	req32 := fmt.Sprintf(`query { W(filter: {x: %s}) { k } }`, cond)
	req64 := fmt.Sprintf(`query { W(filter: {xf: %s}) { k } }`, cond)
	r32, ok1 := e.ks("filter", req32)
	r64, ok2 := e.ks("filter", req64)
	if !ok1 || !ok2 {
		return
	}
	e.r.Count("f32_scalar_filter_checks", 1)
	e.nontrivial("f32-scalar:"+cmp, len(r64), false)
	if !qsem.SameMultiset(r32, r64) {
		e.r.Violate("filter/float32-field/differs-from-the-same-filter-on-a-Float-field-with-equal-values",
			"a filter on a Float32 field returns other documents than the same filter on a Float field that holds the same value in every document",
			map[string]any{"request_float32": req32, "request_float": req64, "k_float32": r32, "k_float": r64, "documents": e.docs})
	}
}

func (e *c08xEnv) f32ArrayFilter(pair [2]string, cmp string, c any) {
	answers := map[string]map[string][]string{} // op -> column -> ks
	reqs := map[string]string{}
	for _, op := range []string{"_any", "_all", "_none"} {
		answers[op] = map[string][]string{}
		for _, col := range pair {
			req := fmt.Sprintf(`query { W(filter: {%s: {%s: {%s: %s}}}) { k } }`, col, op, cmp, c08xLit(c))
			ks, ok := e.ks("filter", req)
			if !ok {
				return
			}
			answers[op][col], reqs[op+col] = ks, req
		}
	}
	for _, op := range []string{"_any", "_all", "_none"} {
		e.r.Count("f32_array_filter_checks", 1)
		r32, r64 := answers[op][pair[0]], answers[op][pair[1]]
		e.nontrivial("f32-array:"+pair[0]+op+cmp, len(r64), false)
		// (1) the Float32 column answers like the Float column
		if !qsem.SameMultiset(r32, r64) {
			e.r.Violate("filter/float32-array/differs-from-the-same-filter-on-a-Float-array-with-equal-values",
				fmt.Sprintf("%s on a [Float32] array returns other documents than the same filter on a [Float] array that holds the same elements in every document", op),
				map[string]any{"request_float32": reqs[op+pair[0]], "request_float": reqs[op+pair[1]], "k_float32": r32, "k_float": r64, "documents": e.docs})
			return
		}
		// (2) the documented semantics over the listed elements, for both widths (documents whose array is
		// null, empty or contains null are left to the twin comparison)
		for ci, col := range pair {
			got := qsem.ToSet(answers[op][col])
			for _, d := range e.docs {
				arr, _ := d[col].([]any)
				cf, isNum := c.(float64)
				if len(arr) == 0 || !isNum {
					continue
				}
				some, every, hasNull := false, true, false
				for _, el := range arr {
					v, ok := el.(float64)
					if !ok {
						hasNull = true
						break
					}
					h := c08xCmpHolds(cmp, v, cf)
					some, every = some || h, every && h
				}
				if hasNull {
					continue
				}
				want := map[string]bool{"_any": some, "_all": every, "_none": !some}[op]
				e.r.Count("f32_array_filter_reference_rows_judged", 1)
				if k := fmt.Sprint(d["k"]); got[k] != want {
					width := []string{"Float32", "Float"}[ci]
					e.r.Violate(fmt.Sprintf("filter/array/%s-elements/%s/differs-from-the-documented-semantics-over-the-elements", width, op),
						fmt.Sprintf("document k=%s holds %s = %v; the filter {%s: {%s: {%s: %v}}} %s it", k, col, arr, col, op, cmp, cf, map[bool]string{true: "does not return", false: "returns"}[want]),
						map[string]any{"request": reqs[op+col], "document": d, "returned_k": answers[op][col]})
					return
				}
			}
		}
	}
	// (3) _none is the complement of _any among the documents whose array is not null
	for ci, col := range pair {
		e.r.Count("f32_array_any_none_complement_checks", 1)
		anyS, noneS := qsem.ToSet(answers["_any"][col]), qsem.ToSet(answers["_none"][col])
		for _, d := range e.docs {
			if _, isArr := d[col].([]any); !isArr {
				continue
			}
			if k := fmt.Sprint(d["k"]); anyS[k] == noneS[k] {
				e.r.Violate(fmt.Sprintf("filter/array/%s-elements/_none-is-not-the-complement-of-_any", []string{"Float32", "Float"}[ci]),
					fmt.Sprintf("document k=%s (%s = %v) is returned by %s of {_any: F} and {_none: F}", k, col, d[col], map[bool]string{true: "both", false: "neither"}[anyS[k]]),
					map[string]any{"request_any": reqs["_any"+col], "request_none": reqs["_none"+col], "any_k": answers["_any"][col], "none_k": answers["_none"][col], "document": d})
				return
			}
		}
	}
}

// ---------------------------------------------------------------------------------------
// _like / _nlike / _ilike / _nilike

// c08xLikeMatch: `%` = any (possibly empty) sequence, everything else literal.
func c08xLikeMatch(pattern, s string) bool {
	if pattern == "" {
		return s == ""
	}
	if pattern[0] == '%' {
		for i := 0; i <= len(s); i++ {
			if c08xLikeMatch(pattern[1:], s[i:]) {
				return true
			}
		}
		return false
	}
	return s != "" && s[0] == pattern[0] && c08xLikeMatch(pattern[1:], s[1:])
}

func c08xPatternClass(p string) string {
	n := strings.Count(p, "%")
	inner := strings.Count(strings.Trim(p, "%"), "%")
	switch {
	case n == 0:
		return "no-wildcard"
	case p == "%":
		return "lone-wildcard"
	case n == 1 && inner == 1:
		return "single-inner-wildcard"
	case inner >= 1 || strings.Contains(p, "%%"):
		return "several-wildcards" // at least one of them not alone at an end of the pattern
	}
	return "leading-or-trailing-wildcard"
}

var c08xChunks = []string{"a", "b", "ab", "bc", "c", "h", "o", "d", "l", "w", "he", "ld", "HE", "LD", "hel", " ", "abc", "bbc", "world", "W"}

func (e *c08xEnv) genPattern() string {
	ch := func() string {
		if e.rng.IntN(3) == 0 && len(e.docs) > 0 { // a piece of a stored string
			if s, ok := e.docs[e.rng.IntN(len(e.docs))]["s"].(string); ok && len(s) > 0 {
				i := e.rng.IntN(len(s))
				j := i + 1 + e.rng.IntN(min(3, len(s)-i))
				return strings.ReplaceAll(s[i:j], "%", "")
			}
		}
		return c08xChunks[e.rng.IntN(len(c08xChunks))]
	}
	switch e.rng.IntN(12) {
	case 0:
		return "%"
	case 1:
		return ch()
	case 2:
		return "%" + ch()
	case 3:
		return ch() + "%"
	case 4:
		return "%" + ch() + "%"
	case 5, 6, 7:
		return ch() + "%" + ch()
	case 8:
		return ch() + "%" + ch() + "%" + ch()
	case 9:
		return "%" + ch() + "%" + ch() + "%"
	case 10:
		return ch() + "%" + ch() + "%"
	}
	return "%" + ch() + "%" + ch()
}

var c08xLikeOps = []string{"_like", "_nlike", "_ilike", "_nilike"}
var c08xIndexFetchRe = regexp.MustCompile(`"indexFetches":[1-9]`)

// likeIndexServed: the execution statistics show that a _like filter on `si` is served from the index.
func (e *c08xEnv) likeIndexServed() {
	if len(e.docs) == 0 {
		return
	}
	res := e.ex.Do(`query @explain(type: execute) { W(filter: {si: {_like: "a%c"}}) { k } }`)
	if res.OK() && c08xIndexFetchRe.MatchString(c08xCanon(res.Data)) {
		e.r.Count("like_index_served_verified", 1)
	} else if res.OK() {
		e.r.Note("like_filter_on_indexed_field_not_served_from_the_index")
	}
}

// like puts one pattern with one operator to the plain and to the indexed field.
func (e *c08xEnv) like(fixed string) {
	op := c08xLikeOps[e.rng.IntN(4)]
	pattern := fixed
	if fixed == "" {
		pattern = e.genPattern()
	} else if i := strings.IndexByte(fixed, ' '); i > 0 && strings.HasPrefix(fixed, "_") {
		op, pattern = fixed[:i], fixed[i+1:]
	}
	ci := op == "_ilike" || op == "_nilike"
	neg := op == "_nlike" || op == "_nilike"
	class := c08xPatternClass(pattern)
	e.r.Count("like_pattern_"+class, 1)
	for _, path := range []struct{ field, name string }{{"s", "scan"}, {"si", "index"}} {
		req := fmt.Sprintf(`query { W(filter: {%s: {%s: %s}}) { k } }`, path.field, op, strconv.Quote(pattern))
		got, ok := e.ks("filter", req)
		if !ok {
			return
		}
		gs := qsem.ToSet(got)
		e.nontrivial("like:"+op+"/"+class+"/"+path.name, len(got), false)
		if lp := strings.ToLower(pattern); ci && lp != pattern { // the case of the pattern is ignored
			lreq := fmt.Sprintf(`query { W(filter: {%s: {%s: %s}}) { k } }`, path.field, op, strconv.Quote(lp))
			if lgot, ok := e.ks("filter", lreq); ok && !qsem.SameMultiset(got, lgot) {
				e.r.Violate("filter/like/case-insensitive/answer-depends-on-the-case-of-the-pattern/"+path.name+"-path",
					fmt.Sprintf("%s %q and %s %q return different documents (%s path)", op, pattern, op, lp, path.name),
					map[string]any{"request": req, "request_lower_case": lreq, "returned_k": got, "returned_k_lower_case": lgot, "documents": e.docs})
				continue
			}
		}
		for _, d := range e.docs {
			s, isStr := d["s"].(string)
			if !isStr {
				continue // null: not judged
			}
			pt, sv := pattern, s
			if ci {
				pt, sv = strings.ToLower(pattern), strings.ToLower(s)
			}
			want := c08xLikeMatch(pt, sv) != neg
			e.r.Count("like_rows_judged_"+path.name, 1)
			if class == "single-inner-wildcard" && len(s) < len(pattern)-1 {
				e.r.Count("like_value_shorter_than_prefix_plus_suffix", 1)
			}
			if ci && path.name == "index" && strings.Contains(strings.Trim(pattern, "%"), "%") && pt != pattern {
				e.r.Count("like_case_insensitive_inner_wildcard_on_index", 1)
			}
			if k := fmt.Sprint(d["k"]); gs[k] != want {
				e.r.Violate("filter/like/"+class+"/"+path.name+"-path",
					fmt.Sprintf("%s %q over the value %q (%s path): the document is %s although %s", op, pattern, s, path.name,
						map[bool]string{true: "not returned", false: "returned"}[want],
						map[bool]string{true: "the value matches the pattern", false: "the value does not match the pattern"}[want != neg]+" when % stands for any sequence of characters"),
					map[string]any{"request": req, "document_k": k, "value": s, "returned_k": got})
				break
			}
		}
	}
}

// ---------------------------------------------------------------------------------------
// limit / offset inside _group

// groupSlice: variant "" = random; o,l < 0 = random.
func (e *c08xEnv) groupSlice(variant string, o, l int) {
	if variant == "" {
		variant = []string{"offset-only", "limit-only", "limit-and-offset", "offset-only"}[e.rng.IntN(4)]
	}
	if o < 0 {
		o, l = e.rng.IntN(3), 1+e.rng.IntN(2)
	}
	var larg string
	lim := -1
	switch variant {
	case "offset-only":
		larg = fmt.Sprintf("offset: %d", o)
	case "limit-only":
		larg, o, lim = fmt.Sprintf("limit: %d", l), 0, l
	default:
		larg, lim = fmt.Sprintf("limit: %d, offset: %d", l, o), l
	}
	ord := []string{"order: {k: ASC}", "order: {k: DESC}", ""}[e.rng.IntN(3)]
	dir := []string{"ASC", "DESC"}[e.rng.IntN(2)]
	sel := fmt.Sprintf("g all: _group%s { k } cut: _group%s { k } n: _count(_group: {%s})", args(ord), args(ord, larg), larg)
	plainReq := fmt.Sprintf(`query { W(groupBy: [g]) { %s } }`, sel)
	orderedReq := fmt.Sprintf(`query { W(groupBy: [g], order: {g: %s}) { %s } }`, dir, sel)
	plain, ok := e.query("group", plainReq)
	if !ok {
		return
	}
	e.r.Count("group_member_slice_"+variant, 1)
	members := func(g map[string]any, name string) []string {
		l, _ := g[name].([]any)
		out := []string{}
		for _, m := range l {
			if mm, ok := m.(map[string]any); ok {
				out = append(out, fmt.Sprint(mm["k"]))
			}
		}
		return out
	}
	// sliceLaw returns "" or a description of the first group whose cut is not the slice of its member list
	sliceLaw := func(groups []map[string]any) (string, map[string]any, bool) {
		for _, g := range groups {
			all, cut := members(g, "all"), members(g, "cut")
			lo := min(o, len(all))
			hi := len(all)
			if lim >= 0 {
				hi = min(lo+lim, len(all))
			}
			if hi-lo < len(all) {
				e.r.Count("group_member_slice_shorter_than_member_list", 1)
				e.nontrivial("group-slice:"+variant+ord, 1, true)
			}
			if !qsem.SameSeq(cut, all[lo:hi]) {
				return fmt.Sprintf("group g=%v has the members %v; _group(%s) shows %v instead of %v", g["g"], all, strings.TrimPrefix(ord+", "+larg, ", "), cut, all[lo:hi]), g, len(cut) == len(all)
			}
		}
		return "", nil, false
	}
	pg := plain.Rows("W")
	plainMsg, g, _ := sliceLaw(pg)
	if plainMsg != "" {
		e.r.Violate("group/member-slice/"+variant+"/not-the-slice-of-the-member-list", plainMsg, map[string]any{"request": plainReq, "group": g})
	} else {
		for _, g := range pg { // the aggregate over the same slice
			if got, isNum := c08Num(g["n"]); !isNum || int(got) != len(members(g, "cut")) {
				e.r.Violate("aggregate/grouped-with-inner-"+variant+"/_count", fmt.Sprintf("_count(_group: {%s}) = %v, _group(%s) lists %d members", larg, g["n"], larg, len(members(g, "cut"))),
					map[string]any{"request": plainReq, "group": g})
				break
			}
		}
	}
	// the same selection with the groups ordered
	ordered, ok := e.query("group", orderedReq)
	if !ok {
		return
	}
	e.r.Count("group_member_slice_groups_ordered", 1)
	og := ordered.Rows("W")
	byKey := map[string]map[string]any{}
	for _, g := range pg {
		byKey[c08xCanon(g["g"])] = g
	}
	for _, g := range og {
		pgk := byKey[c08xCanon(g["g"])]
		same := pgk != nil && qsem.SameMultiset(members(g, "all"), members(pgk, "all"))
		if same && ord != "" {
			same = qsem.SameSeq(members(g, "all"), members(pgk, "all"))
		}
		if !same || len(og) != len(pg) {
			e.r.Violate("group/ordering-the-groups-changes-the-member-lists", fmt.Sprintf("group g=%v lists other members when the groups are ordered by g", g["g"]),
				map[string]any{"request": orderedReq, "request_unordered": plainReq, "groups_ordered": og, "groups_unordered": pg})
			return
		}
	}
	if plainMsg != "" {
		return // the slice law already fails without ordering the groups
	}
	if msg, g, ignored := sliceLaw(og); msg != "" {
		what := "not-the-slice-of-the-member-list"
		if ignored {
			what = "limit-offset-ignored"
		}
		e.r.Violate("group/member-slice/groups-ordered/"+what, "with the groups ordered (the same request without the order argument cuts the slice): "+msg,
			map[string]any{"request": orderedReq, "request_unordered": plainReq, "group": g})
	}
}

// ---------------------------------------------------------------------------------------
// aggregates over Float32

func (e *c08xEnv) f32Agg() {
	if e.rng.IntN(2) == 0 {
		e.f32AggField(e.rng.IntN(3) > 0)
	} else {
		e.f32AggArray([]string{"a", "b"}[e.rng.IntN(2)], c08xCmps[e.rng.IntN(len(c08xCmps))], c08xNums[e.rng.IntN(len(c08xNums))])
	}
}

var c08xAggAlias = []struct{ alias, fn string }{{"c", "_count"}, {"s", "_sum"}, {"av", "_avg"}, {"mn", "_min"}, {"mx", "_max"}}

// f32AggField: aggregates over the Float32 field x of the documents (top level, or per group of g).
func (e *c08xEnv) f32AggField(topLevel bool) {
	judge := func(req string, got map[string]any, listed []any) bool {
		a := qsem.Arithmetic(listed)
		if a.NonNull >= 2 {
			e.r.Count("f32_agg_field__max_over_two_or_more_values", 1)
		}
		for _, it := range c08xAggAlias {
			msg := qsem.CheckAgg(it.fn, got[it.alias], a)
			if msg == "skip" {
				continue
			}
			e.r.Count("f32_agg_field_values_judged", 1)
			if msg != "" {
				e.r.Violate("aggregate/float32-field/"+it.fn, it.fn+" over a Float32 field differs from the arithmetic over the listed values: "+msg,
					map[string]any{"request": req, "returned": got, "listed_values": listed})
				return false
			}
		}
		return true
	}
	if topLevel {
		filt := ""
		if e.rng.IntN(2) == 0 {
			filt = fmt.Sprintf("filter: {g: {_eq: %d}}", e.rng.IntN(3))
		}
		inner := func(field string) string {
			return "{" + strings.TrimSuffix(strings.TrimPrefix(field+", "+filt, ", "), ", ") + "}"
		}
		lres, ok := e.query("listing", fmt.Sprintf(`query { W%s { x } }`, args(filt)))
		if !ok {
			return
		}
		req := fmt.Sprintf(`query { c: _count(W: %s) s: _sum(W: %s) av: _avg(W: %s) mn: _min(W: %s) mx: _max(W: %s) }`, inner(""), inner("field: x"), inner("field: x"), inner("field: x"), inner("field: x"))
		res, ok := e.query("aggregate", req)
		if !ok {
			return
		}
		got, _ := res.Data.(map[string]any)
		e.nontrivial("f32-agg-field-top:"+filt, len(lres.Rows("W")), false)
		judge(req, got, column(lres.Rows("W"), "x"))
		return
	}
	req := `query { W(groupBy: [g]) { g c: _count(_group: {}) s: _sum(_group: {field: x}) av: _avg(_group: {field: x}) mn: _min(_group: {field: x}) mx: _max(_group: {field: x}) _group { x } } }`
	res, ok := e.query("group", req)
	if !ok {
		return
	}
	for _, g := range res.Rows("W") {
		var listed []any
		ms, _ := g["_group"].([]any)
		for _, m := range ms {
			if mm, ok := m.(map[string]any); ok {
				listed = append(listed, mm["x"])
			}
		}
		e.nontrivial("f32-agg-field-group", len(listed), len(listed) > 1)
		if !judge(req, g, listed) {
			return
		}
	}
}

// f32AggArray: aggregates over the elements of a [Float32] / [Float32!] array, with and without an
// inner filter, judged by the arithmetic over the listed elements and against the Float twin array.
func (e *c08xEnv) f32AggArray(col, cmp string, c float64) {
	filt := fmt.Sprintf("filter: {%s: %s}", cmp, c08xLit(c))
	sel := func(col string) string {
		return fmt.Sprintf("k %[1]s c: _count(%[1]s: {}) s: _sum(%[1]s: {}) av: _avg(%[1]s: {}) mn: _min(%[1]s: {}) mx: _max(%[1]s: {}) "+
			"fc: _count(%[1]s: {%[2]s}) fs: _sum(%[1]s: {%[2]s}) fmn: _min(%[1]s: {%[2]s}) fmx: _max(%[1]s: {%[2]s})", col, filt)
	}
	req32 := fmt.Sprintf(`query { W { %s } }`, sel(col))
	req64 := fmt.Sprintf(`query { W { %s } }`, sel(col+"f"))
	res32, ok1 := e.query("aggregate", req32)
	res64, ok2 := e.query("aggregate", req64)
	if !ok1 || !ok2 {
		return
	}
	twin := map[string]map[string]any{}
	for _, row := range res64.Rows("W") {
		twin[fmt.Sprint(row["k"])] = row
	}
	fnOf := map[string]string{"c": "_count", "s": "_sum", "av": "_avg", "mn": "_min", "mx": "_max", "fc": "_count", "fs": "_sum", "fmn": "_min", "fmx": "_max"}
	for _, rr := range []struct {
		rows  []map[string]any
		col   string
		width string
		req   string
	}{{res32.Rows("W"), col, "float32", req32}, {res64.Rows("W"), col + "f", "float", req64}} {
		for _, row := range rr.rows {
			arr, _ := row[rr.col].([]any)
			var vals, fvals []any
			hasNull := false
			for _, el := range arr {
				v, isNum := c08Num(el)
				if !isNum {
					hasNull = true
					continue
				}
				vals = append(vals, v)
				if c08xCmpHolds(cmp, v, c) {
					fvals = append(fvals, v)
				}
			}
			e.nontrivial("f32-agg-array:"+rr.col, len(vals), len(vals) > 1)
			for _, al := range []string{"c", "s", "av", "mn", "mx", "fc", "fs", "fmn", "fmx"} {
				fn, filtered := fnOf[al], strings.HasPrefix(al, "f")
				if hasNull && (fn == "_count" || (filtered && cmp == "_ne")) {
					continue // whether a null element counts / satisfies _ne is not documented: left to the twin comparison
				}
				listed := vals
				if filtered {
					listed = fvals
				}
				msg := qsem.CheckAgg(fn, row[al], qsem.Arithmetic(listed))
				if msg == "skip" {
					continue
				}
				if rr.width == "float32" {
					e.r.Count("f32_agg_array_values_judged", 1)
					if filtered {
						e.r.Count("f32_agg_array_inner_filter_judged", 1)
					}
				}
				if msg != "" {
					where := ""
					if filtered {
						where = "-with-inner-filter"
					}
					e.r.Violate(fmt.Sprintf("aggregate/%s-array%s/%s", rr.width, where, fn),
						fmt.Sprintf("%s over the elements of %s = %v%s differs from the arithmetic over the elements: %s", fn, rr.col, arr, map[bool]string{true: " with the inner " + filt, false: ""}[filtered], msg),
						map[string]any{"request": rr.req, "row": row})
					return
				}
			}
		}
	}
	// the Float32 array answers like the Float array (covers null elements)
	for _, row := range res32.Rows("W") {
		t := twin[fmt.Sprint(row["k"])]
		for al, fn := range fnOf {
			if t != nil && !c08xSame(row[al], t[al]) {
				e.r.Violate("aggregate/float32-array/"+fn+"/differs-from-the-same-aggregate-over-a-Float-array-with-equal-elements",
					fmt.Sprintf("%s over %s = %v gives %v, over %sf (same elements) %v", fn, col, row[col], row[al], col, t[al]),
					map[string]any{"request_float32": req32, "request_float": req64, "row_float32": row, "row_float": t})
				return
			}
		}
	}
}

// ---------------------------------------------------------------------------------------
// groupBy over values that collide when a key is built carelessly

func (e *c08xEnv) groupKeys(keys []string, filter ...string) {
	if keys == nil {
		keys = [][]string{{"p"}, {"q"}, {"j"}, {"p", "q"}, {"q", "p"}, {"p", "j"}, {"j", "q"}, {"g", "p"}, {"p", "q", "j"}, {"s"}, {"x"}}[e.rng.IntN(11)]
	}
	var f string
	if len(filter) > 0 {
		f = filter[0]
	} else if e.rng.IntN(3) == 0 {
		f = fmt.Sprintf("filter: {g: {_ne: %d}}", e.rng.IntN(3))
	}
	ks := strings.Join(keys, " ")
	req := fmt.Sprintf(`query { W%s { %s _group { k %s } } }`, args(f, "groupBy: ["+strings.Join(keys, ", ")+"]"), ks, ks)
	res, ok := e.query("group", req)
	if !ok {
		return
	}
	base, ok := e.ks("listing", fmt.Sprintf(`query { W%s { k } }`, args(f)))
	if !ok {
		return
	}
	e.r.Count("group_key_checks", 1)
	// what the (filtered) data offers
	vals := map[string]map[string]bool{}
	for _, k := range base {
		for _, f := range keys {
			if vals[f] == nil {
				vals[f] = map[string]bool{}
			}
			vals[f][fmt.Sprintf("%T:%v", e.byK[k][f], e.byK[k][f])] = true
		}
	}
	for _, f := range keys {
		if vals[f]["<nil>:<nil>"] && vals[f]["string:<nil>"] {
			e.r.Count("group_key_null_next_to_nil_string", 1)
		}
		if f == "j" && ((vals[f]["int64:1"] && vals[f]["string:1"]) || (vals[f]["bool:true"] && vals[f]["string:true"])) {
			e.r.Count("group_key_json_values_of_different_types", 1)
		}
	}
	if len(keys) > 1 {
		for v := range vals[keys[0]] {
			if strings.Count(v, "_") >= 2 {
				e.r.Count("group_key_two_keys_with_separator_in_value", 1)
				break
			}
		}
	}
	groups := res.Rows("W")
	e.nontrivial("group-keys:"+strings.Join(keys, ","), len(base), len(groups) > 1 && len(groups) < len(base))
	var members []string
	seen := map[string]bool{}
	keyOf := func(m map[string]any) string {
		var kt []string
		for _, k := range keys {
			kt = append(kt, c08xCanon(m[k]))
		}
		return strings.Join(kt, "|")
	}
	for _, g := range groups {
		gk := keyOf(g)
		if seen[gk] {
			e.r.Violate("group/same-key-in-two-groups", "two groups carry the same groupBy key", map[string]any{"request": req, "groups": groups})
			return
		}
		seen[gk] = true
		ms, _ := g["_group"].([]any)
		for _, m := range ms {
			mm, _ := m.(map[string]any)
			members = append(members, fmt.Sprint(mm["k"]))
			if keyOf(mm) == gk {
				continue
			}
			class := "different-values-of-one-type"
			for _, k := range keys {
				a, b := g[k], mm[k]
				if c08xCanon(a) == c08xCanon(b) {
					continue
				}
				switch {
				case (a == nil) != (b == nil):
					class = "null-and-a-string"
				case fmt.Sprintf("%T", a) != fmt.Sprintf("%T", b):
					class = "json-values-of-different-types"
				case len(keys) > 1:
					class = "several-keys/different-tuples"
				}
				break
			}
			e.r.Violate("group/documents-with-different-key-values-in-one-group/"+class,
				fmt.Sprintf("a group with the key %s contains a document whose groupBy fields are %s", gk, keyOf(mm)),
				map[string]any{"request": req, "group": g, "member": mm})
			return
		}
	}
	if !qsem.SameMultiset(members, base) {
		sort.Strings(members)
		e.r.Violate("group/groups-do-not-partition-the-list", "the members of all groups are not exactly the documents of the filtered listing",
			map[string]any{"request": req, "members_k": members, "listing_k": base})
	}
}

// ---------------------------------------------------------------------------------------
// anchor: the shapes every floor needs, on the hand-written values

func (e *c08xEnv) anchorValues() {
	for _, pair := range [][2]string{{"a", "af"}, {"b", "bf"}} {
		e.f32ArrayFilter(pair, "_eq", 1.5)
		e.f32ArrayFilter(pair, "_gt", 2.0)
		e.f32ArrayFilter(pair, "_ne", 7.0)
	}
	e.f32ArrayFilter([2]string{"a", "af"}, "_eq", nil)
	for _, cmp := range c08xCmps {
		e.f32ScalarFilter(cmp, 1.5)
	}
	for _, p := range []string{"_like ab%bc", "_nlike ab%bc", "_like %", "_nlike %", "_like h%o%d", "_like %l%w%", "_ilike HE%ld", "_nilike HE%ld", "_ilike h%O%D", "_like ab%", "_like %bc", "_like %b%", "_like abc", "_like %%"} {
		e.like(p)
	}
	for _, v := range []string{"offset-only", "limit-only", "limit-and-offset"} {
		e.groupSlice(v, 1, 1)
		e.groupSlice(v, 1, 1)
		e.groupSlice(v, 2, 2)
	}
	e.f32AggField(true)
	e.f32AggField(true)
	e.f32AggField(false)
	for _, col := range []string{"a", "b"} {
		e.f32AggArray(col, "_gt", 2.0)
		e.f32AggArray(col, "_le", 1.5)
	}
	for _, keys := range [][]string{{"p"}, {"j"}, {"p", "q"}, {"s"}, {"x"}} {
		e.groupKeys(keys)
	}
}

func c08xCases(seed uint64, tier string) []core.Case {
	cs := []core.Case{
		core.MkCase("f32-like-group", 1, c08Params{Anchor: "values", Queries: 40}),
		core.MkCase("f32-like-group", 1, c08Params{Anchor: "group-keys", Queries: 10}),
	}
	rng := rand.New(rand.NewPCG(seed, 80808))
	for i, n := 0, tierN(tier, 30, 600); i < n; i++ {
		cs = append(cs, core.MkCase("f32-like-group", rng.Uint64(), c08Params{NU: 1 + rng.IntN(10), Queries: 70}))
	}
	return cs
}
