package checks

// C13 — document, schema and collection identifiers are pure functions of content.
//
// Two kinds of cases:
//
//   doc/...     one generated schema, a handful of generated documents; the docID of every
//               document is obtained through ~11 construction routes (NewDocFromMap with int /
//               int64 / float64 / json.Number / time.Time / typed slices, explicit nil vs
//               omitted, `rel` vs `rel_id`; NewDocFromJSON canonical and with shuffled keys,
//               whitespace, alternative number spellings and \u escapes; NewDocsFromJSON; GraphQL
//               create_ mutations with inline literals on two independent nodes; a create_ mutation
//               with variables on a third; col.Create + read back on a fourth) — all must agree,
//               and the id must differ on a node whose schema root differs.
//   route/...   (c13_routes.go) the document object is put together in several steps (constructor with part
//               of the fields + Set / SetWithJSON of the rest, full document + Set of one field, NewDocWithID or
//               a `_docID` map key with the id of other content or a random id + Set of all fields), so that
//               it reaches collection.Create / CreateMany / Save carrying an id that is not the id of its
//               content: the submit is either rejected, or the document is stored under exactly the id the
//               one-go routes give for the same final content on an independent node.
//   schema/...  one generated set of types with a random primary-relation graph, added to fresh
//               nodes under every permutation of the type order, partitions into several
//               AddSchema calls (along connected components), and R repetitions of the identical
//               call; the maps type -> (VersionID, CollectionID, schema Root) must all be equal.

import (
	"context"
	"encoding/json"
	"fmt"
	"math"
	"math/rand/v2"
	"sort"
	"strconv"
	"strings"
	"time"

	badgerds "github.com/dgraph-io/badger/v4"
	"github.com/sourcenetwork/corekv/badger"

	"github.com/sourcenetwork/defradb/client"
	"github.com/sourcenetwork/defradb/verifharness/core"
)

// lightNode: a node on an in-memory badger store with small memtables (a fresh default store
// costs ~4x more CPU, and these checks create thousands of nodes).
func lightNode(ctx context.Context, fault bool) *core.Node {
	bo := badgerds.DefaultOptions("").WithInMemory(true).WithLogger(nil).WithMemTableSize(8 << 20).WithNumMemtables(2).WithValueLogFileSize(1 << 20).WithNumCompactors(2)
	rs, err := badger.NewDatastore("", bo)
	core.Must(err)
	return core.NewNode(ctx, core.NodeOpts{Existing: rs, Fault: fault})
}

// ---------------------------------------------------------------------------------------
// value model

type c13Kind string

const (
	c13String   c13Kind = "String"
	c13Int      c13Kind = "Int"
	c13Float    c13Kind = "Float"
	c13Float32  c13Kind = "Float32"
	c13Bool     c13Kind = "Boolean"
	c13DateTime c13Kind = "DateTime"
	c13Blob     c13Kind = "Blob"
	c13JSON     c13Kind = "JSON"
	c13IntArr   c13Kind = "[Int]"
	c13IntArrNN c13Kind = "[Int!]"
	c13StrArr   c13Kind = "[String]"
	c13StrArrNN c13Kind = "[String!]"
	c13FltArr   c13Kind = "[Float]"
	c13FltArrNN c13Kind = "[Float!]"
	c13BoolArr  c13Kind = "[Boolean]"
	c13BoolArNN c13Kind = "[Boolean!]"
	c13Rel      c13Kind = "Rel"     // field `name: R` (one-sided primary relation), value = docID
	c13Counter  c13Kind = "Counter" // Int @crdt(type: pcounter)
)

var c13AllKinds = []c13Kind{c13String, c13Int, c13Float, c13Float32, c13Bool, c13DateTime, c13Blob, c13JSON,
	c13IntArr, c13IntArrNN, c13StrArr, c13StrArrNN, c13FltArr, c13FltArrNN, c13BoolArr, c13BoolArNN, c13Rel, c13Counter}

type c13Field struct {
	Name string  `json:"name"`
	Kind c13Kind `json:"kind"`
	// Default, when set, is the argument list of a @default directive, e.g. `int: 7` (used by C18)
	Default string `json:"default,omitempty"`
}

func (f c13Field) sdl() string {
	switch f.Kind {
	case c13Rel:
		return f.Name + ": R"
	case c13Counter:
		return f.Name + ": Int @crdt(type: pcounter)"
	}
	if f.Default != "" {
		return f.Name + ": " + string(f.Kind) + " @default(" + f.Default + ")"
	}
	return f.Name + ": " + string(f.Kind)
}

// element kind of an array kind and whether elements may be null
func (k c13Kind) elem() (c13Kind, bool, bool) {
	switch k {
	case c13IntArr:
		return c13Int, true, true
	case c13IntArrNN:
		return c13Int, false, true
	case c13StrArr:
		return c13String, true, true
	case c13StrArrNN:
		return c13String, false, true
	case c13FltArr:
		return c13Float, true, true
	case c13FltArrNN:
		return c13Float, false, true
	case c13BoolArr:
		return c13Bool, true, true
	case c13BoolArNN:
		return c13Bool, false, true
	}
	return "", false, false
}

// c13Doc: field name -> model value (absent key or nil value = null). Model values:
// string (String, DateTime, Blob, Rel), int64 (Int, Counter), float64 (Float, Float32), bool,
// []any (arrays; nil element = null), any JSON tree (JSON; numbers float64).
type c13Doc map[string]any

var c13Strings = []string{"", "a", "B b", "héllo ✓", "q\" b\\ nl\n tab\t/", "😀 emoji", strings.Repeat("xy", 150), "<&>"}
var c13Ints = []int64{0, 1, -1, 10, 42, -7, 1 << 31, 1<<53 + 1, -(1 << 53) - 1, math.MaxInt64, math.MinInt64}
var c13Floats = []float64{0, 10, -2.5, 0.1, 1e308, 5e-324, 123456.789, 1e21, 3, -1e-7, math.Copysign(0, -1)}
var c13Floats32 = []float64{0, 1.5, -2.25, 3, float64(float32(0.1)), 1e10, 0.1, 123456.789, -2.5e-5} // the last three need rounding to single precision

// float64 values that lie exactly halfway between two adjacent float32 values (1+2^-24, 3+2^-23, ...)
var c13Float32Halfway = []float64{1.0000000596046448, 3.0000001192092896, -1.0000000596046448, -3.0000001192092896}

var c13Times = []string{"2020-01-02T03:04:05Z", "2020-01-02T03:04:05.123456789Z", "0001-01-01T00:00:00Z", "1999-12-31T23:59:59.5+02:00", "9999-12-31T23:59:59Z"}
var c13Blobs = []string{"", "00ff", "deadbeef", "0123456789abcdef0123456789abcdef"}
var c13JSONs = []string{`{"k":[1,"x",null]}`, `"str"`, `12.5`, `true`, `[]`, `{}`, `{"a":{"b":{"c":[1,2,{"d":null}]}}}`, `[1,[2,[3]]]`,
	`{"z":1,"y":"é","x":[true,false],"w":-0.5}`, `0`}

func c13GenScalar(rng *rand.Rand, k c13Kind, refs []string) any {
	switch k {
	case c13String:
		return c13Strings[rng.IntN(len(c13Strings))]
	case c13Int:
		return c13Ints[rng.IntN(len(c13Ints))]
	case c13Counter:
		return int64(rng.IntN(5))
	case c13Float:
		return c13Floats[rng.IntN(len(c13Floats))]
	case c13Float32:
		return c13Floats32[rng.IntN(len(c13Floats32))]
	case c13Bool:
		return rng.IntN(2) == 0
	case c13DateTime:
		return c13Times[rng.IntN(len(c13Times))]
	case c13Blob:
		return c13Blobs[rng.IntN(len(c13Blobs))]
	case c13JSON:
		var v any
		core.Must(json.Unmarshal([]byte(c13JSONs[rng.IntN(len(c13JSONs))]), &v))
		return v
	case c13Rel:
		return refs[rng.IntN(len(refs))]
	}
	panic("kind " + string(k))
}

func c13GenValue(rng *rand.Rand, k c13Kind, refs []string) any {
	if ek, nillable, isArr := k.elem(); isArr {
		n := rng.IntN(4)
		arr := make([]any, n)
		for i := range arr {
			if nillable && rng.IntN(4) == 0 {
				arr[i] = nil
			} else {
				arr[i] = c13GenScalar(rng, ek, refs)
			}
		}
		return arr
	}
	return c13GenScalar(rng, k, refs)
}

// ---------------------------------------------------------------------------------------
// renderers

type c13Style struct {
	Ints        string // int | int64 | number | float
	Floats      string // float64 | number | int
	Times       bool   // DateTime as time.Time
	TypedSlices bool   // non-nillable arrays as []int64 / []string / ...
	ExplicitNil bool   // null fields present with nil / null
	RelObjKey   bool   // relation under `name` instead of `name_id`
	Shuffle     bool
	AltSpelling bool // floats as 1.0e1, strings with \u escapes, random whitespace
}

func c13FloatText(f float64) string {
	if f == 0 && math.Signbit(f) {
		return "-0.0"
	}
	return strconv.FormatFloat(f, 'g', -1, 64)
}

// alternative but value-preserving spelling of a float
func c13FloatAlt(f float64, rng *rand.Rand) string {
	if f == 0 && math.Signbit(f) {
		return "-0.0e0"
	}
	s := strconv.FormatFloat(f, 'e', -1, 64) // d.ddde±xx
	switch rng.IntN(3) {
	case 0:
		return strings.Replace(s, "e", "E", 1)
	case 1:
		if f == math.Trunc(f) && math.Abs(f) < 1e15 {
			return strconv.FormatFloat(f, 'f', 1, 64) // 10.0
		}
	}
	return s
}

func c13GoScalar(k c13Kind, v any, st c13Style) any {
	switch k {
	case c13Int, c13Counter:
		i := v.(int64)
		switch st.Ints {
		case "int":
			return int(i)
		case "number":
			return json.Number(strconv.FormatInt(i, 10))
		case "float":
			if i >= -(1<<53) && i <= 1<<53 {
				return float64(i)
			}
		}
		return i
	case c13Float, c13Float32:
		f := v.(float64)
		switch st.Floats {
		case "number":
			return json.Number(c13FloatText(f))
		case "int":
			if f == math.Trunc(f) && math.Abs(f) < 1<<53 && !(f == 0 && math.Signbit(f)) {
				return int(f)
			}
		}
		return f
	case c13DateTime:
		if st.Times {
			t, err := time.Parse(time.RFC3339, v.(string))
			core.Must(err)
			return t
		}
	}
	return v
}

func c13GoValue(k c13Kind, v any, st c13Style) any {
	if ek, nillable, isArr := k.elem(); isArr {
		arr := v.([]any)
		if st.TypedSlices && !nillable {
			switch ek {
			case c13Int:
				out := make([]int64, len(arr))
				for i, e := range arr {
					out[i] = e.(int64)
				}
				return out
			case c13String:
				out := make([]string, len(arr))
				for i, e := range arr {
					out[i] = e.(string)
				}
				return out
			case c13Float:
				out := make([]float64, len(arr))
				for i, e := range arr {
					out[i] = e.(float64)
				}
				return out
			case c13Bool:
				out := make([]bool, len(arr))
				for i, e := range arr {
					out[i] = e.(bool)
				}
				return out
			}
		}
		out := make([]any, len(arr))
		for i, e := range arr {
			if e != nil {
				out[i] = c13GoScalar(ek, e, st)
			}
		}
		return out
	}
	if k == c13JSON {
		return c13JSONGo(v, st)
	}
	return c13GoScalar(k, v, st)
}

// numbers inside a JSON field: float64 in the model; render as int / json.Number where exact
func c13JSONGo(v any, st c13Style) any {
	switch t := v.(type) {
	case map[string]any:
		out := map[string]any{}
		for k, e := range t {
			out[k] = c13JSONGo(e, st)
		}
		return out
	case []any:
		out := make([]any, len(t))
		for i, e := range t {
			out[i] = c13JSONGo(e, st)
		}
		return out
	case float64:
		if st.Floats == "number" {
			return json.Number(c13FloatText(t))
		}
		if st.Ints == "int" && t == math.Trunc(t) && math.Abs(t) < 1<<31 {
			return int(t)
		}
		return t
	}
	return v
}

func c13GoMap(fields []c13Field, d c13Doc, st c13Style) map[string]any {
	m := map[string]any{}
	for _, f := range fields {
		key := f.Name
		if f.Kind == c13Rel && !st.RelObjKey {
			key = f.Name + "_id"
		}
		v, ok := d[f.Name]
		if !ok || v == nil {
			if st.ExplicitNil {
				m[key] = nil
			}
			continue
		}
		m[key] = c13GoValue(f.Kind, v, st)
	}
	return m
}

func c13StringText(s string, st c13Style, rng *rand.Rand) string {
	if !st.AltSpelling {
		b, _ := json.Marshal(s)
		return string(b)
	}
	var sb strings.Builder
	sb.WriteByte('"')
	for _, r := range s {
		switch {
		case r == '"' || r == '\\':
			sb.WriteByte('\\')
			sb.WriteRune(r)
		case r == '\n':
			sb.WriteString(`\n`)
		case r == '\t':
			sb.WriteString(`\t`)
		case r < 0x20:
			fmt.Fprintf(&sb, `\u%04x`, r)
		case r < 0x10000 && (r > 0x7e || rng.IntN(4) == 0):
			fmt.Fprintf(&sb, `\u%04X`, r)
		default:
			sb.WriteRune(r)
		}
	}
	sb.WriteByte('"')
	return sb.String()
}

// c13Text renders a model value as JSON text (gql=false) or as a GraphQL literal (gql=true).
func c13Text(k c13Kind, v any, st c13Style, rng *rand.Rand, gql bool) string {
	if v == nil {
		return "null"
	}
	ws := func() string {
		if st.AltSpelling {
			return []string{"", " ", "  ", "\n", "\t "}[rng.IntN(5)]
		}
		return ""
	}
	if ek, _, isArr := k.elem(); isArr {
		var parts []string
		for _, e := range v.([]any) {
			parts = append(parts, ws()+c13Text(ek, e, st, rng, gql)+ws())
		}
		return "[" + strings.Join(parts, ",") + ws() + "]"
	}
	switch k {
	case c13Int, c13Counter:
		return strconv.FormatInt(v.(int64), 10)
	case c13Float, c13Float32:
		if st.AltSpelling {
			return c13FloatAlt(v.(float64), rng)
		}
		return c13FloatText(v.(float64))
	case c13Bool:
		return strconv.FormatBool(v.(bool))
	case c13String, c13DateTime, c13Blob, c13Rel:
		return c13StringText(v.(string), st, rng)
	case c13JSON:
		return c13JSONText(v, st, rng, gql)
	}
	panic("kind " + string(k))
}

func c13JSONText(v any, st c13Style, rng *rand.Rand, gql bool) string {
	switch t := v.(type) {
	case nil:
		return "null"
	case map[string]any:
		ks := make([]string, 0, len(t))
		for k := range t {
			ks = append(ks, k)
		}
		sort.Strings(ks)
		if st.Shuffle {
			rng.Shuffle(len(ks), func(i, j int) { ks[i], ks[j] = ks[j], ks[i] })
		}
		var parts []string
		for _, k := range ks {
			key := k
			if !gql {
				key = c13StringText(k, c13Style{}, rng)
			}
			parts = append(parts, key+": "+c13JSONText(t[k], st, rng, gql))
		}
		return "{" + strings.Join(parts, ", ") + "}"
	case []any:
		var parts []string
		for _, e := range t {
			parts = append(parts, c13JSONText(e, st, rng, gql))
		}
		return "[" + strings.Join(parts, ", ") + "]"
	case float64:
		if st.AltSpelling {
			return c13FloatAlt(t, rng)
		}
		return c13FloatText(t)
	case bool:
		return strconv.FormatBool(t)
	case string:
		return c13StringText(t, st, rng)
	}
	panic(fmt.Sprintf("json %T", v))
}

// c13ObjectText renders the whole document as a JSON object / GraphQL input object.
func c13ObjectText(fields []c13Field, d c13Doc, st c13Style, rng *rand.Rand, gql bool) string {
	fs := append([]c13Field(nil), fields...)
	if st.Shuffle {
		rng.Shuffle(len(fs), func(i, j int) { fs[i], fs[j] = fs[j], fs[i] })
	}
	ws := func() string {
		if st.AltSpelling {
			return []string{"", " ", "\n  ", "\t"}[rng.IntN(4)]
		}
		return ""
	}
	var parts []string
	for _, f := range fs {
		key := f.Name
		if f.Kind == c13Rel && !st.RelObjKey {
			key = f.Name + "_id"
		}
		v, ok := d[f.Name]
		if !ok || v == nil {
			if !st.ExplicitNil {
				continue
			}
			v = nil
		}
		if !gql {
			key = `"` + key + `"`
		}
		parts = append(parts, ws()+key+ws()+":"+ws()+c13Text(f.Kind, v, st, rng, gql))
	}
	return "{" + strings.Join(parts, ",") + ws() + "}"
}

// ---------------------------------------------------------------------------------------
// doc cases

type c13DocParams struct {
	Anchor string `json:"anchor,omitempty"`
	Docs   int    `json:"docs"`
}

func c13SDL(typeName string, fields []c13Field, extra string) string {
	var sb strings.Builder
	sb.WriteString("type R { n: String }\n")
	fmt.Fprintf(&sb, "type %s {\n", typeName)
	for _, f := range fields {
		sb.WriteString("  " + f.sdl() + "\n")
	}
	if extra != "" {
		sb.WriteString("  " + extra + "\n")
	}
	sb.WriteString("}\n")
	return sb.String()
}

type c13Env struct {
	ctx    context.Context
	fields []c13Field
	sdl    string
	nodes  []*core.Node
}

func (e *c13Env) node(i int) *core.Node {
	for len(e.nodes) <= i {
		n := lightNode(e.ctx, false)
		_, err := n.DB.AddSchema(e.ctx, e.sdl)
		core.Must(err)
		e.nodes = append(e.nodes, n)
	}
	return e.nodes[i]
}

func (e *c13Env) close() {
	for _, n := range e.nodes {
		n.Close()
	}
}

// c13Route: one way to obtain the docID of a logical document.
type c13Route struct {
	Name  string
	Class string // map | json | jsonarray | gql | gqlvar | create
	St    c13Style
	Node  int // node slot: 0 = pure constructors + gql literal, 1 = gql shuffled, 2 = variables, 3 = col.Create
}

func (rt c13Route) Run(e *c13Env, fields []c13Field, d c13Doc, rng *rand.Rand) (id string, err error) {
	defer func() {
		if p := recover(); p != nil {
			err = fmt.Errorf("panic: %v", p)
		}
	}()
	n := e.node(rt.Node)
	def := n.Col(e.ctx, "D").Definition()
	switch rt.Class {
	case "map":
		doc, err := client.NewDocFromMap(c13GoMap(fields, d, rt.St), def)
		if err != nil {
			return "", err
		}
		return doc.ID().String(), nil
	case "json":
		doc, err := client.NewDocFromJSON([]byte(c13ObjectText(fields, d, rt.St, rng, false)), def)
		if err != nil {
			return "", err
		}
		return doc.ID().String(), nil
	case "jsonarray":
		docs, err := client.NewDocsFromJSON([]byte("[ "+c13ObjectText(fields, d, rt.St, rng, false)+" ]"), def)
		if err != nil {
			return "", err
		}
		if len(docs) != 1 {
			return "", fmt.Errorf("NewDocsFromJSON returned %d docs", len(docs))
		}
		return docs[0].ID().String(), nil
	case "gql", "gqlvar":
		var res *client.RequestResult
		if rt.Class == "gql" {
			res = n.DB.ExecRequest(e.ctx, "mutation { create_D(input: "+c13ObjectText(fields, d, rt.St, rng, true)+") { _docID } }")
		} else {
			res = n.DB.ExecRequest(e.ctx, "mutation($in: [DMutationInputArg!]!) { create_D(input: $in) { _docID } }",
				client.WithVariables(map[string]any{"in": []any{c13GoMap(fields, d, rt.St)}}))
		}
		if len(res.GQL.Errors) > 0 {
			return "", res.GQL.Errors[0]
		}
		id, err := c13FirstID(res.GQL.Data, "create_D")
		if err != nil {
			return "", err
		}
		if !c13StoredIDs(e.ctx, n)[id] {
			return "", fmt.Errorf("created document %s is not listed by a query", id)
		}
		return id, nil
	case "create":
		col := n.Col(e.ctx, "D")
		doc, err := client.NewDocFromMap(c13GoMap(fields, d, rt.St), def)
		if err != nil {
			return "", err
		}
		before := c13StoredIDs(e.ctx, n)
		if err := col.Create(e.ctx, doc); err != nil {
			return "", err
		}
		var fresh []string
		for id := range c13StoredIDs(e.ctx, n) {
			if !before[id] {
				fresh = append(fresh, id)
			}
		}
		if len(fresh) != 1 {
			return "", fmt.Errorf("%d new documents after one Create", len(fresh))
		}
		return fresh[0], nil // the id under which the document is actually stored
	}
	panic("route class " + rt.Class)
}

func c13FirstID(data any, key string) (string, error) {
	b, _ := json.Marshal(data)
	var m map[string][]map[string]any
	if err := json.Unmarshal(b, &m); err != nil {
		return "", fmt.Errorf("unexpected result %s", b)
	}
	if len(m[key]) != 1 {
		return "", fmt.Errorf("unexpected result %s", b)
	}
	id, _ := m[key][0]["_docID"].(string)
	return id, nil
}

// c13StoredIDs returns the _docIDs stored in collection D of node n.
func c13StoredIDs(ctx context.Context, n *core.Node) map[string]bool {
	rows, err := n.Rows(ctx, `query { D { _docID } }`, "D")
	core.Must(err)
	out := map[string]bool{}
	for _, r := range rows {
		out[r["_docID"].(string)] = true
	}
	return out
}

var c13RefStyle = c13Style{Ints: "int", Floats: "float64"}

var c13Routes = []c13Route{
	{Name: "map/int+float64", Class: "map", St: c13RefStyle}, // reference route
	{Name: "map/int64+nil+relobj+time+typed", Class: "map", St: c13Style{Ints: "int64", Floats: "float64", ExplicitNil: true, RelObjKey: true, Times: true, TypedSlices: true}},
	{Name: "map/json.Number", Class: "map", St: c13Style{Ints: "number", Floats: "number"}},
	{Name: "map/float-for-int+int-for-float", Class: "map", St: c13Style{Ints: "float", Floats: "int", ExplicitNil: true}},
	{Name: "json/canonical", Class: "json", St: c13Style{}},
	{Name: "json/shuffled+null+spelling", Class: "json", St: c13Style{Shuffle: true, ExplicitNil: true, AltSpelling: true}},
	{Name: "jsonarray/shuffled+relobj", Class: "jsonarray", St: c13Style{Shuffle: true, RelObjKey: true}},
	{Name: "gql/literal", Class: "gql", St: c13Style{}, Node: 0},
	{Name: "gql/literal-shuffled+null+spelling", Class: "gql", St: c13Style{Shuffle: true, ExplicitNil: true, AltSpelling: true, RelObjKey: true}, Node: 1},
	{Name: "gqlvar/variables", Class: "gqlvar", St: c13Style{Ints: "int64", Floats: "float64"}, Node: 2},
	{Name: "create/stored-id", Class: "create", St: c13Style{Ints: "int64", Floats: "float64"}, Node: 3},
}

// c13SingleFlagStyles: the style of a route decomposed into styles that differ from the
// reference style in one aspect only (used to attribute a disagreement).
func c13SingleFlagStyles(st c13Style) map[string]c13Style {
	out := map[string]c13Style{}
	base := c13Style{Ints: st.Ints, Floats: st.Floats}
	if base.Ints == "" {
		base.Ints = "int"
	}
	if base.Floats == "" {
		base.Floats = "float64"
	}
	plain := c13Style{Ints: "int", Floats: "float64"}
	if st.Ints != "" && st.Ints != "int" {
		x := plain
		x.Ints = st.Ints
		out["ints-as-"+st.Ints] = x
	}
	if st.Floats != "" && st.Floats != "float64" {
		x := plain
		x.Floats = st.Floats
		out["floats-as-"+st.Floats] = x
	}
	if st.Times {
		x := plain
		x.Times = true
		out["time.Time"] = x
	}
	if st.TypedSlices {
		x := plain
		x.TypedSlices = true
		out["typed-slices"] = x
	}
	if st.ExplicitNil {
		x := plain
		x.ExplicitNil = true
		out["explicit-null"] = x
	}
	if st.RelObjKey {
		x := plain
		x.RelObjKey = true
		out["relation-object-key"] = x
	}
	if st.Shuffle {
		x := plain
		x.Shuffle = true
		out["shuffled-keys"] = x
	}
	if st.AltSpelling {
		x := plain
		x.AltSpelling = true
		out["alternative-spelling"] = x
	}
	return out
}

func c13GenFields(rng *rand.Rand) []c13Field {
	var fields []c13Field
	for i, k := range c13AllKinds {
		if rng.IntN(5) < 3 {
			fields = append(fields, c13Field{Name: fmt.Sprintf("f%c%d", 'a'+rng.IntN(26), i), Kind: k})
		}
	}
	if len(fields) < 2 {
		fields = append(fields, c13Field{Name: "s0", Kind: c13String}, c13Field{Name: "i0", Kind: c13Int})
	}
	rng.Shuffle(len(fields), func(i, j int) { fields[i], fields[j] = fields[j], fields[i] })
	return fields
}

func c13AllFields() []c13Field {
	var fields []c13Field
	for i, k := range c13AllKinds {
		fields = append(fields, c13Field{Name: fmt.Sprintf("f%d", i), Kind: k})
	}
	return fields
}

func c13DocCases(seed uint64, n int) []core.Case {
	cs := []core.Case{
		core.MkCase("doc/anchor-all-kinds", 11, c13DocParams{Anchor: "all-kinds", Docs: 6}),
		core.MkCase("doc/anchor-nulls", 12, c13DocParams{Anchor: "nulls", Docs: 4}),
		core.MkCase("doc/anchor-edge-values", 13, c13DocParams{Anchor: "edge", Docs: 6}),
		core.MkCase("doc/anchor-float32-halfway", 14, c13DocParams{Anchor: "float32-halfway", Docs: 4}),
	}
	rng := rand.New(rand.NewPCG(seed, 1313))
	for i := 0; i < n; i++ {
		cs = append(cs, core.MkCase("doc/generated", rng.Uint64(), c13DocParams{Docs: 5}))
	}
	return cs
}

func c13RunDoc(ctx context.Context, c core.Case, r *core.Rec) {
	var p c13DocParams
	c.P(&p)
	rng := c.Rng()
	var fields []c13Field
	if p.Anchor != "" {
		fields = c13AllFields()
	} else {
		fields = c13GenFields(rng)
	}
	env := &c13Env{ctx: ctx, fields: fields, sdl: c13SDL("D", fields, "")}
	defer env.close()
	// two referenced documents (only their ids matter)
	var refs []string
	for _, nm := range []string{"x", "y"} {
		rd, err := client.NewDocFromMap(map[string]any{"n": nm}, env.node(0).Col(ctx, "R").Definition())
		core.Must(err)
		refs = append(refs, rd.ID().String())
	}
	// nodes that must agree on the schema ids ("nodes that add the same schema agree on all identifiers")
	root0 := env.node(0).Col(ctx, "D").SchemaRoot()
	for i := 1; i < 4; i++ {
		if ri := env.node(i).Col(ctx, "D").SchemaRoot(); ri != root0 {
			r.Violate("schema-ids/nodes-disagree/single-type", "the same SDL added to two fresh nodes produced different schema roots",
				map[string]any{"sdl": env.sdl, "roots": []string{root0, ri}})
			return
		}
	}
	// a node whose schema differs (one more field) and one whose type only has another name
	alt := lightNode(ctx, false)
	defer alt.Close()
	_, err := alt.DB.AddSchema(ctx, c13SDL("D", fields, "zzextra: String"))
	core.Must(err)
	altDef := alt.Col(ctx, "D").Definition()

	seen := map[string]bool{}
	for di := 0; di < p.Docs; di++ {
		d := c13Doc{}
		for _, f := range fields {
			switch {
			case p.Anchor == "nulls" && rng.IntN(3) != 0:
			case p.Anchor == "" && rng.IntN(4) == 0:
			default:
				d[f.Name] = c13GenValue(rng, f.Kind, refs)
			}
		}
		if p.Anchor == "edge" {
			c13EdgeDoc(d, fields, di)
		}
		if p.Anchor == "float32-halfway" {
			// Float32 values given with more digits than single precision holds, chosen halfway between
			// two float32 values (exactly representable as float64): text -> float32 directly and
			// text -> float64 -> float32 round them differently
			for _, f := range fields {
				if f.Kind == c13Float32 {
					d[f.Name] = c13Float32Halfway[di%len(c13Float32Halfway)]
				}
			}
		}
		if di%2 == 1 || p.Anchor == "float32-halfway" {
			c13ClampInts(d, fields) // the GraphQL input type Int is 32 bit: keep half of the documents expressible there
		}
		ids := map[string]string{}
		errs := map[string]string{}
		ref, err := c13Routes[0].Run(env, fields, d, rng)
		if err != nil {
			r.Note("doc_rejected_by_reference_route")
			continue
		}
		if seen[ref] {
			continue // same logical document generated twice: create routes would collide
		}
		seen[ref] = true
		ids[c13Routes[0].Name] = ref
		r.Count("documents", 1)
		nNull, classes := 0, map[string]bool{}
		for _, f := range fields {
			if d[f.Name] == nil {
				nNull++
			} else {
				classes[string(f.Kind)] = true
				r.Count("kind_"+string(f.Kind), 1)
			}
		}
		if nNull > 0 {
			r.Count("docs_with_null_fields", 1)
		}
		for _, rt := range c13Routes[1:] {
			id, err := rt.Run(env, fields, d, rng)
			if err != nil {
				errs[rt.Name] = err.Error()
				r.Note("route_error/" + rt.Name)
				continue
			}
			ids[rt.Name] = id
			r.Count("evaluations", 1)
			r.Count("route_"+rt.Class, 1)
			if id != ref {
				for _, pr := range c13Attribute(ctx, fields, d, rt, c.Rng()) {
					r.Violate("docid/route-dependent/"+rt.Class+"/"+pr[0]+"/kind="+pr[1],
						fmt.Sprintf("the same logical document gets docID %s through NewDocFromMap(int,float64) but %s through route %s (responsible: route aspect %s, field kind %s)", ref, id, rt.Name, pr[0], pr[1]),
						map[string]any{"sdl": env.sdl, "doc": c13ObjectText(fields, d, c13Style{ExplicitNil: true}, rng, false), "ids": ids, "route_errors": errs})
				}
			}
		}
		// different schema root => different id
		if altDef.Schema.Root != root0 {
			ad, err := client.NewDocFromMap(c13GoMap(fields, d, c13Style{Ints: "int64", Floats: "float64"}), altDef)
			if err == nil {
				r.Count("evaluations", 1)
				r.Count("schema_root_differs_checks", 1)
				if ad.ID().String() == ref {
					r.Violate("docid/same-id-under-different-schema-root", "a document with the same field values gets the same docID in two collections whose schema roots differ",
						map[string]any{"sdl": env.sdl, "roots": []string{root0, altDef.Schema.Root}, "id": ref})
				}
			}
		} else {
			r.Note("alt_schema_has_same_root")
		}
		if len(ids) >= 6 {
			var ks []string
			for k := range classes {
				ks = append(ks, k)
			}
			sort.Strings(ks)
			r.Nontrivial(fmt.Sprintf("doc|%s|nulls=%v", strings.Join(ks, ","), nNull > 0))
		}
		if di == 0 {
			r.Sample(map[string]any{"kind": c.Kind, "sdl": env.sdl, "doc": c13ObjectText(fields, d, c13Style{ExplicitNil: true}, rng, false), "id": ref, "routes_agreeing": len(ids), "route_errors": errs})
		}
	}
}

func c13ClampInts(d c13Doc, fields []c13Field) {
	clamp := func(v any) any {
		if i, ok := v.(int64); ok && (i > math.MaxInt32 || i < math.MinInt32) {
			return i % 100000
		}
		return v
	}
	for _, f := range fields {
		switch f.Kind {
		case c13Int:
			if d[f.Name] != nil {
				d[f.Name] = clamp(d[f.Name])
			}
		case c13IntArr, c13IntArrNN:
			if arr, ok := d[f.Name].([]any); ok {
				for i := range arr {
					arr[i] = clamp(arr[i])
				}
			}
		}
	}
}

// c13EdgeDoc overwrites fields with hand-picked edge values (anchor).
func c13EdgeDoc(d c13Doc, fields []c13Field, i int) {
	for _, f := range fields {
		switch f.Kind {
		case c13Int:
			d[f.Name] = c13Ints[(7+i)%len(c13Ints)]
		case c13Float:
			d[f.Name] = c13Floats[(4+i)%len(c13Floats)]
		case c13IntArr:
			d[f.Name] = []any{int64(math.MaxInt64), nil, int64(math.MinInt64), int64(i)}
		case c13FltArrNN:
			d[f.Name] = []any{1e308, 5e-324, float64(i)}
		case c13String:
			d[f.Name] = c13Strings[(3+i)%len(c13Strings)]
		case c13DateTime:
			d[f.Name] = c13Times[i%len(c13Times)]
		}
	}
}

// c13Attribute narrows a disagreement between the reference route and route rt down to pairs
// (aspect of the route's style that reproduces it on its own, field kind for which a single-field
// document already disagrees under that aspect). Fresh nodes are used so that creating routes do
// not collide. "null-fields": the document without any value already disagrees.
func c13Attribute(ctx context.Context, fields []c13Field, d c13Doc, rt c13Route, rng *rand.Rand) [][2]string {
	disagree := func(route c13Route, doc c13Doc) bool {
		for try := 0; try < 3; try++ { // the alternative spelling is drawn at random
			env := &c13Env{ctx: ctx, fields: fields, sdl: c13SDL("D", fields, "")}
			a, err1 := c13Routes[0].Run(env, fields, doc, rng)
			b, err2 := route.Run(env, fields, doc, rng)
			env.close()
			if err1 == nil && err2 == nil && a != b {
				return true
			}
		}
		return false
	}
	styles := c13SingleFlagStyles(rt.St)
	styles["route-itself"] = c13RefStyle
	var names []string
	for name := range styles {
		names = append(names, name)
	}
	sort.Strings(names)
	var pairs [][2]string
	if plain := rt; true {
		plain.St = c13RefStyle
		if disagree(plain, d) {
			names = []string{"route-itself"} // the route disagrees whatever its style: do not also blame every aspect of the style
		}
	}
	for _, name := range names {
		one := rt
		one.St = styles[name]
		if !disagree(one, d) {
			continue
		}
		if disagree(one, c13Doc{}) {
			pairs = append(pairs, [2]string{name, "null-fields"})
			continue
		}
		found := map[string]bool{}
		for _, f := range fields {
			if d[f.Name] == nil {
				continue
			}
			if disagree(one, c13Doc{f.Name: d[f.Name]}) {
				k := string(f.Kind)
				if ek, _, isArr := f.Kind.elem(); isArr {
					k = string(ek) // arrays are attributed to their element kind
				}
				if v, ok := d[f.Name].(float64); ok && f.Kind == c13Float32 && float64(float32(v)) != v {
					k = "Float32-value-needing-rounding-to-single-precision"
				}
				found[k] = true
			}
		}
		if len(found) == 0 {
			pairs = append(pairs, [2]string{name, "only-in-combination"})
		}
		var ks []string
		for k := range found {
			ks = append(ks, k)
		}
		sort.Strings(ks)
		for _, k := range ks {
			pairs = append(pairs, [2]string{name, k})
		}
	}
	if len(pairs) == 0 {
		pairs = append(pairs, [2]string{"only-in-combination", "only-in-combination"})
	}
	return pairs
}

// ---------------------------------------------------------------------------------------
// schema-set cases

type c13Edge struct {
	From     int    `json:"from"`
	To       int    `json:"to"`
	Kind     string `json:"kind"` // one (one-sided) | oneone | onemany ; From holds the foreign key
	Explicit bool   `json:"explicit,omitempty"`
	Fwd      string `json:"fwd"`
	Back     string `json:"back,omitempty"`
}

type c13Set struct {
	Names   []string  `json:"names"`
	Scalars []string  `json:"scalars"` // one scalar field declaration per type
	Edges   []c13Edge `json:"edges"`
	Note    string    `json:"note,omitempty"`
	order   [][]int   // relation order per type (edge indexes), read from the real schema
	comps   [][]int   // undirected connected components
}

type c13SchemaParams struct {
	Set   *c13Set `json:"set,omitempty"` // explicit (anchors); otherwise generated from the case PRNG
	Aimed bool    `json:"aimed,omitempty"`
	Reps  int     `json:"reps"`
	Parts int     `json:"parts"` // max number of partitions tried
	// AllPerms: all 120 permutations of 5 types (otherwise 40 random ones); <= 4 types are always exhaustive
	AllPerms bool `json:"all_perms,omitempty"`
}

func (s *c13Set) typeSDL(i int, rng *rand.Rand) string {
	var lines []string
	lines = append(lines, s.Scalars[i])
	for k, e := range s.Edges {
		rel := fmt.Sprintf(`@relation(name: "rel%d")`, k)
		if e.From == i {
			l := fmt.Sprintf("%s: %s", e.Fwd, s.Names[e.To])
			if e.Kind == "oneone" || e.Explicit {
				l += " @primary"
			}
			lines = append(lines, l+" "+rel)
		}
		if e.To == i && e.Kind != "one" {
			if e.Kind == "oneone" {
				lines = append(lines, fmt.Sprintf("%s: %s %s", e.Back, s.Names[e.From], rel))
			} else {
				lines = append(lines, fmt.Sprintf("%s: [%s] %s", e.Back, s.Names[e.From], rel))
			}
		}
	}
	if rng != nil {
		rng.Shuffle(len(lines), func(a, b int) { lines[a], lines[b] = lines[b], lines[a] })
	}
	return fmt.Sprintf("type %s {\n  %s\n}\n", s.Names[i], strings.Join(lines, "\n  "))
}

func (s *c13Set) sdl(types []int, fieldRng *rand.Rand) string {
	var sb strings.Builder
	for _, i := range types {
		sb.WriteString(s.typeSDL(i, fieldRng))
	}
	return sb.String()
}

var c13ScalarDecls = []string{"v: String", "v: Int", "w: Float", "v: Boolean", "n: [Int!]", "t: DateTime", "name: String"}

func c13FieldName(rng *rand.Rand, k int, back bool) string {
	p := "r"
	if back {
		p = "b"
	}
	return fmt.Sprintf("%s%c%d", p, 'a'+rng.IntN(26), k)
}

// c13GenSet: random relation graph; aimed = a directed cycle plus a type of the cycle with a
// further relation that leaves the cycle towards a prunable type and is declared *after* the
// cycle relation (the shape on which the pruning slip of getSchemaSets acts).
func c13GenSet(rng *rand.Rand, aimed bool) *c13Set {
	n := 2 + rng.IntN(4)
	if aimed && n < 3 && rng.IntN(3) != 0 {
		n = 3
	}
	pool := []string{"A", "B", "C", "D", "E", "F", "G", "H", "K", "M", "P", "Q", "T", "U", "X", "Z"}
	rng.Shuffle(len(pool), func(i, j int) { pool[i], pool[j] = pool[j], pool[i] })
	s := &c13Set{Names: append([]string(nil), pool[:n]...)}
	for i := 0; i < n; i++ {
		s.Scalars = append(s.Scalars, c13ScalarDecls[rng.IntN(len(c13ScalarDecls))])
	}
	kinds := []string{"one", "one", "oneone", "onemany", "onemany"}
	add := func(from, to int, fwdPrefix string) {
		k := len(s.Edges)
		e := c13Edge{From: from, To: to, Kind: kinds[rng.IntN(len(kinds))], Explicit: rng.IntN(4) == 0}
		e.Fwd = c13FieldName(rng, k, false)
		if fwdPrefix != "" {
			e.Fwd = fwdPrefix + e.Fwd
		}
		if e.Kind != "one" {
			e.Back = c13FieldName(rng, k, true)
		}
		s.Edges = append(s.Edges, e)
	}
	if aimed {
		// cycle over the first c types (c = 1 is a self reference)
		c := 1 + rng.IntN(n-1)
		if c == 1 && rng.IntN(2) == 0 && n > 2 {
			c = 2
		}
		for i := 0; i < c; i++ {
			add(i, (i+1)%c, "c")
		}
		// a relation from a cycle member to a type outside, named so that it sorts after ("x…") the cycle relation
		x := rng.IntN(c)
		leaf := c + rng.IntN(n-c)
		add(x, leaf, "x")
		last := &s.Edges[len(s.Edges)-1]
		last.Explicit = s.Edges[x].Explicit || s.Edges[x].Kind == "oneone" // same group (explicit primaries come first)
		if last.Explicit && last.Kind == "onemany" {
			last.Kind = "one"
			last.Back = ""
		}
		if rng.IntN(3) == 0 { // sometimes the leaf continues into a chain
			if leaf+1 < n {
				add(leaf, leaf+1, "")
			}
		}
	}
	extra := rng.IntN(2*n + 1)
	if !aimed {
		extra += n - 1
	}
	for i := 0; i < extra; i++ {
		from, to := rng.IntN(n), rng.IntN(n)
		if aimed && rng.IntN(2) == 0 {
			// keep the outside types acyclic half of the time so that they stay prunable
			if to <= from {
				continue
			}
		}
		add(from, to, "")
	}
	return s
}

// analyse fills order / comps from the real schema descriptions of node n and returns the shape flags.
type c13Shape struct {
	Cyclic, Nontrivial, Slip, SelfRef, OneSided bool
	MaxLinks                                    int
	Canon                                       string
}

func (s *c13Set) analyse(schemas []client.SchemaDescription) (c13Shape, error) {
	n := len(s.Names)
	idx := map[string]int{}
	for i, nm := range s.Names {
		idx[nm] = i
	}
	fwd := map[string]int{} // "type/field" -> edge
	for k, e := range s.Edges {
		fwd[s.Names[e.From]+"/"+e.Fwd] = k
	}
	s.order = make([][]int, n)
	seenTypes := 0
	for _, sd := range schemas {
		i, ok := idx[sd.Name]
		if !ok {
			continue
		}
		seenTypes++
		for _, f := range sd.Fields {
			if f.Kind.IsObject() && !f.Kind.IsArray() {
				k, ok := fwd[sd.Name+"/"+f.Name]
				if !ok {
					return c13Shape{}, fmt.Errorf("schema %s has object field %s that the model does not know as a primary relation", sd.Name, f.Name)
				}
				s.order[i] = append(s.order[i], k)
			}
		}
	}
	total := 0
	for _, o := range s.order {
		total += len(o)
	}
	if seenTypes != n || total != len(s.Edges) {
		return c13Shape{}, fmt.Errorf("model mismatch: %d/%d types, %d/%d primary relation fields found in the schema descriptions", seenTypes, n, total, len(s.Edges))
	}
	// reachability on the primary-relation graph
	reach := make([][]bool, n)
	for i := range reach {
		reach[i] = make([]bool, n)
	}
	for _, e := range s.Edges {
		reach[e.From][e.To] = true
	}
	for k := 0; k < n; k++ {
		for i := 0; i < n; i++ {
			for j := 0; j < n; j++ {
				if reach[i][k] && reach[k][j] {
					reach[i][j] = true
				}
			}
		}
	}
	inCycle := func(i int) bool { return reach[i][i] }
	sameSCC := func(i, j int) bool { return i == j || (reach[i][j] && reach[j][i]) }
	reachesCycle := func(i int) bool {
		if inCycle(i) {
			return true
		}
		for j := 0; j < n; j++ {
			if reach[i][j] && inCycle(j) {
				return true
			}
		}
		return false
	}
	var sh c13Shape
	links := make([]int, n)
	for _, e := range s.Edges {
		links[e.From]++
		if e.To != e.From {
			links[e.To]++
		}
		if e.From == e.To {
			sh.SelfRef = true
		}
		if e.Kind == "one" {
			sh.OneSided = true
		}
	}
	for i := 0; i < n; i++ {
		if links[i] > sh.MaxLinks {
			sh.MaxLinks = links[i]
		}
		if !inCycle(i) {
			continue
		}
		sh.Cyclic = true
		cycleBefore := false
		for pos, k := range s.order[i] {
			to := s.Edges[k].To
			if pos > 0 && !sameSCC(i, to) {
				sh.Nontrivial = true
				if cycleBefore && !reachesCycle(to) {
					sh.Slip = true
				}
			}
			if sameSCC(i, to) && inCycle(to) {
				cycleBefore = true
			}
		}
	}
	// undirected components
	comp := make([]int, n)
	for i := range comp {
		comp[i] = i
	}
	var find func(int) int
	find = func(i int) int {
		if comp[i] != i {
			comp[i] = find(comp[i])
		}
		return comp[i]
	}
	for _, e := range s.Edges {
		comp[find(e.From)] = find(e.To)
	}
	byRoot := map[int][]int{}
	for i := 0; i < n; i++ {
		byRoot[find(i)] = append(byRoot[find(i)], i)
	}
	s.comps = nil
	for i := 0; i < n; i++ {
		if find(i) == i {
			s.comps = append(s.comps, byRoot[i])
		}
	}
	sh.Canon = s.canon()
	return sh, nil
}

// onlySelfLoops: every directed cycle of the set is a self reference.
func onlySelfLoops(s *c13Set) bool {
	n := len(s.Names)
	reach := make([][]bool, n)
	for i := range reach {
		reach[i] = make([]bool, n)
	}
	for _, e := range s.Edges {
		if e.From != e.To {
			reach[e.From][e.To] = true
		}
	}
	for k := 0; k < n; k++ {
		for i := 0; i < n; i++ {
			for j := 0; j < n; j++ {
				if reach[i][k] && reach[k][j] {
					reach[i][j] = true
				}
			}
		}
	}
	for i := 0; i < n; i++ {
		if reach[i][i] {
			return false
		}
	}
	return true
}

// c13CycleSplit: two distinct types that lie on a common directed cycle of primary relations were
// given identifiers of different schema sets.
func c13CycleSplit(s *c13Set, ids c13IDs) bool {
	n := len(s.Names)
	reach := make([][]bool, n)
	for i := range reach {
		reach[i] = make([]bool, n)
	}
	for _, e := range s.Edges {
		reach[e.From][e.To] = true
	}
	for k := 0; k < n; k++ {
		for i := 0; i < n; i++ {
			for j := 0; j < n; j++ {
				if reach[i][k] && reach[k][j] {
					reach[i][j] = true
				}
			}
		}
	}
	set := func(i int) string { return strings.SplitN(ids[s.Names[i]][1], "-", 2)[0] }
	for i := 0; i < n; i++ {
		for j := i + 1; j < n; j++ {
			if reach[i][j] && reach[j][i] && set(i) != set(j) {
				return true
			}
		}
	}
	return false
}

// canon: canonical form of the labelled multigraph (edge kind, explicitness, position in the
// source's relation order) under renaming of the types: minimum over all permutations.
func (s *c13Set) canon() string {
	n := len(s.Names)
	pos := map[int]int{}
	for _, o := range s.order {
		for p, k := range o {
			pos[k] = p
		}
	}
	best := ""
	perm := make([]int, n)
	for i := range perm {
		perm[i] = i
	}
	c13Permute(perm, func(p []int) {
		es := make([]string, len(s.Edges))
		for k, e := range s.Edges {
			es[k] = fmt.Sprintf("%d>%d:%s:%d", p[e.From], p[e.To], e.Kind, pos[k])
		}
		sort.Strings(es)
		c := strings.Join(es, ",")
		if best == "" || c < best {
			best = c
		}
	})
	return fmt.Sprintf("n=%d|%s", n, best)
}

func c13Permute(a []int, f func([]int)) {
	var rec func(k int)
	rec = func(k int) {
		if k == len(a) {
			f(a)
			return
		}
		for i := k; i < len(a); i++ {
			a[k], a[i] = a[i], a[k]
			rec(k + 1)
			a[k], a[i] = a[i], a[k]
		}
	}
	rec(0)
}

// c13Partitions enumerates the set partitions of {0..m-1}.
func c13Partitions(m int) [][][]int {
	var out [][][]int
	var rec func(i int, blocks [][]int)
	rec = func(i int, blocks [][]int) {
		if i == m {
			cp := make([][]int, len(blocks))
			for k, b := range blocks {
				cp[k] = append([]int(nil), b...)
			}
			out = append(out, cp)
			return
		}
		for k := range blocks {
			blocks[k] = append(blocks[k], i)
			rec(i+1, blocks)
			blocks[k] = blocks[k][:len(blocks[k])-1]
		}
		rec(i+1, append(blocks, []int{i}))
	}
	rec(0, nil)
	return out
}

type c13IDs map[string][3]string // type -> VersionID, CollectionID, schema Root

func (m c13IDs) equal(o c13IDs) bool {
	if len(m) != len(o) {
		return false
	}
	for k, v := range m {
		if o[k] != v {
			return false
		}
	}
	return true
}

// c13AddCalls adds the set to a fresh node with one AddSchema call per element of calls.
func c13AddCalls(ctx context.Context, s *c13Set, calls [][]int, fieldRng *rand.Rand) (c13IDs, []client.SchemaDescription, error) {
	n := lightNode(ctx, false)
	defer n.Close()
	ids := c13IDs{}
	for _, call := range calls {
		vs, err := n.DB.AddSchema(ctx, s.sdl(call, fieldRng))
		if err != nil {
			return nil, nil, err
		}
		for _, v := range vs {
			ids[v.Name] = [3]string{v.VersionID, v.CollectionID, ""}
		}
	}
	schemas, err := n.DB.GetSchemas(ctx, client.SchemaFetchOptions{})
	if err != nil {
		return nil, nil, err
	}
	for _, sd := range schemas {
		if v, ok := ids[sd.Name]; ok {
			if v[0] != sd.VersionID {
				return nil, nil, fmt.Errorf("schema %s: AddSchema returned version %s but GetSchemas lists %s", sd.Name, v[0], sd.VersionID)
			}
			v[2] = sd.Root
			ids[sd.Name] = v
		}
	}
	cols, err := n.DB.GetCollections(ctx, client.CollectionFetchOptions{})
	if err != nil {
		return nil, nil, err
	}
	for _, col := range cols {
		v := col.Version()
		if got, ok := ids[v.Name]; ok && (got[0] != v.VersionID || got[1] != v.CollectionID) {
			return nil, nil, fmt.Errorf("collection %s: AddSchema returned (%s,%s) but GetCollections lists (%s,%s)", v.Name, got[0], got[1], v.VersionID, v.CollectionID)
		}
	}
	return ids, schemas, nil
}

func c13All(n int) []int {
	a := make([]int, n)
	for i := range a {
		a[i] = i
	}
	return a
}

func c13RunSchema(ctx context.Context, c core.Case, r *core.Rec) {
	var p c13SchemaParams
	c.P(&p)
	rng := c.Rng()
	s := p.Set
	if s == nil {
		s = c13GenSet(rng, p.Aimed)
	}
	n := len(s.Names)
	base, schemas, err := c13AddCalls(ctx, s, [][]int{c13All(n)}, nil)
	if err != nil {
		r.Note("schema_set_rejected")
		r.Count("schema_sets_rejected", 1)
		if p.Set != nil {
			r.Count("harness_anchor_schema_sets_rejected", 1)
			fmt.Println("C13 anchor schema set rejected:", err, "\n"+s.sdl(c13All(n), nil))
		}
		return
	}
	sh, err := s.analyse(schemas)
	if err != nil {
		r.Count("harness_schema_model_mismatch", 1)
		fmt.Println("C13 schema model mismatch:", err, "\n"+s.sdl(c13All(n), nil))
		return
	}
	r.Count("schema_sets", 1)
	shapeTag := "acyclic"
	if sh.Cyclic {
		shapeTag = "cyclic"
		r.Count("schema_sets_cyclic", 1)
	}
	if sh.SelfRef {
		r.Count("schema_sets_self_reference", 1)
	}
	if sh.OneSided {
		r.Count("schema_sets_one_sided_relation", 1)
	}
	if sh.MaxLinks >= 3 {
		r.Count("schema_sets_type_with_3_links", 1)
	}
	if len(s.comps) > 1 {
		r.Count("schema_sets_multi_component", 1)
	}
	distinctIDs := map[string]bool{}
	for _, v := range base {
		distinctIDs[strings.SplitN(v[1], "-", 2)[0]] = true
	}
	if len(distinctIDs) < n {
		r.Count("schema_sets_with_grouped_cycle", 1) // some types share a set id (cid-<index>)
	} else if sh.Cyclic && !onlySelfLoops(s) {
		// a cycle over >= 2 types exists but no two types share a set id: the pruning slip of
		// getSchemaSets (DESIGN.md section 7 row 12) dissolved the group — deterministic, so not a violation
		r.Count("schema_sets_cycle_not_grouped_by_getSchemaSets", 1)
	}
	if c13CycleSplit(s, base) {
		// two types of one directed cycle carry different set ids (mapSchemaSetIDs overwrites the set id of a
		// cycle member when a later sorting type outside the cycle points to it): deterministic, so not a violation
		r.Count("schema_sets_cycle_members_in_different_sets", 1)
	}
	if sh.Nontrivial {
		r.Count("schema_sets_nontrivial", 1)
		r.Nontrivial("schema|" + sh.Canon)
	}
	if sh.Slip {
		r.Count("schema_sets_slip_shape", 1)
	}
	detail := func(label string, calls [][]int, got c13IDs, err error) map[string]any {
		var callNames [][]string
		for _, call := range calls {
			var ns []string
			for _, i := range call {
				ns = append(ns, s.Names[i])
			}
			callNames = append(callNames, ns)
		}
		d := map[string]any{"sdl": s.sdl(c13All(n), nil), "variant": label, "calls": callNames, "expected": base, "got": got, "shape": sh}
		if err != nil {
			d["error"] = err.Error()
		}
		return d
	}
	try := func(class, label string, calls [][]int, fieldRng *rand.Rand) {
		got, _, err := c13AddCalls(ctx, s, calls, fieldRng)
		r.Count("evaluations", 1)
		r.Count("variants_"+class, 1)
		if class == "field-order" {
			if err != nil || !got.equal(base) {
				r.Note("ids_depend_on_field_order_within_type")
			}
			return
		}
		if err != nil {
			r.Violate("schema-ids/"+class+"/rejected-although-one-call-in-given-order-is-accepted/"+shapeTag,
				fmt.Sprintf("the type set is accepted in declaration order but the %s variant fails: %v", class, err), detail(label, calls, nil, err))
			return
		}
		if !got.equal(base) {
			var diff []string
			for k, v := range base {
				if got[k] != v {
					diff = append(diff, k)
				}
			}
			sort.Strings(diff)
			r.Violate("schema-ids/"+class+"/ids-differ/"+shapeTag,
				fmt.Sprintf("identifiers of %v differ between the reference AddSchema call and the %s variant (%s)", diff, class, label), detail(label, calls, got, nil))
		}
	}
	// 1. permutations of the type order
	if n <= 4 || (n == 5 && p.AllPerms) {
		c13Permute(c13All(n), func(pm []int) {
			try("permutation", fmt.Sprint(pm), [][]int{append([]int(nil), pm...)}, nil)
		})
	} else {
		for i := 0; i < 40; i++ {
			pm := rng.Perm(n)
			try("permutation", fmt.Sprint(pm), [][]int{pm}, nil)
		}
	}
	// 2. partitions into several calls along connected components
	parts := c13Partitions(len(s.comps))
	rng.Shuffle(len(parts), func(i, j int) { parts[i], parts[j] = parts[j], parts[i] })
	tried := 0
	for _, part := range parts {
		if len(part) == 1 {
			continue // the single call is the reference
		}
		if tried >= p.Parts {
			break
		}
		tried++
		var calls [][]int
		for _, block := range part {
			var call []int
			for _, ci := range block {
				call = append(call, s.comps[ci]...)
			}
			rng.Shuffle(len(call), func(i, j int) { call[i], call[j] = call[j], call[i] })
			calls = append(calls, call)
		}
		rng.Shuffle(len(calls), func(i, j int) { calls[i], calls[j] = calls[j], calls[i] })
		try("partition", fmt.Sprint(calls), calls, nil)
	}
	// 3. repetitions of the identical call (map iteration order inside getSchemaSets is randomised)
	for i := 0; i < p.Reps; i++ {
		try("repetition", fmt.Sprintf("#%d", i), [][]int{c13All(n)}, nil)
	}
	// 4. field order inside the types (not part of the statement: note only)
	for i := 0; i < 2; i++ {
		try("field-order", fmt.Sprintf("#%d", i), [][]int{c13All(n)}, rng)
	}
	r.Sample(map[string]any{"kind": c.Kind, "sdl": s.sdl(c13All(n), nil), "shape": sh, "ids": base})
}

// hand-written anchor sets (seed independent). Relation order inside a type: explicit @primary
// fields sorted by name, then implied primaries sorted by name.
func c13AnchorSets() []*c13Set {
	one := func(f, t int, fwd string) c13Edge { return c13Edge{From: f, To: t, Kind: "one", Fwd: fwd} }
	many := func(f, t int, fwd, back string) c13Edge {
		return c13Edge{From: f, To: t, Kind: "onemany", Fwd: fwd, Back: back}
	}
	oo := func(f, t int, fwd, back string) c13Edge {
		return c13Edge{From: f, To: t, Kind: "oneone", Fwd: fwd, Back: back}
	}
	sc := func(n int) []string { return c13ScalarDecls[:n] }
	return []*c13Set{
		{Note: "2-cycle, A also points to leaf C after the cycle relation", Names: []string{"A", "B", "C"}, Scalars: sc(3), Edges: []c13Edge{one(0, 1, "ab"), one(1, 0, "ba"), one(0, 2, "zc")}},
		{Note: "2-cycle, leaf relation declared before the cycle relation", Names: []string{"A", "B", "C"}, Scalars: sc(3), Edges: []c13Edge{one(0, 1, "mb"), one(1, 0, "ba"), one(0, 2, "ac")}},
		{Note: "self reference plus leaf after it", Names: []string{"U", "L"}, Scalars: sc(2), Edges: []c13Edge{one(0, 0, "boss"), one(0, 1, "zleaf")}},
		{Note: "3-cycle with two leaves hanging off one member (three relations)", Names: []string{"A", "B", "C", "D", "E"}, Scalars: sc(5), Edges: []c13Edge{one(0, 1, "a1"), one(1, 2, "b1"), one(2, 0, "c1"), one(0, 3, "a2"), one(0, 4, "a3")}},
		{Note: "2-cycle through one-one and one-many, chain of two prunable types behind it", Names: []string{"P", "Q", "R", "S"}, Scalars: sc(4), Edges: []c13Edge{oo(0, 1, "pq", "qp"), many(1, 0, "qp2", "pq2"), one(1, 2, "zr"), one(2, 3, "rs")}},
		{Note: "two cycles linked one way, leaf behind the second", Names: []string{"A", "B", "C", "D", "E"}, Scalars: sc(5), Edges: []c13Edge{one(0, 1, "ab"), one(1, 0, "ba"), one(1, 2, "zc"), one(2, 3, "cd"), one(3, 2, "dc"), one(3, 4, "ze")}},
		{Note: "figure eight sharing one type, leaf last", Names: []string{"M", "A", "B", "L"}, Scalars: sc(4), Edges: []c13Edge{one(0, 1, "ma"), one(1, 0, "am"), one(0, 2, "mb"), one(2, 0, "bm"), one(0, 3, "zl")}},
		{Note: "cycle member with leaf relation in the middle of three", Names: []string{"A", "B", "C"}, Scalars: sc(3), Edges: []c13Edge{one(0, 1, "a1"), one(1, 0, "b1"), one(0, 2, "a2"), many(0, 1, "a3", "b3")}},
		{Note: "self reference one-many plus cycle plus leaf", Names: []string{"T", "U", "V"}, Scalars: sc(3), Edges: []c13Edge{many(0, 0, "parent", "children"), one(0, 1, "tu"), one(1, 0, "ut"), one(1, 2, "zv")}},
		{Note: "explicit primaries: cycle relation explicit, leaf explicit and later", Names: []string{"A", "B", "C"}, Scalars: sc(3), Edges: []c13Edge{{From: 0, To: 1, Kind: "one", Explicit: true, Fwd: "ab"}, one(1, 0, "ba"), {From: 0, To: 2, Kind: "one", Explicit: true, Fwd: "zc"}}},
		{Note: "two independent components: a cycle with leaf, and a plain pair", Names: []string{"A", "B", "C", "X", "Y"}, Scalars: sc(5), Edges: []c13Edge{one(0, 1, "ab"), one(1, 0, "ba"), one(1, 2, "zc"), many(3, 4, "xy", "yx")}},
		{Note: "4-cycle, each member with its own leaf-ward relation to the same leaf", Names: []string{"A", "B", "C", "D", "L"}, Scalars: sc(5), Edges: []c13Edge{one(0, 1, "n1"), one(1, 2, "n2"), one(2, 3, "n3"), one(3, 0, "n4"), one(0, 4, "z1"), one(2, 4, "z2")}},
		{Note: "two 2-cycles, one-way link from the later sorting cycle into the earlier sorting one", Names: []string{"A", "B", "C", "D"}, Scalars: sc(4), Edges: []c13Edge{one(0, 1, "ab"), one(1, 0, "ba"), one(2, 3, "cd"), one(3, 2, "dc"), one(2, 0, "ca")}},
		{Note: "type outside a 2-cycle pointing into it and sorting after it", Names: []string{"A", "B", "C"}, Scalars: sc(3), Edges: []c13Edge{one(0, 1, "ab"), one(1, 0, "ba"), one(2, 0, "ca")}},
		{Note: "two 2-cycles X,Y and A,B with a link from X into A (the pointed-to cycle sorts first)", Names: []string{"X", "Y", "A", "B"}, Scalars: sc(4), Edges: []c13Edge{one(0, 1, "xy"), one(1, 0, "yx"), one(2, 3, "ab"), one(3, 2, "ba"), one(0, 2, "xa")}},
		{Note: "three isolated types and one self reference (partitions)", Names: []string{"A", "B", "C", "D"}, Scalars: sc(4), Edges: []c13Edge{one(3, 3, "me")}},
	}
}

func c13SchemaCases(seed uint64, tier string) []core.Case {
	reps := tierN(tier, 30, 200)
	parts := tierN(tier, 15, 60)
	var cs []core.Case
	for _, s := range c13AnchorSets() {
		cs = append(cs, core.MkCase("schema/anchor", 7, c13SchemaParams{Set: s, Reps: reps, Parts: parts, AllPerms: true}))
	}
	rng := rand.New(rand.NewPCG(seed, 1314))
	n := tierN(tier, 110, 600)
	for i := 0; i < n; i++ {
		aimed := i%3 != 2
		kind := "schema/random"
		if aimed {
			kind = "schema/aimed"
		}
		cs = append(cs, core.MkCase(kind, rng.Uint64(), c13SchemaParams{Aimed: aimed, Reps: reps, Parts: parts, AllPerms: tier == "thorough" || i%4 == 0}))
	}
	return cs
}

func init() {
	core.Register(&core.Check{
		ID: "C13", Level: "exploration",
		Rule: "doc cases: generated schema (subset of 18 field kinds incl. arrays, JSON, relation, counter) x generated documents (edge ints/floats, unicode, nulls); the docID is obtained through 11 routes " +
			"(NewDocFromMap with int/int64/float64/json.Number/time.Time/typed slices, nil vs omitted, rel vs rel_id; NewDocFromJSON canonical and shuffled/whitespace/number spelling/\\u escapes; NewDocsFromJSON; " +
			"create_ mutation literal on two nodes; create_ with variables; collection.Create + stored id) on four independent nodes and must agree, and must differ under a different schema root; distinct by (set of kinds present, nulls present). " +
			"route cases: generated schema x 3 final contents x 9 multi-step construction routes (two-step map+Set, two-step JSON+SetWithJSON, empty+Set, full document then one field changed with Set, NewDocWithID(id of other content / random id)+Set, " +
			"NewDocFromMap with a foreign _docID key, two-step + GenerateAndSetDocID, multi-step controls whose carried id stays the content id), each submitted with Create / CreateMany (other content travelling in the same batch) / Save on a node of its own; " +
			"the submit must be rejected or store the document under exactly the docID the same final content gets in one go on a reference node (doc.ID() afterwards = stored _docID, collection.Get and GetAllDocIDs agree with the query), " +
			"the docID of the other content must stay free for that content, and every row of a route node must equal the row with that _docID on the reference node; distinct by (route, submit, accepted|rejected). " +
			"schema cases: 16 anchor sets + generated type sets (2-5 types, random one-sided/1-1/1-N/self relations, two thirds aimed at 'cycle + later relation leaving the cycle') added to fresh nodes under every permutation of the types, " +
			"partitions into several AddSchema calls along connected components and R identical repetitions; maps type -> (VersionID, CollectionID, Root) must be equal. " +
			"non-trivial schema set = has a cycle and a cycle member whose non-first relation leaves its cycle; distinct by canonical form of the labelled relation graph.",
		Cases: func(seed uint64, tier string) []core.Case {
			cs := append(c13DocCases(seed, tierN(tier, 80, 1000)), c13RouteCases(seed, tierN(tier, 60, 700))...)
			return append(cs, c13SchemaCases(seed, tier)...)
		},
		Run: func(ctx context.Context, c core.Case, r *core.Rec) {
			switch {
			case strings.HasPrefix(c.Kind, "doc/"):
				c13RunDoc(ctx, c, r)
			case strings.HasPrefix(c.Kind, "route/"):
				c13RunRoute(ctx, c, r)
			default:
				c13RunSchema(ctx, c, r)
			}
		},
		Floors: append(c13RtFloors(), "documents", "docs_with_null_fields", "route_map", "route_json", "route_jsonarray", "route_gql", "route_gqlvar", "route_create", "schema_root_differs_checks",
			"schema_sets", "schema_sets_cyclic", "schema_sets_with_grouped_cycle", "schema_sets_self_reference", "schema_sets_one_sided_relation", "schema_sets_type_with_3_links",
			"schema_sets_multi_component", "schema_sets_slip_shape", "variants_permutation", "variants_partition", "variants_repetition", "floor_nontrivial_schema_sets_ge_10", "floor_harness_model_agrees_with_parser"),
		CaseTimeout: 120 * time.Second,
		PostProcess: func(sup *core.Supervisor, m *core.Rec) {
			if m.Counters["schema_sets_nontrivial"] >= 10 {
				m.Counters["floor_nontrivial_schema_sets_ge_10"] = 1
			}
			if m.Counters["harness_anchor_schema_sets_rejected"] == 0 && m.Counters["harness_schema_model_mismatch"] == 0 {
				m.Counters["floor_harness_model_agrees_with_parser"] = 1
			}
		},
		Assumptions: []string{
			"'the run' is sampled by repetitions on fresh nodes inside one process and by 16 worker processes that each recompute the anchors; Go randomises map iteration per range statement, so repetitions inside one process sample the same nondeterminism as separate processes",
			"a connected component of the relation graph is always added in one AddSchema call (a relation to a type of an earlier call is rejected by DefraDB: 'relation missing field')",
			"a construction route that rejects a document which the reference route accepts is recorded as a note, not as a violation (C13 speaks about the identifiers that are produced)",
			"a multi-step construction route may be rejected (today: ErrDocVerification whenever the carried id differs from the id of the content) or accepted under the content id; which of the two is not prescribed. A counter field given an explicit null at creation reads 0 while an omitted one reads null (same docID): the rows compared between nodes normalise that",
		},
	})
}
