package checks

// C15 — replication eventually delivers every commit, across outages (bounded restatement).
//
// Two real nodes A and B on 127.0.0.1 (fixed ports, fixed libp2p keys).  A schedule of writes on
// A is interleaved with B-down / B-up (peer closed, or the whole node closed and re-opened on its
// file store), schema patches (both nodes / A only / B later) and writes during the outage.
// Every faulty schedule runs next to its *control*: the same writes and patches without the
// outage.  The verdict never depends on the clock:
//
//   HELD          B's documents and composite heads equal A's.
//   VIOLATION     B lacks a commit of A *and* nothing remains in the system that could ever
//                 deliver it: no retry record and no retry-doc marker for B in A's peer store,
//                 no push in flight (gRPC interceptor journal), every update event of A has had
//                 its push attempt, no merge in flight on B (bus + error log) — observed unchanged
//                 on `confirmPolls` successive observations; and the control converged (so the
//                 loss is attributed to the outage handling).
//   INCONCLUSIVE  work is still pending at the deadline D.
//
// Sleeps are used only to pace observations (waiting, not judging).
//
// Interrupted syncs.  Taking B down *between* operations never leaves B with half a DAG: either the
// push reached B and was synced completely, or it did not reach B at all.  The receiver's syncDAG
// however stores the pushed head block first and fetches the blocks it links to afterwards, so a
// sync that is cut short (link fetch failure, receiver fault, restart in the middle) leaves "head
// present, linked blocks missing" — a state in which "I have this head already" does not mean "I
// have its DAG".  Such states are produced deterministically, not by timing: B's database and peer
// run on a store wrapper (core.MatchFault) that fails the k-th direct write (or read) on /db/blocks
// of a window opened by the schedule (`arm`), i.e. the 2nd, 3rd ... block of the next sync;
// `awaitfault` waits for the failed push and records whether B really is in the half-synced state
// (observed on the raw store: a head of A whose block B has while B lacks a block of its closure);
// the window is closed (`disarm`) — optionally after a failed retry (sticky fault) or with a
// restart of B's peer / of the whole node on its file store in between — and the same clock-free
// oracle decides: A's retry must re-deliver the commit.  The control of such a schedule is the
// same schedule without the fault window.

//
// Scenario families beyond the plain collection (c15_variants.go).  (1) @branchable collection: every
// write on A also makes a collection-level commit, announced by an update event without a document
// id; B must end with A's collection-level heads (/db/heads/c/...) as well, and the newest
// collection-level announcement counts for A's quiescence like a document's.  (2) Document ACP on
// both nodes, documents registered to an owner identity on A only.  (3) `setrep`: the replicator is
// configured after documents exist (SetReplicator's own push of the existing heads; its end is
// observed through the replicator-completed event), `delrep`: it is deleted while retries are
// pending.  A schedule without outage and fault window is its own control; a loss in a control is
// reported as undelivered-without-outage/...
//
// Third clock-free criterion (retry rounds that do nothing): the retry record has started
// c15IdleRetryRounds further rounds during which A sent no push (every attempt, also a failed dial,
// is journalled) and the set of retry-doc markers did not change, B reachable, nothing in flight
// on B: the retry loop is alive but leaves A exactly as it finds it.

import (
	"context"
	"encoding/json"
	"fmt"
	"math/rand/v2"
	gonet "net"
	"os"
	"path/filepath"
	"regexp"
	"sort"
	"strings"
	"sync"
	"time"

	"github.com/ipfs/go-cid"
	"github.com/sourcenetwork/immutable"
	"github.com/sourcenetwork/lens/host-go/config/model"

	"github.com/sourcenetwork/defradb/acp/identity"
	"github.com/sourcenetwork/defradb/client"
	icore "github.com/sourcenetwork/defradb/internal/core"
	coreblock "github.com/sourcenetwork/defradb/internal/core/block"
	"github.com/sourcenetwork/defradb/internal/datastore"
	"github.com/sourcenetwork/defradb/internal/keys"

	"github.com/sourcenetwork/defradb/verifharness/core"
	"github.com/sourcenetwork/defradb/verifharness/p2p"
)

const (
	c15SDL   = `type Doc { name: String  s: String  n: Int  k: Int @crdt(type: pncounter) }`
	c15Patch = `[{ "op": "add", "path": "/Doc/Fields/-", "value": {"Name": "email", "Kind": 11} }]`

	c15Deadline         = 90 * time.Second       // D of the restatement
	c15Poll             = 250 * time.Millisecond // pacing of observations
	c15ConfirmPolls     = 14                     // successive identical quiescent observations (> one retry-loop period)
	c15StuckPolls       = 48                     // observations of a "retrying" record without any push
	c15NoProgressRounds = 6                      // identical failed deliveries against an unchanged receiver
	c15IdleRetryRounds  = 5                      // retry rounds of A that pushed nothing and cleared no marker
	c15SettleMax        = 12 * time.Second
	c15RetryWait        = 10 * time.Second
)

// c15DeadlineNow: D, shortened only by a development aid (diagnosing slow recoveries).
func c15DeadlineNow() time.Duration {
	if v := os.Getenv("VERIF_C15_DEADLINE_S"); v != "" {
		var n int
		if _, err := fmt.Sscanf(v, "%d", &n); err == nil && n > 0 {
			return time.Duration(n) * time.Second
		}
	}
	// on a machine that is starved of CPU the same recovery takes proportionally longer
	return time.Duration(float64(c15Deadline) * c15Stretch())
}

type c15Step struct {
	Op   string         `json:"op"` // create | update | delete | down | up | patch | settle | waitretry | arm | awaitfault | disarm | setrep
	Doc  int            `json:"doc,omitempty"`
	Vals map[string]any `json:"vals,omitempty"`
	Mode string         `json:"mode,omitempty"` // down: peer|node   patch: both|A|B
	// arm: the K-th direct (non-transactional) operation Fault ("set" | "get") on B's /db/blocks
	// fails from now on; Sticky: every later one too, until disarm
	Fault  string `json:"fault,omitempty"`
	K      int    `json:"k,omitempty"`
	Sticky bool   `json:"sticky,omitempty"`
	// create (scenarios with document ACP): the document is created under the owner identity, i.e.
	// registered with A's access control (a private document)
	Private bool `json:"private,omitempty"`
}

type c15Scenario struct {
	Name   string    `json:"name"`
	Config string    `json:"config"`  // rep | pubsub | both
	BStore string    `json:"b_store"` // badger | file
	Steps  []c15Step `json:"steps"`
	// Branchable: the collection is declared @branchable, so every write on A also makes a
	// collection-level commit (update event without a document id) that B must end up with.
	Branchable bool `json:"branchable,omitempty"`
	// ACP: both nodes run a local document ACP and the collection carries a policy; documents
	// created with Private are registered to an owner identity on A.
	ACP bool `json:"acp,omitempty"`
}

// explicitSetRep: the schedule configures the replicator itself (step `setrep`, after documents
// exist) instead of before the first write.
func (s c15Scenario) explicitSetRep() bool {
	for _, st := range s.Steps {
		switch st.Op {
		case "setrep":
			return true
		case "delrep":
			return false // the replicator that is deleted is the one configured before the first write
		}
	}
	return false
}

// hasDisturbance: the schedule contains an outage or a fault window (otherwise it is its own control).
func (s c15Scenario) hasDisturbance() bool {
	for _, st := range s.Steps {
		switch st.Op {
		case "down", "arm", "delrep":
			return true
		}
	}
	return false
}

func (s c15Scenario) canon() string {
	var sb strings.Builder
	sb.WriteString(s.Config + "|" + s.BStore + "|")
	if s.Branchable {
		sb.WriteString("branchable|")
	}
	if s.ACP {
		sb.WriteString("acp|")
	}
	for _, st := range s.Steps {
		sb.WriteString(st.Op)
		switch st.Op {
		case "create", "update", "delete":
			fmt.Fprintf(&sb, "%d", st.Doc)
			var ks []string
			for k := range st.Vals {
				ks = append(ks, k)
			}
			sort.Strings(ks)
			sb.WriteString(strings.Join(ks, ","))
			if st.Private {
				sb.WriteString("!private")
			}
		case "down", "patch", "up":
			sb.WriteString(":" + st.Mode)
		case "arm":
			fmt.Fprintf(&sb, ":%s%d%v", st.Fault, st.K, st.Sticky)
		}
		sb.WriteString(";")
	}
	return sb.String()
}

// control removes the outage and the fault windows from a schedule.
func (s c15Scenario) control() c15Scenario {
	c := c15Scenario{Name: s.Name + "/control", Config: s.Config, BStore: s.BStore, Branchable: s.Branchable, ACP: s.ACP}
	for _, st := range s.Steps {
		switch st.Op {
		case "down", "up", "waitretry", "arm", "awaitfault", "disarm":
			continue
		case "delrep":
			continue // deleting the replicator and configuring it again belongs to the disturbance
		case "setrep":
			if !s.explicitSetRep() {
				continue
			}
		}
		c.Steps = append(c.Steps, st)
	}
	return c
}

func cr(d int, vals map[string]any) c15Step { return c15Step{Op: "create", Doc: d, Vals: vals} }
func up(d int, vals map[string]any) c15Step { return c15Step{Op: "update", Doc: d, Vals: vals} }
func del(d int) c15Step                     { return c15Step{Op: "delete", Doc: d} }
func down(mode string) c15Step              { return c15Step{Op: "down", Mode: mode} }
func bup() c15Step                          { return c15Step{Op: "up"} }
func patch(who string) c15Step              { return c15Step{Op: "patch", Mode: who} }
func settle() c15Step                       { return c15Step{Op: "settle"} }
func waitretry() c15Step                    { return c15Step{Op: "waitretry"} }
func pause() c15Step                        { return c15Step{Op: "pause"} }
func arm(fault string, k int, sticky bool) c15Step {
	return c15Step{Op: "arm", Fault: fault, K: k, Sticky: sticky}
}
func awaitfault() c15Step { return c15Step{Op: "awaitfault"} }
func disarm() c15Step     { return c15Step{Op: "disarm"} }

type M = map[string]any

func c15Anchors() []c15Scenario {
	return []c15Scenario{
		// the schedule of DESIGN.md section 7 row 13: retry after a patch that B has not applied
		{Name: "anchor/patch-A-only-during-outage", Config: "rep", BStore: "badger", Steps: []c15Step{
			cr(0, M{"name": "a0", "n": 1}), settle(), down("peer"), up(0, M{"n": 5}), patch("A"), up(0, M{"s": "hello"}), bup()}},
		// create / update / delete / multi-document during an outage, with a failed retry in between
		{Name: "anchor/multi-doc-outage-waitretry", Config: "rep", BStore: "badger", Steps: []c15Step{
			cr(0, M{"name": "b0", "n": 1}), cr(1, M{"name": "b1", "k": 2}), settle(), down("peer"),
			up(0, M{"n": 2}), cr(2, M{"name": "b2"}), del(1), waitretry(), up(0, M{"k": 3}), bup()}},
		// B restarted as a whole node on a file store
		{Name: "anchor/node-restart-file-store", Config: "rep", BStore: "file", Steps: []c15Step{
			cr(0, M{"name": "c0", "n": 1}), settle(), down("node"), up(0, M{"n": 7}), cr(1, M{"name": "c1", "s": "x"}), bup(),
			up(1, M{"s": "y"})}},
		// patch on both nodes between writes, outage around it
		{Name: "anchor/patch-both-then-outage", Config: "rep", BStore: "badger", Steps: []c15Step{
			cr(0, M{"name": "d0"}), patch("both"), settle(), down("peer"), up(0, M{"email": "e@x", "n": 3}), cr(1, M{"name": "d1", "email": "f@x"}), bup()}},
		// patch on B later than on A, across a node restart
		{Name: "anchor/patch-B-later", Config: "rep", BStore: "file", Steps: []c15Step{
			cr(0, M{"name": "e0", "n": 1}), settle(), down("node"), patch("A"), up(0, M{"n": 2}), bup(), patch("B"), up(0, M{"s": "z"})}},
		// two outages, writes in flight when B goes down (no settle)
		{Name: "anchor/two-outages-unsettled", Config: "rep", BStore: "badger", Steps: []c15Step{
			cr(0, M{"name": "f0", "k": 1}), down("peer"), up(0, M{"k": 2}), bup(), up(0, M{"k": -1}), down("peer"), up(0, M{"n": 9}), waitretry(), bup()}},
		// replicator and pubsub subscription together
		{Name: "anchor/both-configs", Config: "both", BStore: "badger", Steps: []c15Step{
			cr(0, M{"name": "g0", "n": 1}), settle(), down("peer"), up(0, M{"n": 2}), cr(1, M{"name": "g1"}), bup(), up(1, M{"s": "q"})}},
		// A reconnects while B's peer is still starting (no write during the outage, so that A's
		// dialer is not in back-off); the write after it needs a block fetched from A
		{Name: "anchor/reconnect-during-peer-start", Config: "rep", BStore: "badger", Steps: []c15Step{
			cr(0, M{"name": "i0", "n": 0}), settle(), down("peer"), {Op: "up", Mode: "early-dial"}, up(0, M{"n": 1, "s": "x"})}},
		// pubsub subscription only: writes during the outage, the document does not change afterwards
		{Name: "anchor/pubsub-only-outage", Config: "pubsub", BStore: "badger", Steps: []c15Step{
			cr(0, M{"name": "h0", "n": 1}), cr(1, M{"name": "h1"}), settle(), down("peer"), up(0, M{"n": 2}), bup(), pause(), up(1, M{"s": "after"})}},
	}
}

// c15FaultAnchors: syncs interrupted on the receiver after the head block was stored.
func c15FaultAnchors() []c15Scenario {
	return []c15Scenario{
		// the 2nd block written by the sync of an update fails on B: head stored, field block missing;
		// A records the failed push and its retry has to deliver the commit
		{Name: "anchor/sync-interrupted-after-head-stored", Config: "rep", BStore: "badger", Steps: []c15Step{
			cr(0, M{"name": "j0", "n": 1}), settle(), arm("set", 2, false), up(0, M{"n": 5}), awaitfault(), disarm()}},
		// B's store stays broken until the whole node is restarted on its file store: the half-synced
		// state survives the restart
		{Name: "anchor/sync-interrupted-then-node-restart", Config: "rep", BStore: "file", Steps: []c15Step{
			cr(0, M{"name": "k0", "n": 1}), settle(), arm("set", 2, true), up(0, M{"n": 7, "s": "x"}), awaitfault(), down("node"), disarm(), bup()}},
		// the first retry fails as well (store still broken), then the store heals; a later write
		// concerns another document only
		{Name: "anchor/sync-interrupted-failed-retry-then-healed", Config: "rep", BStore: "badger", Steps: []c15Step{
			cr(0, M{"name": "l0", "k": 1}), cr(1, M{"name": "l1"}), settle(), arm("set", 2, true), up(0, M{"k": 2}), awaitfault(), waitretry(), disarm(),
			up(1, M{"s": "other"})}},
		// sync of a create cut short at its 3rd block, replicator and pubsub together, B's peer restarted
		{Name: "anchor/create-sync-interrupted-then-peer-restart", Config: "both", BStore: "badger", Steps: []c15Step{
			cr(0, M{"name": "m0"}), settle(), arm("set", 3, true), cr(1, M{"name": "m1", "n": 4, "k": 2}), awaitfault(), down("peer"), disarm(), bup()}},
		// catch-up after an outage cut short: B missed several commits, the sync of the retried head
		// fails at its 3rd block
		{Name: "anchor/catch-up-sync-interrupted", Config: "rep", BStore: "badger", Steps: []c15Step{
			cr(0, M{"name": "o0", "n": 1}), settle(), down("peer"), up(0, M{"n": 2}), up(0, M{"s": "a"}), arm("set", 3, false), bup(), awaitfault(), disarm()}},
		// a read fault: the lookup of a linked block fails after the head was stored
		{Name: "anchor/sync-interrupted-by-read-fault", Config: "rep", BStore: "badger", Steps: []c15Step{
			cr(0, M{"name": "p0", "n": 1}), settle(), arm("get", 1, true), up(0, M{"n": 3, "s": "r"}), awaitfault(), disarm()}},
	}
}

// c15GenerateFault: a random schedule (c15Generate) into which one interrupted sync is inserted —
// around a write made while B is up, or around an `up` (the catch-up sync is the one cut short).
func c15GenerateFault(rng *rand.Rand, idx int) c15Scenario {
	var s c15Scenario
	for {
		s = c15Generate(rng, idx)
		if s.Config != "pubsub" { // without a replicator nothing redelivers anyway (known finding)
			break
		}
	}
	s.Name = fmt.Sprintf("genfault/%d", idx)
	mode := "peer"
	if s.BStore == "file" {
		mode = "node"
	}
	// candidates
	type cand struct {
		at      int
		catchUp bool
		doc     int
		last    bool // no later write to the same document
	}
	var cands []cand
	isDown, wroteDown := false, false
	for i, st := range s.Steps {
		switch st.Op {
		case "down":
			isDown, wroteDown = true, false
		case "up":
			if isDown && wroteDown {
				cands = append(cands, cand{at: i, catchUp: true})
			}
			isDown = false
		case "create", "update", "delete":
			if isDown {
				wroteDown = true
				continue
			}
			if st.Op == "delete" {
				continue // its sync writes the one head block only
			}
			last := true
			for _, l := range s.Steps[i+1:] {
				if (l.Op == "update" || l.Op == "delete") && l.Doc == st.Doc {
					last = false
				}
			}
			cands = append(cands, cand{at: i, doc: st.Doc, last: last})
		}
	}
	if len(cands) == 0 {
		// every write is made during an outage that ends with the schedule: add one at the end
		s.Steps = append(s.Steps, bup(), up(0, M{"n": 4}))
		cands = append(cands, cand{at: len(s.Steps) - 1, doc: 0, last: true})
	}
	// prefer the last write of a document (a later write to the same document re-walks the DAG)
	var pref []cand
	for _, c := range cands {
		if c.last || c.catchUp {
			pref = append(pref, c)
		}
	}
	c := cands[rng.IntN(len(cands))]
	if len(pref) > 0 && rng.IntN(4) != 0 {
		c = pref[rng.IntN(len(pref))]
	}
	// the sync of a write stores its composite block and one block per field written
	fault, k := "set", 2+rng.IntN(max(1, len(s.Steps[c.at].Vals)))
	if rng.IntN(8) == 0 {
		k = 1 // the head block itself is not stored
	}
	if c.catchUp {
		k = 2 + rng.IntN(4)
	}
	if rng.IntN(6) == 0 {
		fault, k = "get", 1+rng.IntN(2)
	}
	sticky := rng.IntN(5) < 2
	var pre, post []c15Step
	if !c.catchUp && rng.IntN(10) < 7 {
		pre = append(pre, settle())
	}
	pre = append(pre, arm(fault, k, sticky))
	post = append(post, awaitfault())
	switch x := rng.IntN(10); {
	case x < 4:
		post = append(post, disarm())
	case x < 6:
		post = append(post, waitretry(), disarm())
	case x < 9:
		post = append(post, down(mode), disarm(), bup())
	default:
		post = append(post, down(mode), disarm(), waitretry(), bup())
	}
	dropLater := !c.catchUp && !c.last && rng.IntN(2) == 0
	var steps []c15Step
	steps = append(steps, s.Steps[:c.at]...)
	steps = append(steps, pre...)
	steps = append(steps, s.Steps[c.at])
	steps = append(steps, post...)
	for _, st := range s.Steps[c.at+1:] {
		if dropLater && (st.Op == "update" || st.Op == "delete") && st.Doc == c.doc {
			continue
		}
		steps = append(steps, st)
	}
	s.Steps = steps
	return s
}

// c15Generate builds one random schedule.
func c15Generate(rng *rand.Rand, idx int) c15Scenario {
	s := c15Scenario{Name: fmt.Sprintf("gen/%d", idx)}
	switch x := rng.IntN(20); {
	case x < 12:
		s.Config = "rep"
	case x < 17:
		s.Config = "both"
	default:
		s.Config = "pubsub"
	}
	nodeMode := rng.IntN(10) < 3
	s.BStore = "badger"
	mode := "peer"
	if nodeMode {
		s.BStore, mode = "file", "node"
	}
	maxDocs := 1 + rng.IntN(3)
	nWrites := 4 + rng.IntN(7)
	nOut := 1 + rng.IntN(2)
	patchWho := ""
	switch rng.IntN(6) {
	case 0, 1:
		patchWho = "both"
	case 2:
		patchWho = "A"
	case 3:
		patchWho = "A-then-B"
	}
	// positions (in write index space) of outages and patch
	type out struct{ from, to int }
	var outs []out
	for i := 0; i < nOut; i++ {
		f := 1 + rng.IntN(nWrites-1)
		t := f + 1 + rng.IntN(3)
		if t > nWrites {
			t = nWrites
		}
		outs = append(outs, out{f, t})
	}
	sort.Slice(outs, func(i, j int) bool { return outs[i].from < outs[j].from })
	if len(outs) == 2 && outs[1].from <= outs[0].to {
		outs[1].from = outs[0].to + 1
		if outs[1].to <= outs[1].from {
			outs[1].to = outs[1].from + 1
		}
		if outs[1].from >= nWrites {
			outs = outs[:1]
		}
	}
	patchAt, patchBAt := -1, -1
	if patchWho != "" {
		patchAt = 1 + rng.IntN(nWrites-1)
		if patchWho == "A-then-B" {
			patchBAt = patchAt + 1 + rng.IntN(3)
		}
	}
	docs := 0
	deleted := map[int]bool{}
	isDown := false
	bPatched, aPatched := false, false
	pendingB := false
	serial := 0
	val := func(f string) any {
		serial++
		switch f {
		case "name":
			return fmt.Sprintf("nm%d-%d", idx, serial)
		case "s":
			return []any{"a", "b", "", nil, fmt.Sprintf("s%d", serial)}[rng.IntN(5)]
		case "n":
			return []any{0, 1, 2, -3, nil}[rng.IntN(5)]
		case "k":
			return []any{1, 2, -1, 5}[rng.IntN(4)]
		case "email":
			return fmt.Sprintf("e%d@x", serial)
		}
		return nil
	}
	for w := 0; w <= nWrites; w++ {
		for _, o := range outs {
			if o.to == w && isDown {
				u := bup()
				if rng.IntN(6) == 0 {
					u.Mode = "early-dial"
				}
				s.Steps = append(s.Steps, u)
				isDown = false
				if pendingB {
					s.Steps = append(s.Steps, patch("B"))
					pendingB, bPatched = false, true
				}
				if rng.IntN(4) == 0 {
					s.Steps = append(s.Steps, settle())
				}
			}
		}
		if w == nWrites {
			break
		}
		for _, o := range outs {
			if o.from == w && !isDown {
				if rng.IntN(10) < 6 {
					s.Steps = append(s.Steps, settle())
				}
				s.Steps = append(s.Steps, down(mode))
				isDown = true
			}
		}
		if w == patchAt {
			who := patchWho
			if who == "A-then-B" {
				who = "A"
			}
			if who == "both" && isDown && nodeMode {
				// B's database is closed: it gets the patch when it comes back
				who, pendingB = "A", true
			}
			s.Steps = append(s.Steps, patch(who))
			aPatched = true
			if who == "both" {
				bPatched = true
			}
		}
		if w == patchBAt && aPatched && !bPatched {
			if isDown && nodeMode {
				pendingB = true
			} else {
				s.Steps = append(s.Steps, patch("B"))
				bPatched = true
			}
		}
		// a write
		var live []int
		for d := 0; d < docs; d++ {
			if !deleted[d] {
				live = append(live, d)
			}
		}
		x := rng.IntN(10)
		switch {
		case docs == 0 || (docs < maxDocs && x < 3) || len(live) == 0:
			v := M{"name": val("name")}
			for _, f := range []string{"s", "n", "k"} {
				if rng.IntN(2) == 0 {
					v[f] = val(f)
				}
			}
			if aPatched && bPatched && rng.IntN(2) == 0 {
				v["email"] = val("email")
			}
			s.Steps = append(s.Steps, cr(docs, v))
			docs++
		case x == 9 && len(live) > 0 && docs > 1:
			d := live[rng.IntN(len(live))]
			deleted[d] = true
			s.Steps = append(s.Steps, del(d))
		default:
			d := live[rng.IntN(len(live))]
			fs := []string{"s", "n", "k"}
			if aPatched && bPatched {
				fs = append(fs, "email")
			}
			v := M{}
			f := fs[rng.IntN(len(fs))]
			v[f] = val(f)
			if rng.IntN(3) == 0 {
				f2 := fs[rng.IntN(len(fs))]
				v[f2] = val(f2)
			}
			s.Steps = append(s.Steps, up(d, v))
		}
		if isDown && s.Config != "pubsub" && rng.IntN(5) == 0 {
			s.Steps = append(s.Steps, waitretry())
		}
	}
	if isDown {
		s.Steps = append(s.Steps, bup())
		if pendingB {
			s.Steps = append(s.Steps, patch("B"))
		}
	}
	return s
}

type c15Params struct {
	Scenario c15Scenario `json:"scenario"`
}

func c15Cases(seed uint64, tier string) []core.Case {
	var cs []core.Case
	for _, a := range c15Anchors() {
		cs = append(cs, core.MkCase("anchor", 15, c15Params{Scenario: a}))
	}
	for _, a := range c15FaultAnchors() {
		cs = append(cs, core.MkCase("anchor", 15, c15Params{Scenario: a}))
	}
	for _, a := range c15VariantAnchors() {
		cs = append(cs, core.MkCase("anchor", 15, c15Params{Scenario: a}))
	}
	n, nf := 8, 7
	nb, na := 5, 3
	if tier == "thorough" {
		n, nf = 120, 80
		nb, na = 40, 20
	}
	rng := rand.New(rand.NewPCG(seed, 1515))
	for i := 0; i < n; i++ {
		cs = append(cs, core.MkCase("generated", rng.Uint64(), c15Params{Scenario: c15Generate(rng, i)}))
	}
	// schedules with an interrupted sync come from a stream of their own (the plain ones stay what
	// they were for a given seed)
	frng := rand.New(rand.NewPCG(seed, 1516))
	for i := 0; i < nf; i++ {
		cs = append(cs, core.MkCase("generated-fault", frng.Uint64(), c15Params{Scenario: c15GenerateFault(frng, i)}))
	}
	// branchable collections and document ACP: streams of their own as well
	brng := rand.New(rand.NewPCG(seed, 1517))
	for i := 0; i < nb; i++ {
		cs = append(cs, core.MkCase("generated-branchable", brng.Uint64(), c15Params{Scenario: c15GenerateBranchable(brng, i)}))
	}
	arng := rand.New(rand.NewPCG(seed, 1518))
	for i := 0; i < na; i++ {
		cs = append(cs, core.MkCase("generated-acp", arng.Uint64(), c15Params{Scenario: c15GenerateACP(arng, i)}))
	}
	if d := os.Getenv("VERIF_C15_DUMP_CASES"); d != "" {
		// development aid: one replayable file per case (`./check C15 --replay <dir>/case-N.json`)
		_ = os.MkdirAll(d, 0o755)
		for i, c := range cs {
			c.Index = i
			b, _ := json.MarshalIndent(core.Violation{Property: "C15", Signature: "(case dump)", Case: c}, "", " ")
			_ = os.WriteFile(filepath.Join(d, fmt.Sprintf("case-%d.json", i)), b, 0o644)
		}
	}
	return cs
}

// ---------------------------------------------------------------------------------------
// execution of one schedule

type c15Outcome struct {
	Scenario        c15Scenario
	Verdict         string // converged | undelivered-quiescent | pending-at-deadline | setup-error
	Cause           string
	Detail          map[string]any
	WritesDuringOut int
	RetrySeen       bool
	RetryAfterSkew  bool // a retry record existed while A had a schema version that B lacked
	FailedRetrySeen bool
	NodeRestarts    int
	PeerRestarts    int
	InactiveAtEnd   bool
	// branchable collections / document ACP
	CollectionCommitsDuringOut int  // collection-level update events of A while B was down
	CollectionMarkerSeen       bool // a retry marker without a document id (failed push of a collection-level commit) was seen in A's peer store
	CollectionHeadsCompared    int  // collection-level heads of A that the final comparison covered
	DocsAtSetRep               int  // documents that existed when the replicator was configured
	PrivateDocsAtSetRep        int  // ... of which registered with A's access control
	PrivateWrites              int  // writes to registered documents
	ReplicatorDeletions        int  // `delrep` steps executed while retry bookkeeping for B existed
	MarkersSurvivedDeletion    bool // retry record / retry-doc markers for B were still in A's peer store after DeleteReplicator and two periods of the retry loop (which is to clean them up)
	// interrupted syncs
	FaultWindows           int              // arm steps executed
	FaultsFired            int              // windows in which an operation was failed
	HalfSynced             int              // windows after which B held a head of A without its complete DAG
	HalfSyncedAfterRestart map[string]int   // mode (peer|node) -> restarts of B after which the half-synced state was still there
	HalfHeadRepushed       int              // half-synced heads that B received again in a later push
	Faults                 []map[string]any // per window: predicate, operations matched / failed, half-synced heads
	Log                    []string
	Err                    string
}

type c15Run struct {
	ctx      context.Context
	sc       c15Scenario
	a, b     *p2p.Node
	docIDs   map[int]client.DocID
	log      []string
	out      *c15Outcome
	bDown    bool
	aPatched bool
	bPatched bool
	logFrom  int
	dir      string
	// merges of earlier incarnations of B that neither completed nor failed
	abortedMerges int
	aborted       map[string]int
	earlyDial     string
	// no-progress bookkeeping: B's block count sampled when its receive journal had a given length
	blocksAtRecv map[int]int
	// fault injection on B's store (survives restarts of B)
	mf        *core.MatchFault
	armStep   c15Step
	halfHeads map[string]int // head of A that B held without its complete DAG -> length of B's receive journal when observed
	// branchable / ACP / explicit SetReplicator
	opCtx        context.Context // context of the writes and of the comparison queries (owner identity with ACP)
	private      map[int]bool    // document index -> registered with A's access control
	atSetRep     map[string]bool // docIDs that existed when `setrep` ran
	preRep       map[string]bool // heads (document and collection level) A had when `setrep` ran: their delivery is the business of SetReplicator's initial push, not of an update event
	repSet       bool            // `setrep` ran
	repPending   bool            // `setrep` ran and its replicator-completed event has not been seen yet
	repCompleted int             // replicator-completed events seen before `setrep`
}

func (x *c15Run) logf(f string, a ...any) {
	x.log = append(x.log, fmt.Sprintf(f, a...)+fmt.Sprintf("   [t=%dms]", p2p.SinceStartMs()))
}

var c15Serial struct {
	sync.Mutex
	n int
}

func runC15Schedule(ctx context.Context, sc c15Scenario, keyTag string) (out *c15Outcome) {
	out = &c15Outcome{Scenario: sc, Detail: map[string]any{}, HalfSyncedAfterRestart: map[string]int{}}
	x := &c15Run{ctx: ctx, sc: sc, docIDs: map[int]client.DocID{}, out: out, logFrom: p2p.LogLen(), aborted: map[string]int{}, blocksAtRecv: map[int]int{},
		mf: core.NewMatchFault(), halfHeads: map[string]int{}, opCtx: ctx, private: map[int]bool{}, atSetRep: map[string]bool{}, preRep: map[string]bool{}}
	defer func() {
		if p := recover(); p != nil {
			out.Verdict, out.Err = "setup-error", fmt.Sprint(p)
		}
		out.Log = x.log
		if x.a != nil {
			x.a.NodeDown()
		}
		if x.b != nil {
			x.b.NodeDown()
		}
		if x.dir != "" {
			_ = os.RemoveAll(x.dir)
		}
	}()
	c15Serial.Lock()
	c15Serial.n++
	serial := c15Serial.n
	c15Serial.Unlock()
	aCfg := p2p.Cfg{Name: "A", KeySeed: []byte(keyTag + "|A"), Port: p2p.AllocPort(), Store: "badger", Retry: time.Second}
	bCfg := p2p.Cfg{Name: "B", KeySeed: []byte(keyTag + "|B"), Port: p2p.AllocPort(), Store: sc.BStore, Retry: time.Second}
	aCfg.ACP, bCfg.ACP = sc.ACP, sc.ACP
	for _, st := range sc.Steps {
		if st.Op == "arm" {
			// B's database and peer (block service, bitswap) run on the fault-injecting wrapper
			bCfg.Wrap = x.mf.Wrap
			break
		}
	}
	if sc.BStore == "file" {
		x.dir = filepath.Join(core.WorkDir("C15-stores"), fmt.Sprintf("p%d-%d", os.Getpid(), serial))
		_ = os.RemoveAll(x.dir)
		core.Must(os.MkdirAll(x.dir, 0o755))
		bCfg.Path = x.dir
	}
	var err error
	x.a, err = p2p.New(ctx, aCfg)
	core.Must(err)
	if sc.Config == "pubsub" {
		// with a subscription only, B has to find A again by itself after a restart
		bCfg.Bootstrap = []string{x.a.Addr()}
	}
	x.b, err = p2p.New(ctx, bCfg)
	core.Must(err)
	policyID := ""
	if sc.ACP {
		// the same policy on both nodes (each has its own local ACP); documents are registered on A only,
		// B stores what it receives (unregistered = public there)
		x.opCtx = identity.WithContext(ctx, immutable.Some[identity.Identity](c10Ident(1)))
		for _, n := range []*p2p.Node{x.a, x.b} {
			pr, err := n.DB.AddDACPolicy(x.opCtx, c15Policy)
			core.Must(err)
			if policyID != "" && policyID != pr.PolicyID {
				panic("C15: policy id differs between the nodes")
			}
			policyID = pr.PolicyID
		}
	}
	for _, n := range []*p2p.Node{x.a, x.b} {
		_, err := n.DB.AddSchema(ctx, c15SDLFor(sc, policyID))
		core.Must(err)
	}
	core.Must(x.a.PeerUp(ctx))
	core.Must(x.b.PeerUp(ctx))
	if sc.Config == "pubsub" || sc.Config == "both" {
		core.Must(x.b.Peer.AddP2PCollections(ctx, "Doc"))
		// (setting up, not judging: a dial that fails because the other peer's listener is not
		// accepting yet is repeated)
		var cerr error
		for i := 0; i < 20; i++ {
			if cerr = x.a.Peer.Connect(ctx, x.b.Info()); cerr == nil {
				break
			}
			time.Sleep(250 * time.Millisecond)
		}
		core.Must(cerr)
		time.Sleep(400 * time.Millisecond) // gossipsub subscription exchange (the repository's own tests sleep here too)
	}
	if (sc.Config == "rep" || sc.Config == "both") && !sc.explicitSetRep() {
		x.repSet = true
		if sc.Branchable || sc.ACP {
			// an update event that overtakes the asynchronous activation of the replicator is left to
			// SetReplicator's push of the existing heads; on these collections that is a subject of
			// its own (`setrep` schedules), so the writes start when the replicator is in place
			x.setReplicatorAndAwait()
		} else {
			core.Must(x.a.Peer.SetReplicator(ctx, x.b.Info()))
		}
	}
	for i, st := range sc.Steps {
		x.step(i, st)
	}
	if x.mf.Armed() {
		x.step(len(sc.Steps), disarm())
	}
	if x.bDown {
		x.step(len(sc.Steps), bup())
	}
	x.finish()
	// half-synced heads that were delivered to B once more (the situation in which a receiver must
	// not conclude "head present, nothing to do")
	recv := x.b.Journal.Pushes()
	for h, from := range x.halfHeads {
		for _, p := range recv[min(from, len(recv)):] {
			if p.Cid == h {
				out.HalfHeadRepushed++
				break
			}
		}
	}
	return out
}

func (x *c15Run) colA() client.Collection {
	c, err := x.a.DB.GetCollectionByName(x.ctx, "Doc")
	core.Must(err)
	return c
}

func (x *c15Run) observeRetry() {
	if x.sc.Config == "pubsub" {
		return
	}
	st := x.a.ReplicatorState(x.ctx, x.b.Info().ID)
	if st.RetryRecord {
		x.out.RetrySeen = true
		if x.aPatched && !x.bPatched {
			x.out.RetryAfterSkew = true
		}
		if st.NumRetries >= 1 && (!st.Retrying || x.bDown) {
			x.out.FailedRetrySeen = true
		}
	}
}

func (x *c15Run) step(i int, st c15Step) {
	ctx := x.ctx
	switch st.Op {
	case "create":
		col := x.colA()
		doc, err := client.NewDocFromMap(st.Vals, col.Definition())
		core.Must(err)
		cctx := ctx
		if st.Private && x.sc.ACP {
			cctx = x.opCtx
			x.private[st.Doc] = true
			x.out.PrivateWrites++
		}
		err = col.Create(cctx, doc)
		x.logf("%d create d%d %v private=%v -> %s err=%v", i, st.Doc, st.Vals, x.private[st.Doc], doc.ID(), err)
		core.Must(err)
		x.docIDs[st.Doc] = doc.ID()
		if x.bDown {
			x.out.WritesDuringOut++
			if x.sc.Branchable {
				x.out.CollectionCommitsDuringOut++
			}
		}
	case "update":
		col := x.colA()
		id, ok := x.docIDs[st.Doc]
		if !ok {
			x.logf("%d update d%d skipped (no such document)", i, st.Doc)
			return
		}
		doc, err := col.Get(x.opCtx, id, false)
		if err != nil {
			x.logf("%d update d%d skipped: %v", i, st.Doc, err)
			return
		}
		for k, v := range st.Vals {
			core.Must(doc.Set(k, v))
		}
		err = col.Update(x.opCtx, doc)
		x.logf("%d update d%d %v err=%v", i, st.Doc, st.Vals, err)
		core.Must(err)
		if x.private[st.Doc] {
			x.out.PrivateWrites++
		}
		if x.bDown {
			x.out.WritesDuringOut++
			if x.sc.Branchable {
				x.out.CollectionCommitsDuringOut++
			}
		}
	case "delete":
		col := x.colA()
		id, ok := x.docIDs[st.Doc]
		if !ok {
			return
		}
		_, err := col.Delete(x.opCtx, id)
		x.logf("%d delete d%d err=%v", i, st.Doc, err)
		if err == nil && x.bDown {
			x.out.WritesDuringOut++
			if x.sc.Branchable {
				x.out.CollectionCommitsDuringOut++
			}
		}
	case "delrep":
		if x.sc.Config == "pubsub" {
			return
		}
		before := x.a.ReplicatorState(ctx, x.b.Info().ID)
		core.Must(x.a.Peer.DeleteReplicator(ctx, x.b.Info()))
		x.repSet = false // a later `setrep` configures it again
		if before.RetryRecord {
			x.out.ReplicatorDeletions++
			// the retry loop drops the retry record of a replicator that no longer exists, and with it
			// (it says) the per-document markers; pacing only
			var st p2p.ReplState
			for t0 := time.Now(); time.Since(t0) < c15RetryWait/2; time.Sleep(100 * time.Millisecond) {
				st = x.a.ReplicatorState(ctx, x.b.Info().ID)
				if !st.RetryRecord && len(st.RetryDocs) == 0 {
					break
				}
			}
			if !st.HasReplicator && (st.RetryRecord || len(st.RetryDocs) > 0) {
				x.out.MarkersSurvivedDeletion = true
			}
			x.logf("%d DeleteReplicator: retry record left=%v, retry-doc markers left=%v", i, st.RetryRecord, st.RetryDocs)
		} else {
			x.logf("%d DeleteReplicator", i)
		}
	case "setrep":
		if x.sc.Config == "pubsub" || x.bDown || x.repSet {
			return
		}
		x.repSet = true
		x.atSetRep = map[string]bool{}
		// everything A has announced so far precedes the replicator: SetReplicator itself pushes the
		// heads of the existing documents (asynchronously; `replicator-completed` on A's bus marks the
		// end of that push)
		for d, id := range x.docIDs {
			x.atSetRep[id.String()] = true
			x.out.DocsAtSetRep++
			if x.private[d] {
				x.out.PrivateDocsAtSetRep++
			}
		}
		for _, id := range x.docIDs {
			for _, h := range c15Heads(ctx, x.a, id.String()) {
				x.preRep[h] = true
			}
		}
		for _, h := range c15CollectionHeads(ctx, x.a) {
			x.preRep[h] = true
		}
		x.setReplicatorAndAwait()
		x.logf("%d SetReplicator with %d existing documents (%d private); initial push finished=%v", i, x.out.DocsAtSetRep, x.out.PrivateDocsAtSetRep, !x.repPending)
	case "down":
		if x.bDown {
			return
		}
		if st.Mode == "node" {
			x.b.NodeDown()
			// merge requests of this incarnation that neither completed nor failed died with it
			for c, n := range x.mergeDeficit() {
				x.aborted[c] += n
				x.abortedMerges += n
			}
		} else {
			x.b.PeerDown()
		}
		x.bDown = true
		x.logf("%d B down (%s)", i, st.Mode)
	case "up":
		if !x.bDown {
			return
		}
		restartedNode := false
		if x.b.DB == nil {
			core.Must(x.b.OpenDB(ctx))
			x.out.NodeRestarts++
			restartedNode = true
		}
		if st.Mode == "early-dial" {
			// A redials B continuously while B's peer is starting (what A's gRPC channel and retry
			// loop do on their own schedule), so that A's connection may land inside NewPeer
			stop := make(chan struct{})
			done := make(chan struct{})
			go func() {
				defer close(done)
				info := x.b.Info()
				addr := fmt.Sprintf("127.0.0.1:%d", x.b.Cfg.Port)
				for {
					select {
					case <-stop:
						return
					default:
					}
					// wait (raw TCP) until B's host listens, then let A connect at once; probing with
					// A's own host would put the address into libp2p's dial backoff
					c, err := gonet.DialTimeout("tcp", addr, 50*time.Millisecond)
					if err != nil {
						continue
					}
					_ = c.Close()
					cctx, cancel := context.WithTimeout(ctx, 2*time.Second)
					err = x.a.Peer.Connect(cctx, info)
					cancel()
					x.earlyDial = fmt.Sprintf("connect err=%v at t=%dms", err, p2p.SinceStartMs())
					return
				}
			}()
			core.Must(x.b.PeerUp(ctx))
			close(stop)
			<-done
		} else {
			core.Must(x.b.PeerUp(ctx))
		}
		x.out.PeerRestarts++
		x.bDown = false
		x.logf("%d B up %s", i, x.earlyDial)
		if len(x.halfHeads) > 0 {
			if still := x.halfSyncedHeads(); len(still) > 0 {
				m := "peer"
				if restartedNode {
					m = "node"
				}
				x.out.HalfSyncedAfterRestart[m]++
				x.logf("%d half-synced state still present after the %s restart: %v", i, m, still)
			}
		}
	case "patch":
		if st.Mode == "both" || st.Mode == "A" {
			if !x.aPatched {
				core.Must(x.a.DB.PatchSchema(ctx, c15Patch, immutable.None[model.Lens](), true))
				x.aPatched = true
			}
		}
		if st.Mode == "both" || st.Mode == "B" {
			if !x.bPatched && x.b.DB != nil {
				core.Must(x.b.DB.PatchSchema(ctx, c15Patch, immutable.None[model.Lens](), true))
				x.bPatched = true
			}
		}
		x.logf("%d patch %s (A=%v B=%v)", i, st.Mode, x.aPatched, x.bPatched)
	case "settle":
		if x.bDown {
			return
		}
		ok := false
		for t0 := time.Now(); time.Since(t0) < c15SettleMax; time.Sleep(100 * time.Millisecond) {
			if eq, _ := x.converged(); eq && len(x.pendingMerges()) == 0 {
				ok = true
				break
			}
		}
		x.logf("%d settle converged=%v", i, ok)
	case "pause":
		time.Sleep(1500 * time.Millisecond)
	case "arm":
		if x.sc.Config == "pubsub" || x.mf.Armed() {
			return
		}
		x.armStep = st
		x.mf.Arm(core.FaultMatch{Method: st.Fault, Store: "blocks", Scope: "direct"}, st.K, st.Sticky)
		x.out.FaultWindows++
		x.logf("%d arm: B's %d. direct %q on /db/blocks fails (sticky=%v)", i, st.K, st.Fault, st.Sticky)
	case "awaitfault":
		if !x.mf.Armed() {
			return
		}
		// pacing only: until the fault has fired and no push is in flight any more — or everything
		// has been delivered without reaching the armed operation
		why := "timeout"
		for t0 := time.Now(); time.Since(t0) < c15SettleMax; time.Sleep(50 * time.Millisecond) {
			if x.bDown {
				why = "B is down"
				break
			}
			quiet := x.pushesQuiet()
			if x.mf.Fired() > 0 && quiet {
				why = "fault fired"
				break
			}
			if x.mf.Fired() == 0 && quiet && len(x.pendingMerges()) == 0 {
				if eq, _ := x.converged(); eq {
					why = "delivered without reaching the armed operation"
					break
				}
			}
		}
		x.logf("%d awaitfault: %s (failed ops so far: %d)", i, why, x.mf.Fired())
		x.observeHalfSynced(i)
	case "disarm":
		if !x.mf.Armed() {
			return
		}
		x.observeHalfSynced(i)
		matched, fired := x.mf.Disarm()
		if fired > 0 {
			x.out.FaultsFired++
		}
		var hits []string
		for _, h := range x.mf.Hits() {
			f := ""
			if h.Failed {
				f = " FAILED"
			}
			hits = append(hits, fmt.Sprintf("%s %s%s", h.Method, short(strings.TrimPrefix(h.Key, "/db/blocks/")), f))
		}
		var half []string
		for h := range x.halfHeads {
			half = append(half, h)
		}
		sort.Strings(half)
		x.out.Faults = append(x.out.Faults, map[string]any{"arm": x.armStep, "matching_ops": matched, "failed_ops": fired, "ops": hits, "half_synced_heads_so_far": half})
		x.logf("%d disarm: %d matching operations, %d failed", i, matched, fired)
	case "waitretry":
		if (!x.bDown && !(x.mf.Armed() && x.mf.Fired() > 0)) || x.sc.Config == "pubsub" {
			// nothing failed and B is reachable: there will be no failed retry to wait for
			return
		}
		ok := false
		for t0 := time.Now(); time.Since(t0) < c15RetryWait; time.Sleep(100 * time.Millisecond) {
			st := x.a.ReplicatorState(ctx, x.b.Info().ID)
			if st.RetryRecord && st.NumRetries >= 1 && !st.Retrying {
				ok = true
				break
			}
		}
		x.logf("%d waitretry failed-retry-observed=%v", i, ok)
	}
	x.observeRetry()
}

// pushesQuiet: no push in flight on either side and the newest update event of every document has
// had its push attempt (pacing aid of awaitfault, never part of a verdict).
func (x *c15Run) pushesQuiet() bool {
	attempted := map[string]bool{}
	for _, p := range x.a.Journal.Pushes() {
		if !p.Done {
			return false
		}
		attempted[p.Cid] = true
	}
	for _, p := range x.b.Journal.Pushes() {
		if !p.Done {
			return false
		}
	}
	for _, c := range x.newestAnnounced() {
		if !attempted[c] {
			return false
		}
	}
	return !x.setRepPending()
}

// newestAnnounced: the newest commit A announced (update event, not a retry) for each document and,
// on a branchable collection, for the collection itself (key "") - as far as the replicator was
// configured when it was announced.
func (x *c15Run) newestAnnounced() map[string]string {
	lastCid := map[string]string{}
	for _, e := range x.a.Events() {
		if e.Name == "update" && !e.Retry && (e.DocID != "" || x.sc.Branchable) {
			lastCid[e.DocID] = e.Cid
		}
	}
	for k, c := range lastCid {
		if x.preRep[c] {
			delete(lastCid, k)
		}
	}
	return lastCid
}

// setReplicatorAndAwait configures the replicator A->B and waits (pacing) for the end of its
// asynchronous part: routing table updated, heads of the existing documents pushed.
func (x *c15Run) setReplicatorAndAwait() {
	x.repCompleted = x.replicatorCompletedEvents()
	x.repPending = true
	core.Must(x.a.Peer.SetReplicator(x.ctx, x.b.Info()))
	for t0 := time.Now(); time.Since(t0) < c15SettleMax && x.setRepPending(); time.Sleep(20 * time.Millisecond) {
	}
}

func (x *c15Run) replicatorCompletedEvents() int {
	n := 0
	for _, e := range x.a.Events() {
		if e.Name == "replicator-completed" {
			n++
		}
	}
	return n
}

// setRepPending: `setrep` ran and the end of SetReplicator's initial push has not been announced yet.
func (x *c15Run) setRepPending() bool {
	if x.repPending && x.replicatorCompletedEvents() > x.repCompleted {
		x.repPending = false
	}
	return x.repPending
}

// c15CollectionHeads lists the collection-level heads (/db/heads/c/<collection>/<cid>) of a node.
func c15CollectionHeads(ctx context.Context, n *p2p.Node) []string {
	out := []string{}
	for k := range core.ScanStore(ctx, n.Store, "/db/heads/c/") {
		out = append(out, k[strings.LastIndex(k, "/")+1:])
	}
	sort.Strings(out)
	return out
}

// c15CollectionKey is the entry of the head maps that carries the collection-level heads.
const c15CollectionKey = "(collection-level)"

// halfSyncedHeads lists the composite heads of A whose block B holds while B lacks at least one
// block of the head's closure (observed on the raw stores, below the fault wrapper).
func (x *c15Run) halfSyncedHeads() []string {
	if x.b.Store == nil || x.a.Store == nil {
		return nil
	}
	ctx := x.ctx
	abs, bbs := datastore.BlockstoreFrom(x.a.Store), datastore.BlockstoreFrom(x.b.Store)
	var out []string
	for _, id := range x.docIDs {
		for _, h := range c15Heads(ctx, x.a, id.String()) {
			hc, err := cid.Decode(h)
			if err != nil {
				continue
			}
			if has, err := bbs.Has(ctx, hc); err != nil || !has {
				continue
			}
			// walk the closure on A
			seen := map[cid.Cid]bool{hc: true}
			todo := []cid.Cid{hc}
			missing := false
			for len(todo) > 0 && !missing {
				c := todo[0]
				todo = todo[1:]
				raw, err := abs.Get(ctx, c)
				if err != nil {
					continue
				}
				blk, err := coreblock.GetFromBytes(raw.RawData())
				if err != nil {
					continue
				}
				for _, l := range blk.AllLinks() {
					if seen[l.Cid] {
						continue
					}
					seen[l.Cid] = true
					if has, err := bbs.Has(ctx, l.Cid); err == nil && !has {
						missing = true
						break
					}
					todo = append(todo, l.Cid)
				}
			}
			if missing {
				out = append(out, h)
			}
		}
	}
	sort.Strings(out)
	return out
}

// observeHalfSynced records the half-synced heads B holds now (once per window for the counter).
func (x *c15Run) observeHalfSynced(i int) {
	if x.b.Store == nil {
		return
	}
	hs := x.halfSyncedHeads()
	fresh := 0
	for _, h := range hs {
		if _, ok := x.halfHeads[h]; !ok {
			x.halfHeads[h] = len(x.b.Journal.Pushes())
			fresh++
		}
	}
	if fresh > 0 {
		x.out.HalfSynced++
		x.logf("%d B holds %d head(s) of A without the complete DAG: %v", i, len(hs), hs)
	}
}

func c15Heads(ctx context.Context, n *p2p.Node, docID string) []string {
	hs := coreblock.NewHeadSet(datastore.HeadstoreFrom(n.Store), keys.HeadstoreDocKey{DocID: docID, FieldID: icore.COMPOSITE_NAMESPACE})
	cids, _, err := hs.List(ctx)
	core.Must(err)
	out := make([]string, 0, len(cids))
	for _, c := range cids {
		out = append(out, c.String())
	}
	sort.Strings(out)
	return out
}

// view is the comparable state of a node: documents (fields both nodes know) and composite heads.
func (x *c15Run) view(n *p2p.Node) (string, map[string][]string, error) {
	fields := "_docID _deleted name s n k"
	if x.aPatched && x.bPatched {
		fields += " email"
	}
	rows, err := core.ExecRows(x.opCtx, n.DB, `query { Doc(showDeleted: true) { `+fields+` } }`, "Doc")
	if err != nil {
		return "", nil, err
	}
	sort.Slice(rows, func(i, j int) bool { return fmt.Sprint(rows[i]["_docID"]) < fmt.Sprint(rows[j]["_docID"]) })
	heads := map[string][]string{}
	for _, id := range x.docIDs {
		heads[id.String()] = c15Heads(x.ctx, n, id.String())
	}
	if x.sc.Branchable {
		heads[c15CollectionKey] = c15CollectionHeads(x.ctx, n)
	}
	return core.Canon(rows), heads, nil
}

func (x *c15Run) converged() (bool, map[string]any) {
	va, ha, ea := x.view(x.a)
	vb, hb, eb := x.view(x.b)
	d := map[string]any{"A_docs": json.RawMessage(orNull(va)), "B_docs": json.RawMessage(orNull(vb)), "A_heads": ha, "B_heads": hb}
	if ea != nil || eb != nil {
		d["query_errors"] = fmt.Sprint(ea, " / ", eb)
		return false, d
	}
	return va == vb && core.Canon(ha) == core.Canon(hb), d
}

func orNull(s string) string {
	if s == "" {
		return "null"
	}
	return s
}

// pendingMerges lists cids for which B's bus carried more merge requests than completions and
// logged failures (i.e. a merge goroutine of db.handleMessages may still be running).
func (x *c15Run) pendingMerges() []string {
	var out []string
	for c := range x.mergeDeficit() {
		out = append(out, c)
	}
	sort.Strings(out)
	return out
}

// mergeDeficit: per cid, merge requests minus (completions + logged failures + requests that died
// with an earlier incarnation of B).
func (x *c15Run) mergeDeficit() map[string]int {
	req, done := map[string]int{}, map[string]int{}
	for _, e := range x.b.Events() {
		switch e.Name {
		case "merge":
			req[e.Cid]++
		case "merge-complete":
			done[e.Cid]++
		}
	}
	for _, l := range x.mergeFailures() {
		done[l.EventCid()]++
	}
	out := map[string]int{}
	for c, n := range req {
		if d := n - done[c] - x.aborted[c]; d > 0 {
			out[c] = d
		}
	}
	return out
}

// mergeFailures are B's "Failed to execute merge" log records for pushes coming from this A.
func (x *c15Run) mergeFailures() []p2p.LogLine {
	var out []p2p.LogLine
	aid := x.a.Info().ID.String()
	for _, l := range p2p.Logs(x.logFrom) {
		if l.Msg == "Failed to execute merge" && (l.Event.FromPeer == aid || l.Event.ByPeer == aid) {
			out = append(out, l)
		}
	}
	return out
}

var (
	reCid  = regexp.MustCompile(`\b(bafy|bafk|bae|Qm|12D3)[A-Za-z0-9]{8,}\b`)
	reNum  = regexp.MustCompile(`[0-9]+`)
	reSlug = regexp.MustCompile(`[^a-z]+`)
)

func errClass(s string) string {
	s = reCid.ReplaceAllString(s, "")
	if i := strings.Index(s, ". "); i > 0 {
		s = s[:i]
	}
	s = reNum.ReplaceAllString(strings.ToLower(s), "")
	s = strings.Trim(reSlug.ReplaceAllString(s, "-"), "-")
	if len(s) > 48 {
		s = s[:48]
	}
	if s == "" {
		s = "unknown"
	}
	return s
}

// quiescence is one observation of everything that could still deliver something to B.
type c15Quiescence struct {
	// StuckRetrying: the retry record says a retry is running, but no push is in flight
	StuckRetrying bool
	Quiet         bool
	Why           []string // what is still pending
	Fingerprint   string
	Repl          p2p.ReplState
	Sends         []p2p.Push
}

func (x *c15Run) quiescence() c15Quiescence {
	var q c15Quiescence
	bid := x.b.Info().ID
	sends := x.a.Journal.Pushes()
	q.Sends = sends
	inflight := 0
	attempted := map[string]bool{}
	for _, p := range sends {
		if !p.Done {
			inflight++
		} else {
			attempted[p.Cid] = true
		}
	}
	if inflight > 0 {
		q.Why = append(q.Why, fmt.Sprintf("%d pushes in flight", inflight))
	}
	hasRep := x.sc.Config != "pubsub"
	if hasRep {
		q.Repl = x.a.ReplicatorState(x.ctx, bid)
		if q.Repl.RetryRecord {
			q.Why = append(q.Why, "retry record for B in A's peer store")
			q.StuckRetrying = q.Repl.Retrying && inflight == 0
		}
		if len(q.Repl.RetryDocs) > 0 {
			q.Why = append(q.Why, fmt.Sprintf("%d retry-doc markers for B", len(q.Repl.RetryDocs)))
		}
		// the newest commit A announced for each document must have had its push attempt (an older
		// one may legitimately never be pushed by itself: a commit made before SetReplicator's
		// asynchronous activation is covered by the push of the document's heads)
		unpushed := 0
		for _, c := range x.newestAnnounced() {
			if !attempted[c] {
				unpushed++
			}
		}
		if unpushed > 0 {
			q.Why = append(q.Why, fmt.Sprintf("%d documents whose newest update event has had no completed push attempt yet", unpushed))
		}
		if x.setRepPending() {
			q.Why = append(q.Why, "SetReplicator's push of the existing documents has not finished")
		}
		if q.Repl.CollectionMarker {
			x.out.CollectionMarkerSeen = true
		}
	}
	pm := x.pendingMerges()
	if len(pm) > 0 {
		q.Why = append(q.Why, fmt.Sprintf("%d merges in flight on B", len(pm)))
	}
	recv := x.b.Journal.Pushes()
	for _, p := range recv {
		if !p.Done {
			q.Why = append(q.Why, "push being processed by B")
			break
		}
	}
	q.Quiet = len(q.Why) == 0
	q.Fingerprint = fmt.Sprintf("%d|%d|%d|%d|%v|%d|%d|%v", len(sends), len(recv), len(x.a.Events()), len(x.b.Events()), q.Repl.Keys, len(x.mergeFailures()), q.Repl.NumRetries, q.Repl.Retrying)
	return q
}

func (x *c15Run) finish() {
	out := x.out
	t0 := time.Now()
	stable, stuck, lastFP := 0, 0, ""
	idleKey, idleBase, idleOK := "", 0, false
	var q c15Quiescence
	var diff map[string]any
	for {
		x.observeRetry()
		var eq bool
		eq, diff = x.converged()
		q = x.quiescence()
		if eq && len(x.pendingMerges()) == 0 {
			out.Verdict = "converged"
			if ha, ok := diff["A_heads"].(map[string][]string); ok {
				out.CollectionHeadsCompared = len(ha[c15CollectionKey])
			}
			break
		}
		if q.Quiet && q.Fingerprint == lastFP {
			stable++
		} else {
			stable = 0
		}
		// A retry record in state "retrying" can only be advanced by the retry goroutine that set
		// it, and such a goroutine is inside a journalled push except for short local steps: the
		// flag set, no push in flight and not one new push on c15StuckPolls successive
		// observations means that no such goroutine exists and the record will never be retried.
		if q.StuckRetrying && q.Fingerprint == lastFP {
			stuck++
		} else {
			stuck = 0
		}
		lastFP = q.Fingerprint
		if !eq && q.Quiet && stable >= c15ConfirmPolls {
			out.Verdict = "undelivered-quiescent"
			break
		}
		if !eq && stuck >= c15StuckPolls {
			out.Verdict, out.Cause = "undelivered-quiescent", "retry-record-stuck-in-retrying-state"
			break
		}
		// Third clock-free criterion, counting retry rounds: A's retry record for B has started
		// c15IdleRetryRounds further rounds (NumRetries is incremented when a round starts) during
		// which A sent no push at all and the set of retry-doc markers stayed what it was, while B is
		// reachable and nothing is in flight on B.  A round that walks the markers without pushing
		// anything and without clearing one leaves A exactly as it found it: the next one will do the same.
		if x.sc.Config != "pubsub" && q.Repl.RetryRecord && len(q.Repl.RetryDocs) > 0 && !x.bDown {
			key := fmt.Sprintf("%d|%v", len(q.Sends), q.Repl.RetryDocs)
			if !idleOK || key != idleKey || q.Repl.NumRetries < idleBase {
				idleKey, idleBase, idleOK = key, q.Repl.NumRetries, true
			} else if !eq && q.Repl.NumRetries-idleBase >= c15IdleRetryRounds && c15AllDone(q.Sends) && c15AllDone(x.b.Journal.Pushes()) && len(x.pendingMerges()) == 0 {
				out.Verdict, out.Cause = "undelivered-quiescent", "retry-rounds-push-nothing-and-clear-no-marker"
				if q.Repl.CollectionMarker && len(q.Repl.RetryDocs) == 1 {
					// the only marker left is the one without a document id
					out.Cause = "collection-level-commit-never-retried"
				}
				diff["idle_retry_rounds"] = q.Repl.NumRetries - idleBase
				break
			}
		} else {
			idleOK = false
		}
		if !eq && !x.bDown {
			x.blocksAtRecv[len(x.b.Journal.Pushes())] = len(core.ScanStore(x.ctx, x.b.Store, "/db/blocks/"))
			if cls, d := x.noProgress(); cls != "" {
				out.Verdict, out.Cause = "no-progress-livelock", "receiver-sync-fails-repeatedly-without-progress/"+cls
				diff["no_progress"] = d
				break
			}
		}
		if time.Since(t0) > c15DeadlineNow() {
			out.Verdict = "pending-at-deadline"
			break
		}
		time.Sleep(c15Poll)
	}
	if x.sc.Config != "pubsub" {
		st := x.a.ReplicatorState(x.ctx, x.b.Info().ID)
		out.InactiveAtEnd = out.Verdict == "converged" && st.HasReplicator && !st.Active && !st.RetryRecord && len(st.RetryDocs) == 0
		if out.InactiveAtEnd {
			// give the bookkeeping the same confirmation window before noting it
			for i := 0; i < c15ConfirmPolls; i++ {
				time.Sleep(c15Poll)
				st = x.a.ReplicatorState(x.ctx, x.b.Info().ID)
				if st.Active || st.RetryRecord {
					out.InactiveAtEnd = false
					break
				}
			}
		}
	}
	if out.Verdict == "converged" {
		return
	}
	// explain
	out.Detail = diff
	out.Detail["pending"] = q.Why
	out.Detail["A_peerstore_keys_for_B"] = q.Repl.Keys
	out.Detail["A_replicator_active"] = q.Repl.Active
	var sends []string
	delivered := map[string]bool{}
	lastErrByDoc := map[string]string{}
	for _, p := range q.Sends {
		sends = append(sends, fmt.Sprintf("push doc=%s cid=%s col=%s t=%d..%d done=%v err=%s", short(p.DocID), short(p.Cid), short(p.CollectionID), p.StartMs, p.EndMs, p.Done, c15FirstN(p.Err, 160)))
		if p.Done && p.Err == "" {
			delivered[p.Cid] = true
		}
		if p.Done {
			lastErrByDoc[p.DocID] = p.Err
		}
	}
	out.Detail["A_pushes"] = sends
	var recvs []string
	for _, p := range x.b.Journal.Pushes() {
		recvs = append(recvs, fmt.Sprintf("recv doc=%s cid=%s t=%d..%d done=%v err=%s", short(p.DocID), short(p.Cid), p.StartMs, p.EndMs, p.Done, c15FirstN(p.Err, 200)))
	}
	out.Detail["B_received_pushes"] = recvs
	var fails []string
	failedDelivered := ""
	for _, l := range x.mergeFailures() {
		fails = append(fails, fmt.Sprintf("cid=%s col=%s err=%s", short(l.EventCid()), short(l.Event.CollectionID), c15FirstN(l.Err, 200)))
		if delivered[l.EventCid()] && failedDelivered == "" {
			failedDelivered = errClass(l.Err)
		}
	}
	out.Detail["B_merge_failures"] = fails
	out.Detail["B_merges_aborted_by_restart"] = x.abortedMerges
	// which documents differ
	ha, _ := diff["A_heads"].(map[string][]string)
	hb, _ := diff["B_heads"].(map[string][]string)
	var missingDocs []string
	for id, h := range ha {
		if core.Canon(h) != core.Canon(hb[id]) {
			missingDocs = append(missingDocs, id)
		}
	}
	sort.Strings(missingDocs)
	out.Detail["docs_whose_heads_differ"] = missingDocs
	if out.Verdict != "undelivered-quiescent" {
		return
	}
	// what kind of commit is missing (observable attributes of the schedule, for the signature)
	onlyCollection := len(missingDocs) == 1 && missingDocs[0] == c15CollectionKey
	allAtSetRep, allPrivate := len(missingDocs) > 0, len(missingDocs) > 0
	privateIDs := map[string]bool{}
	for d, id := range x.docIDs {
		if x.private[d] {
			privateIDs[id.String()] = true
		}
	}
	for _, id := range missingDocs {
		if !x.atSetRep[id] {
			allAtSetRep = false
		}
		if !privateIDs[id] {
			allPrivate = false
		}
	}
	if x.sc.Branchable {
		defer func() { out.Cause = "branchable/" + out.Cause }()
	}
	switch {
	case out.Cause != "":
	case onlyCollection && len(x.preRep) > 0 && len(x.newestAnnounced()) == 0:
		// documents arrived through SetReplicator's initial push, the collection-level history did not,
		// and A has announced nothing since
		out.Cause = "collection-level-heads-existing-at-setreplicator-never-pushed"
	case x.sc.ACP && allAtSetRep && allPrivate:
		if _, pushed := lastErrByDoc[missingDocs[0]]; !pushed {
			out.Cause = "acp/private-document-existing-at-setreplicator-never-pushed"
		} else {
			out.Cause = "acp/private-document-existing-at-setreplicator-pushed-but-missing"
		}
	case failedDelivered != "":
		out.Cause = "receiver-merge-failed-after-push-acknowledged/" + failedDelivered
	case x.sc.Config == "pubsub":
		out.Cause = "no-redelivery-without-replicator"
	case x.abortedMerges > 0:
		out.Cause = "receiver-restarted-before-merge"
	default:
		anyFailedLast, neverPushed := false, false
		for _, id := range missingDocs {
			e, ok := lastErrByDoc[id]
			if !ok {
				neverPushed = true
			} else if e != "" {
				anyFailedLast = true
			}
		}
		switch {
		case anyFailedLast:
			out.Cause = "last-push-failed-and-no-retry-scheduled"
		case neverPushed:
			out.Cause = "never-pushed"
		default:
			out.Cause = "pushes-acknowledged-but-heads-missing"
		}
	}
}

// noProgress is the second clock-free criterion: the last c15NoProgressRounds pushes that B
// *received* (so B is reachable and A keeps retrying) all carried the same commit, all failed
// inside B with the same class of error, and B's block store did not grow by a single block over
// them.  Repeating the same delivery against an unchanged receiver is not going to end differently:
// the retry loop is alive but makes no progress.  Returns the error class, or "".
func (x *c15Run) noProgress() (string, map[string]any) {
	recv := x.b.Journal.Pushes()
	var done []p2p.Push
	for _, p := range recv {
		if p.Done {
			done = append(done, p)
		}
	}
	if len(done) < c15NoProgressRounds {
		return "", nil
	}
	tail := done[len(done)-c15NoProgressRounds:]
	cls := ""
	for _, p := range tail {
		if p.Err == "" || p.Cid != tail[0].Cid {
			return "", nil
		}
		c := errClass(p.Err)
		if cls != "" && c != cls {
			return "", nil
		}
		cls = c
	}
	// the commit must be a head of A that B does not have
	isHead := false
	for _, h := range c15Heads(x.ctx, x.a, tail[0].DocID) {
		if h == tail[0].Cid {
			isHead = true
		}
	}
	for _, h := range c15Heads(x.ctx, x.b, tail[0].DocID) {
		if h == tail[0].Cid {
			return "", nil
		}
	}
	if !isHead {
		return "", nil
	}
	// block store of B unchanged over the whole tail (sampled at every observed journal length)
	samples, val := 0, -1
	for n := tail[0].Seq + 1; n <= len(recv); n++ {
		if b, ok := x.blocksAtRecv[n]; ok {
			if val >= 0 && b != val {
				return "", nil
			}
			val = b
			samples++
		}
	}
	if samples < c15NoProgressRounds-1 {
		return "", nil
	}
	return cls, map[string]any{"rounds": c15NoProgressRounds, "commit": tail[0].Cid, "doc": tail[0].DocID, "receiver_error": tail[0].Err, "B_block_count": val}
}

func c15AllDone(ps []p2p.Push) bool {
	for _, p := range ps {
		if !p.Done {
			return false
		}
	}
	return true
}

// c15Distinct: 1 when the schedule was its own control (one execution), else 2.
func c15Distinct(fo, co *c15Outcome) int {
	if fo == co {
		return 1
	}
	return 2
}

func short(s string) string {
	if len(s) > 14 {
		return s[:6] + ".." + s[len(s)-6:]
	}
	return s
}

func c15FirstN(s string, n int) string {
	if len(s) > n {
		return s[:n] + "…"
	}
	return s
}

// ---------------------------------------------------------------------------------------

func runC15(ctx context.Context, c core.Case, r *core.Rec) {
	var p c15Params
	c.P(&p)
	p2p.CaptureLogs()
	if c15Stretch() > 1.5 {
		r.Note("deadline_stretched_machine_starved_of_cpu")
	}
	sc := p.Scenario
	ctl := sc.control()
	tag := fmt.Sprintf("c15|%d|%d|%s", c.Seed, c.Index, sc.Name)
	var fo, co *c15Outcome
	// A schedule that still has work pending at the deadline (or whose cluster could not be set
	// up) decides nothing.  Such states were only ever seen when the machine was starved of CPU,
	// so the pair is executed once more on fresh nodes before the scenario is given up as
	// inconclusive; the first attempt is kept as a note.
	for attempt := 0; attempt < 2; attempt++ {
		var wg sync.WaitGroup
		if sc.hasDisturbance() {
			wg.Add(2)
			go func() { defer wg.Done(); fo = runC15Schedule(ctx, sc, fmt.Sprintf("%s|faulty|%d", tag, attempt)) }()
			go func() { defer wg.Done(); co = runC15Schedule(ctx, ctl, fmt.Sprintf("%s|control|%d", tag, attempt)) }()
			wg.Wait()
		} else {
			// no outage and no fault window: the schedule is its own control
			fo = runC15Schedule(ctx, sc, fmt.Sprintf("%s|faulty|%d", tag, attempt))
			co = fo
		}
		undecided := ""
		for _, o := range []*c15Outcome{fo, co}[:c15Distinct(fo, co)] {
			if o.Verdict == "pending-at-deadline" || o.Verdict == "setup-error" {
				undecided = o.Verdict
				dj, _ := json.MarshalIndent(map[string]any{"scenario": o.Scenario, "log": o.Log, "detail": o.Detail, "err": o.Err}, "", " ")
				fmt.Fprintf(os.Stderr, "C15 undecided attempt %d %s: %s\n%s\n", attempt, o.Scenario.Name, o.Verdict, dj)
			}
		}
		if undecided == "" {
			break
		}
		if attempt == 0 {
			r.Note("first_attempt_undecided:" + undecided)
		}
	}

	if os.Getenv("VERIF_C15_VERBOSE") != "" {
		for _, o := range []*c15Outcome{fo, co}[:c15Distinct(fo, co)] {
			fmt.Fprintf(os.Stderr, "C15 %s: verdict=%s cause=%s err=%s\n  %s\n", o.Scenario.Name, o.Verdict, o.Cause, o.Err, strings.Join(o.Log, "\n  "))
		}
	}
	r.Count("evaluations", int64(c15Distinct(fo, co)))
	r.Count("scenarios", 1)
	if sc.Branchable {
		r.Count("branchable_scenarios", 1)
		r.Count("collection_level_commits_during_outage", int64(fo.CollectionCommitsDuringOut))
		if fo.CollectionMarkerSeen {
			r.Count("collection_level_push_failure_recorded", 1)
		}
		if fo.Verdict == "converged" {
			r.Count("collection_level_heads_compared", int64(fo.CollectionHeadsCompared))
		}
	}
	if sc.ACP {
		r.Count("acp_scenarios", 1)
		r.Count("writes_to_private_documents", int64(fo.PrivateWrites))
		r.Count("private_documents_existing_at_setreplicator", int64(fo.PrivateDocsAtSetRep))
	}
	r.Count("documents_existing_at_setreplicator", int64(fo.DocsAtSetRep))
	r.Count("replicator_deleted_with_retries_pending", int64(fo.ReplicatorDeletions))
	if fo.MarkersSurvivedDeletion {
		// bookkeeping only: the markers are retried (harmlessly) once a later failure creates a new
		// retry record; no commit is lost through them
		r.Note("retry_bookkeeping_survives_delete_replicator")
	}
	r.Count("config_"+sc.Config, 1)
	r.Count("writes_during_outage", int64(fo.WritesDuringOut))
	r.Count("b_peer_restarts", int64(fo.PeerRestarts))
	if fo.NodeRestarts > 0 && sc.BStore == "file" {
		r.Count("b_restarted_on_file_store", 1)
	}
	if fo.RetrySeen {
		r.Count("scenarios_with_retry_record", 1)
	}
	if fo.FailedRetrySeen {
		r.Count("scenarios_with_failed_retry", 1)
	}
	if fo.RetryAfterSkew {
		r.Count("retry_after_unapplied_patch", 1)
	}
	r.Count("sync_fault_windows", int64(fo.FaultWindows))
	r.Count("sync_faults_fired", int64(fo.FaultsFired))
	r.Count("sync_interrupted_after_head_stored", int64(fo.HalfSynced))
	r.Count("half_synced_head_pushed_again", int64(fo.HalfHeadRepushed))
	r.Count("half_synced_state_survived_peer_restart", int64(fo.HalfSyncedAfterRestart["peer"]))
	if sc.BStore == "file" {
		r.Count("half_synced_state_survived_node_restart", int64(fo.HalfSyncedAfterRestart["node"]))
	}
	if fo.FaultWindows > 0 && fo.FaultsFired == 0 {
		r.Note("armed_operation_not_reached")
	}
	if (fo.WritesDuringOut > 0 && (fo.RetrySeen || sc.Config == "pubsub")) || (fo.HalfSynced > 0 && fo.RetrySeen) {
		r.Nontrivial(sc.canon())
	}
	detail := func() map[string]any {
		return map[string]any{"scenario": sc, "faulty": fo, "control": co}
	}
	for _, o := range []*c15Outcome{fo, co} {
		if o.Verdict == "setup-error" {
			// the cluster could not be built or a write on A failed: nothing was decided
			r.Count("scenario_setup_error", 1)
			r.Note("setup_error:" + errClass(o.Err))
			fmt.Fprintf(os.Stderr, "C15 setup error in %s: %s\n", o.Scenario.Name, o.Err)
			return
		}
	}
	if fo.InactiveAtEnd || co.InactiveAtEnd {
		r.Note("replicator_entry_inactive_after_full_delivery")
	}
	if sc.Config == "pubsub" {
		// without a replicator there is no redelivery of any kind: a publication that B misses
		// (outage, or B still busy fetching) is lost whether or not the schedule has an outage, so
		// the control is informative only and both runs report under the one signature
		lost := false
		for _, o := range []*c15Outcome{fo, co} {
			switch o.Verdict {
			case "pending-at-deadline":
				r.Count("scenario_inconclusive", 1)
				r.Note("pending_at_deadline")
				return
			case "undelivered-quiescent":
				lost = true
				if o == co {
					r.Note("pubsub_control_lost_a_publication")
				}
			}
		}
		r.Count("scenarios_decided", 1)
		if co.Verdict == "converged" {
			r.Count("controls_converged", 1)
		}
		if lost {
			r.Violate("undelivered/pubsub/no-redelivery-without-replicator",
				fmt.Sprintf("schedule %q: B (subscribed to the collection, no replicator) lacks commits of A although B is reachable and nothing remains that could deliver them", sc.Name), detail())
		} else {
			r.Count("scenarios_converged", 1)
		}
		return
	}
	// control first: it must converge, otherwise a loss is not attributable to the outage
	switch co.Verdict {
	case "converged":
		r.Count("controls_converged", 1)
	case "pending-at-deadline":
		r.Count("scenario_inconclusive", 1)
		r.Note("control_pending_at_deadline")
		return
	default:
		r.Count("controls_not_converged", 1)
		r.Note("control_not_converged:" + sc.Config + "/" + co.Cause)
		// without the outage the same history does not arrive: not outage handling, but still a
		// commit of A that nothing will ever deliver (whatever the schedule with the outage did)
		r.Count("scenarios_decided", 1)
		if co.Verdict == "no-progress-livelock" {
			r.Violate("livelock-without-outage/"+sc.Config+"/"+co.Cause,
				fmt.Sprintf("schedule %q (no outage): A keeps retrying without progress: %s", co.Scenario.Name, co.Cause), detail())
		} else {
			r.Violate("undelivered-without-outage/"+sc.Config+"/"+co.Cause,
				fmt.Sprintf("schedule %q without any outage ends with B lacking commits of A while nothing is pending: %s", co.Scenario.Name, co.Cause), detail())
		}
		if fo != co && fo.Verdict != "converged" {
			r.Note("not_attributable_to_outage")
		}
		return
	}
	switch fo.Verdict {
	case "converged":
		r.Count("scenarios_decided", 1)
		r.Count("scenarios_converged", 1)
	case "pending-at-deadline":
		r.Count("scenario_inconclusive", 1)
		r.Note("pending_at_deadline")
		fmt.Fprintf(os.Stderr, "C15 inconclusive %s: %v\n", sc.Name, fo.Detail["pending"])
	case "no-progress-livelock":
		r.Count("scenarios_decided", 1)
		r.Violate("livelock/"+sc.Config+"/"+fo.Cause,
			fmt.Sprintf("schedule %q: B is reachable and A keeps retrying, but the last %d deliveries of the same commit all failed inside B in the same way while B's block store did not change (%s); the control without the outage converged", sc.Name, c15NoProgressRounds, fo.Cause), detail())
	case "undelivered-quiescent":
		r.Count("scenarios_decided", 1)
		r.Violate("undelivered/"+sc.Config+"/"+fo.Cause,
			fmt.Sprintf("schedule %q: B lacks commits of A although B is reachable and nothing remains that could deliver them (%s); the control without the outage / without the storage fault on B converged", sc.Name, fo.Cause), detail())
	}
	r.Sample(map[string]any{"scenario": sc.Name, "config": sc.Config, "steps": len(sc.Steps), "verdict": fo.Verdict, "control": co.Verdict,
		"writes_during_outage": fo.WritesDuringOut, "retry_seen": fo.RetrySeen, "syncs_interrupted_after_head_stored": fo.HalfSynced})
}

func init() {
	core.Register(&core.Check{
		ID:    "C15",
		Level: "exploration",
		Rule: "one case = one schedule of writes on A (create/update/delete, 1-3 documents) interleaved with B-down/B-up (peer closed | node closed and reopened on a file store), " +
			"an add-field patch (both | A only | B later), waits, and interrupted syncs (B's k-th direct block write / read of a window fails: head block stored, linked blocks missing; " +
			"followed by nothing | a failed retry | a restart of B's peer or node), run next to its control (same schedule without the outage and without the fault) on real loopback libp2p nodes; " +
			"families of their own: the same schedules on a @branchable collection (collection-level commits, half of them ending inside an outage, a quarter with the replicator configured after the first writes) and " +
			"document ACP on both nodes (public and owner-registered documents written before and after SetReplicator, optionally around an outage); " +
			"distinct = canonical schedule; non-trivial = a retry record observed in A's peer store and (a write while B was down, or B observed holding a head of A without its complete DAG) (pubsub-only: a write while B was down)",
		Cases: c15Cases,
		Run:   runC15,
		Floors: []string{"scenarios_decided", "controls_converged", "writes_during_outage", "scenarios_with_retry_record", "retry_after_unapplied_patch", "b_restarted_on_file_store", "scenarios_with_failed_retry", "undecided_scenarios_within_tolerance",
			"sync_interrupted_after_head_stored", "half_synced_head_pushed_again", "half_synced_state_survived_node_restart",
			"branchable_scenarios", "collection_level_commits_during_outage", "collection_level_push_failure_recorded", "collection_level_heads_compared",
			"acp_scenarios", "writes_to_private_documents", "private_documents_existing_at_setreplicator", "documents_existing_at_setreplicator"},
		CaseTimeout: 1200 * time.Second, // two attempts of a pair, each bounded by the (stretched) deadline
		Assumptions: []string{
			"unbounded 'eventually' restated as: converged, or (B lacks a commit of A and nothing is pending anywhere: no retry record / retry-doc marker for B in A's peer store, no push in flight, the newest update event of every document has had its push attempt, no merge in flight on B) observed unchanged on 14 successive observations; work still pending at D=90s is inconclusive (after one re-execution on fresh nodes), never a violation",
			"two further clock-free criteria count repetitions, not time: (a) no-progress livelock = the last 6 pushes received by B carried the same head of A, failed inside B with the same error class, and B's block store did not change; (b) stuck retry record = record in state 'retrying' with no push in flight and no new push on 48 successive observations (only the retry goroutine, which is always inside a journalled push, could ever advance it)",
			"retry interval configured to 1s (retry loop period is the 2s constant of net/p2p_replicator.go)",
			"loss is attributed to outage handling only when the control (same writes and patches, no outage, no storage fault) converges",
			"an interrupted sync is produced by failing direct (non-transactional) operations on /db/blocks of B (the receiver's syncDAG and block service; merges run in transactions and are never failed); the window is always closed before the verdict, so the retry runs against a healthy store",
			"'B holds a head of A without its complete DAG' is observed on the raw stores (head block present on B, some block of its closure on A absent on B), not inferred from the injected fault",
			"pushes are observed through gRPC interceptors installed via net/config Options (no repository change); receiver merge failures through the process' error log",
			"libp2p over 127.0.0.1, signing off; document ACP only in the acp scenario family (local ACP on both nodes, same policy, documents registered to one owner identity on A only, B without node identity stores what it receives; comparison queries run under the owner identity)",
			"branchable scenarios: B must end with A's collection-level heads (/db/heads/c/...) as well as the document heads; the newest collection-level update event must have had its push attempt before A counts as quiescent",
			"a third clock-free criterion counts retry rounds: the retry record started 5 further rounds (NumRetries) during which A sent no push and the retry-doc markers did not change, B reachable, nothing in flight on B",
			"schedules with an explicit `setrep` step configure the replicator after documents exist: update events before SetReplicator are the business of its initial push, whose end is observed (replicator-completed event on A's bus), not timed",
			"a schedule without outage and fault window is its own control (executed once); a loss in a control is reported as undelivered-without-outage/... whatever the disturbed schedule did",
			"A itself is never restarted (the property quantifies over outages of B)",
		},
		PostProcess: func(sup *core.Supervisor, m *core.Rec) {
			// A scenario that still had work pending at the deadline, or whose cluster could not be
			// set up, in both of its attempts decided nothing: it is reported (counters
			// scenario_inconclusive / scenario_setup_error, notes) and left out of the verdict, which
			// is about the scenarios that were decided. The run as a whole is inconclusive only when
			// more than a tenth of the scenarios (and more than two) went undecided - then something is
			// wrong with the machine or the harness, and the floors below would be hollow.
			undecided := m.Counters["scenario_inconclusive"] + m.Counters["scenario_setup_error"]
			m.Counters["scenarios_undecided"] = undecided
			if undecided <= 2 || undecided*10 <= m.Counters["scenarios"] {
				m.Counters["undecided_scenarios_within_tolerance"] = 1
			}
		},
	})
}
