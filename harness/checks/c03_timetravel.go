package checks

// C03 — a document queried at a commit shows exactly the state of that commit.
//
// One case = one scripted history on 1..3 real nodes (the script is stored in the case, so a
// witness replays the concrete operations, not the PRNG):
//
//   linear / linear-delete   one node, 1-3 documents, 2-8 updates each over register and counter
//                            fields (null writes, float counters), a GraphQL subscription open
//                            during the whole history; linear-delete additionally deletes a document.
//   branch / branch-delete   2-3 nodes write concurrently and exchange commits by block-closure
//                            copy + hook H1, later local writes produce multi-parent commits.
//
// Oracles (observations of the same execution, plus the harness's own write log):
//   (i)   versioned read at c  ==  ordinary query recorded on the writer right after c was written
//         (after a local write the writer's merged set is exactly ancestors(c) ∪ {c});
//   (ii)  counters at c        ==  Σ increments over ancestors(c) ∪ {c} (ancestry from the blocks);
//         registers at c       ∈   values of the causally maximal writes in ancestors(c) ∪ {c};
//   (iii) versioned read at the single current head == current ordinary query;
//   (iv)  k-th non-empty subscription result == ordinary query recorded right after the k-th
//         (non-delete) operation.
//   (v)   a commit is a state of documents of ITS collection only: a second collection (Twin) shares the
//         field names name, s, i, n with Doc. Col(cid: c) / Col(cid: c, docID: d) with c a commit of
//         a document of the other collection equals what the ordinary query Col(docID: d) returned on
//         the writer right after c was written - nothing - or is rejected with an error; in both
//         directions (Twin commit through Doc, Doc commit through Twin). Control: the Twin commit read
//         through Twin equals the ordinary Twin query recorded right after it.
// Every read runs under a per-operation watchdog; a read that never returns is a hang.

import (
	"context"
	"encoding/json"
	"fmt"
	"math/rand/v2"
	"sort"
	"strings"
	"sync"
	"sync/atomic"
	"time"

	"github.com/sourcenetwork/immutable"
	"github.com/sourcenetwork/lens/host-go/config/model"

	"github.com/sourcenetwork/defradb/client"
	"github.com/sourcenetwork/defradb/verifharness/core"
	"github.com/sourcenetwork/defradb/verifharness/sim"
)

type ttOp struct {
	Kind string         `json:"k"`              // create | update | delete | deliver | read | other (a write to a second collection) | twin (a write to document Doc of collection Twin, which shares field names with Doc: created on first use)
	Back int            `json:"back,omitempty"` // read: time-travel to the commit that many positions before the newest one the node lists
	Node int            `json:"n"`              // acting node (receiver for deliver)
	Doc  int            `json:"d"`              // document index (creation order)
	W    map[string]any `json:"w,omitempty"`    // written fields (counters: increment)
	Src  int            `json:"src,omitempty"`  // deliver: node whose current heads of Doc are delivered
}

type ttParams struct {
	Config string `json:"config"` // plain | branchable | indexed (secondary indexes on s and i)
	Nodes  int    `json:"nodes"`
	Script []ttOp `json:"script"`
	// LazySub: the subscription results are not read until the whole history has been written, so
	// every event after the first is evaluated when later commits already exist (a subscription that
	// evaluated at the current state instead of at the triggering commit would show later values).
	LazySub bool `json:"lazy_sub,omitempty"`
}

const ttFields = "_docID name s i f b t j a bl n p nf"

var ttRegisters = []string{"s", "i", "f", "b", "t", "j", "a", "bl"}
var ttCounters = []string{"n", "p", "nf"}

var ttDomains = map[string][]any{
	"s":  {"a", "b", "", nil},
	"i":  {1, 2, -7, nil},
	"f":  {0.5, 2.25, nil},
	"b":  {true, false, nil},
	"t":  {"2020-01-02T03:04:05Z", "2021-06-07T08:09:10.123456789Z", nil},
	"j":  {map[string]any{"k": 1}, []any{1, 2}, "x", nil},
	"a":  {[]any{1}, []any{1, 2}, nil},
	"bl": {"00ff", "ab", nil},
	"n":  {-1, 1, 2, 3},
	"p":  {1, 2, 3},
	"nf": {0.5, -0.5, 1.25},
}

// Twin: a second collection that shares the field names name, s, i, n (same types) with Doc and
// has one field of its own.
const ttTwinSDL = "\ntype Twin {\n\tname: String\n\ts: String\n\ti: Int\n\tn: Int @crdt(type: pncounter)\n\tz: String\n}"
const ttTwinFields = "_docID name s i n z"

var ttTwinShared = []string{"s", "i", "n"}

// ttTwinWrites: fields of one write to a Twin document; in 2 of 3 writes only fields that Doc has as well.
func ttTwinWrites(rng *rand.Rand) map[string]any {
	w := map[string]any{}
	for k := 1 + rng.IntN(2); k > 0; k-- {
		f := ttTwinShared[rng.IntN(len(ttTwinShared))]
		w[f] = ttDomains[f][rng.IntN(len(ttDomains[f]))]
	}
	if rng.IntN(3) == 0 {
		w["z"] = []any{"q", "r", nil}[rng.IntN(3)]
	}
	return w
}

// ttAddTwin inserts writes to 1-2 Twin documents at random places of a generated script (own PRNG
// stream: the histories themselves stay what they were).
func ttAddTwin(rng *rand.Rand, p *ttParams) {
	k := 1 + rng.IntN(3)
	for ; k > 0; k-- {
		at := rng.IntN(len(p.Script) + 1)
		op := ttOp{Kind: "twin", Node: rng.IntN(p.Nodes), Doc: rng.IntN(2), W: ttTwinWrites(rng)}
		p.Script = append(p.Script[:at], append([]ttOp{op}, p.Script[at:]...)...)
	}
}

// ---------------------------------------------------------------------------------------
// script generators

func ttWrites(rng *rand.Rand, create bool) map[string]any {
	w := map[string]any{}
	if create {
		for _, f := range append(append([]string{}, ttRegisters...), ttCounters...) {
			if rng.IntN(3) == 0 {
				if v := ttDomains[f][rng.IntN(len(ttDomains[f]))]; v != nil {
					w[f] = v
				}
			}
		}
		return w
	}
	nf := 1 + rng.IntN(3)
	for k := 0; k < nf; k++ {
		var f string
		if rng.IntN(2) == 0 {
			f = ttCounters[rng.IntN(len(ttCounters))]
		} else {
			f = ttRegisters[rng.IntN(len(ttRegisters))]
		}
		w[f] = ttDomains[f][rng.IntN(len(ttDomains[f]))]
	}
	return w
}

func ttGenLinear(rng *rand.Rand, withDelete bool) ttParams {
	p := ttParams{Config: "plain", Nodes: 1}
	switch rng.IntN(5) {
	case 0:
		p.Config = "branchable"
	case 1:
		p.Config = "indexed"
	}
	docs := 1 + rng.IntN(3)
	var tokens []int
	for d := 0; d < docs; d++ {
		u := 2 + rng.IntN(7)
		for k := 0; k < u; k++ {
			tokens = append(tokens, d)
		}
	}
	rng.Shuffle(len(tokens), func(a, b int) { tokens[a], tokens[b] = tokens[b], tokens[a] })
	// document indexes are creation order: relabel by first occurrence
	relabel := map[int]int{}
	delDoc, delAfter := -1, 0
	if withDelete {
		delDoc = rng.IntN(docs)
		if rng.IntN(3) == 0 {
			delAfter = 1 + rng.IntN(3) // delete in the middle: after that many updates of the document
		} else {
			delAfter = 1 << 30 // delete at the very end
		}
	}
	seen := map[int]int{}
	deleted := map[int]bool{}
	for _, d := range tokens {
		if _, ok := relabel[d]; !ok {
			relabel[d] = len(relabel)
			w := ttWrites(rng, true)
			w["name"] = fmt.Sprintf("d%d", relabel[d])
			p.Script = append(p.Script, ttOp{Kind: "create", Doc: relabel[d], W: w})
		}
		if deleted[d] {
			continue
		}
		p.Script = append(p.Script, ttOp{Kind: "update", Doc: relabel[d], W: ttWrites(rng, false)})
		seen[d]++
		if rng.IntN(4) == 0 {
			p.Script = append(p.Script, ttOp{Kind: "read", Doc: relabel[d], Back: rng.IntN(seen[d] + 1)})
		}
		if rng.IntN(8) == 0 {
			p.Script = append(p.Script, ttOp{Kind: "other"})
		}
		if d == delDoc && seen[d] >= delAfter {
			p.Script = append(p.Script, ttOp{Kind: "delete", Doc: relabel[d]})
			deleted[d] = true
		}
	}
	if withDelete && !deleted[delDoc] {
		if _, ok := relabel[delDoc]; ok {
			p.Script = append(p.Script, ttOp{Kind: "delete", Doc: relabel[delDoc]})
		}
	}
	p.LazySub = rng.IntN(3) == 0
	return p
}

func ttGenBranch(rng *rand.Rand, withDelete bool) ttParams {
	p := ttParams{Config: "plain", Nodes: 2 + rng.IntN(2)}
	switch rng.IntN(5) {
	case 0:
		p.Config = "branchable"
	case 1:
		p.Config = "indexed"
	}
	nn := p.Nodes
	docs := 1 + rng.IntN(2)
	known := make([][]bool, nn)
	deleted := make([][]bool, nn)
	for i := range known {
		known[i] = make([]bool, docs)
		deleted[i] = make([]bool, docs)
	}
	deliver := func(src, dst, d int) {
		p.Script = append(p.Script, ttOp{Kind: "deliver", Node: dst, Src: src, Doc: d})
		known[dst][d] = true
		if deleted[src][d] {
			deleted[dst][d] = true
		}
	}
	for d := 0; d < docs; d++ {
		c := rng.IntN(nn)
		w := ttWrites(rng, true)
		w["name"] = fmt.Sprintf("d%d", d)
		p.Script = append(p.Script, ttOp{Kind: "create", Node: c, Doc: d, W: w})
		known[c][d] = true
		if rng.IntN(10) != 0 { // genesis-first recipe; otherwise others learn the document later
			for r := 0; r < nn; r++ {
				if r != c {
					deliver(c, r, d)
				}
			}
		}
	}
	steps := 6 + rng.IntN(10)
	for s := 0; s < steps; s++ {
		d := rng.IntN(docs)
		if rng.IntN(10) < 5 {
			r := rng.IntN(nn)
			if !known[r][d] || deleted[r][d] {
				continue
			}
			for k := 1 + rng.IntN(3); k > 0; k-- {
				p.Script = append(p.Script, ttOp{Kind: "update", Node: r, Doc: d, W: ttWrites(rng, false)})
			}
			if rng.IntN(3) == 0 {
				p.Script = append(p.Script, ttOp{Kind: "read", Node: r, Doc: d, Back: rng.IntN(6)})
			}
		} else {
			src, dst := rng.IntN(nn), rng.IntN(nn)
			if src == dst || !known[src][d] {
				continue
			}
			deliver(src, dst, d)
		}
	}
	if withDelete {
		d := rng.IntN(docs)
		for r := 0; r < nn; r++ {
			if known[r][d] && !deleted[r][d] {
				p.Script = append(p.Script, ttOp{Kind: "delete", Node: r, Doc: d})
				deleted[r][d] = true
				// a concurrent update on a node that has not seen the delete
				o := (r + 1) % nn
				if known[o][d] && !deleted[o][d] && rng.IntN(2) == 0 {
					p.Script = append(p.Script, ttOp{Kind: "update", Node: o, Doc: d, W: ttWrites(rng, false)})
				}
				break
			}
		}
	}
	// full exchange, twice, so that every node holds every commit; between the rounds nodes write
	// on top of the merged frontier (multi-parent commits)
	for round := 0; round < 2; round++ {
		if round == 1 {
			for d := 0; d < docs; d++ {
				for r := 0; r < nn; r++ {
					if known[r][d] && !deleted[r][d] && rng.IntN(2) == 0 {
						p.Script = append(p.Script, ttOp{Kind: "update", Node: r, Doc: d, W: ttWrites(rng, false)})
					}
				}
			}
		}
		for d := 0; d < docs; d++ {
			for src := 0; src < nn; src++ {
				for dst := 0; dst < nn; dst++ {
					if src != dst && known[src][d] {
						deliver(src, dst, d)
					}
				}
			}
		}
	}
	p.LazySub = rng.IntN(2) == 0
	return p
}

func ttKind(p ttParams) string {
	k := "linear"
	if p.Nodes > 1 {
		k = "branch"
	}
	for _, op := range p.Script {
		if op.Kind == "delete" {
			return k + "-delete"
		}
	}
	return k
}

func ttAnchors() []core.Case {
	var cs []core.Case
	add := func(p ttParams) { cs = append(cs, core.MkCase("anchor/"+ttKind(p), 1, p)) }
	// the history of the property text: a counter written 1,+2,+3,+4 must read 1,3,6,10; plus
	// null writes, a float counter and a positive counter
	add(ttParams{Config: "indexed", Nodes: 1, Script: []ttOp{
		{Kind: "create", Doc: 0, W: map[string]any{"name": "a", "n": 1, "s": "x", "nf": 0.5}},
		{Kind: "update", Doc: 0, W: map[string]any{"n": 2, "s": nil}},
		{Kind: "update", Doc: 0, W: map[string]any{"n": 3, "nf": 1.25, "i": 2, "p": 1}},
		{Kind: "read", Doc: 0, Back: 2}, // time-travel in the middle of the history, then keep writing
		{Kind: "update", Doc: 0, W: map[string]any{"n": 4, "s": "y", "p": 2}},
		{Kind: "read", Doc: 0, Back: 1},
		{Kind: "update", Doc: 0, W: map[string]any{"n": -1, "i": nil, "nf": -0.5, "p": 3}},
		{Kind: "update", Doc: 0, W: map[string]any{"p": 1, "j": map[string]any{"k": 1}, "a": []any{1, 2}}},
	}})
	// two interleaved documents on a branchable collection; subscription results read after the history
	add(ttParams{Config: "branchable", Nodes: 1, LazySub: true, Script: []ttOp{
		{Kind: "create", Doc: 0, W: map[string]any{"name": "a", "p": 1}},
		{Kind: "create", Doc: 1, W: map[string]any{"name": "b", "n": 5, "b": true}},
		{Kind: "update", Doc: 0, W: map[string]any{"p": 2, "t": "2020-01-02T03:04:05Z"}},
		{Kind: "update", Doc: 1, W: map[string]any{"n": -1, "b": nil}},
		{Kind: "other"},
		{Kind: "update", Doc: 0, W: map[string]any{"p": 3, "bl": "00ff"}},
		{Kind: "update", Doc: 1, W: map[string]any{"n": 2, "f": 2.25}},
		{Kind: "update", Doc: 0, W: map[string]any{"p": 1, "t": nil}},
	}})
	// delete in the middle of a history observed by a subscription: reads at the deleting commit,
	// at the commits before it, and subscription results for the operations after it
	add(ttParams{Config: "plain", Nodes: 1, Script: []ttOp{
		{Kind: "create", Doc: 0, W: map[string]any{"name": "a", "n": 1, "s": "x"}},
		{Kind: "create", Doc: 1, W: map[string]any{"name": "b", "n": 1}},
		{Kind: "update", Doc: 0, W: map[string]any{"n": 2, "s": "y"}},
		{Kind: "delete", Doc: 0},
		{Kind: "update", Doc: 1, W: map[string]any{"n": 2, "s": "z"}},
		{Kind: "update", Doc: 1, W: map[string]any{"n": 3}},
	}})
	// a local commit whose subscription event is evaluated after a concurrent commit of another node
	// has been merged next to it (two heads): the result must be the state of the local commit
	add(ttParams{Config: "plain", Nodes: 2, LazySub: true, Script: []ttOp{
		{Kind: "create", Node: 0, Doc: 0, W: map[string]any{"name": "a", "n": 1, "s": "x"}},
		{Kind: "deliver", Node: 1, Src: 0, Doc: 0},
		{Kind: "update", Node: 0, Doc: 0, W: map[string]any{"n": 2, "s": "local"}},
		{Kind: "update", Node: 1, Doc: 0, W: map[string]any{"n": 4, "s": "remote", "i": 2}},
		{Kind: "deliver", Node: 0, Src: 1, Doc: 0},
		{Kind: "update", Node: 0, Doc: 0, W: map[string]any{"n": 1, "i": 1}},
	}})
	// two writers, exchange, merge commit with two parents, further writes
	add(ttParams{Config: "plain", Nodes: 2, Script: []ttOp{
		{Kind: "create", Node: 0, Doc: 0, W: map[string]any{"name": "a", "n": 1, "s": "x"}},
		{Kind: "deliver", Node: 1, Src: 0, Doc: 0},
		{Kind: "update", Node: 0, Doc: 0, W: map[string]any{"n": 1, "s": "a"}},
		{Kind: "update", Node: 0, Doc: 0, W: map[string]any{"n": 2, "i": 1}},
		{Kind: "update", Node: 1, Doc: 0, W: map[string]any{"n": 3, "s": nil}},
		{Kind: "update", Node: 1, Doc: 0, W: map[string]any{"n": 1, "nf": 0.5}},
		{Kind: "update", Node: 1, Doc: 0, W: map[string]any{"n": 2, "i": 2}},
		{Kind: "deliver", Node: 0, Src: 1, Doc: 0},
		{Kind: "read", Node: 0, Doc: 0, Back: 3},
		{Kind: "update", Node: 0, Doc: 0, W: map[string]any{"n": 1, "s": "m"}}, // two parents
		{Kind: "deliver", Node: 1, Src: 0, Doc: 0},
		{Kind: "update", Node: 1, Doc: 0, W: map[string]any{"n": 4, "nf": 1.25}},
		{Kind: "deliver", Node: 0, Src: 1, Doc: 0},
	}})
	// three writers, three-way merge commit, on a branchable collection
	add(ttParams{Config: "branchable", Nodes: 3, Script: []ttOp{
		{Kind: "create", Node: 0, Doc: 0, W: map[string]any{"name": "a", "p": 1}},
		{Kind: "deliver", Node: 1, Src: 0, Doc: 0},
		{Kind: "deliver", Node: 2, Src: 0, Doc: 0},
		{Kind: "update", Node: 0, Doc: 0, W: map[string]any{"p": 1, "s": "a"}},
		{Kind: "update", Node: 1, Doc: 0, W: map[string]any{"p": 2, "s": "b"}},
		{Kind: "update", Node: 1, Doc: 0, W: map[string]any{"p": 2, "n": -1}},
		{Kind: "update", Node: 2, Doc: 0, W: map[string]any{"p": 3, "s": nil}},
		{Kind: "deliver", Node: 0, Src: 1, Doc: 0},
		{Kind: "deliver", Node: 0, Src: 2, Doc: 0},
		{Kind: "update", Node: 0, Doc: 0, W: map[string]any{"p": 1, "n": 2}}, // three parents
		{Kind: "deliver", Node: 1, Src: 0, Doc: 0},
		{Kind: "deliver", Node: 2, Src: 0, Doc: 0},
		{Kind: "deliver", Node: 2, Src: 1, Doc: 0},
		{Kind: "update", Node: 2, Doc: 0, W: map[string]any{"p": 1}},
		{Kind: "deliver", Node: 0, Src: 2, Doc: 0},
		{Kind: "deliver", Node: 1, Src: 2, Doc: 0},
	}})
	// delete on one node concurrent with an update on the other
	add(ttParams{Config: "plain", Nodes: 2, Script: []ttOp{
		{Kind: "create", Node: 0, Doc: 0, W: map[string]any{"name": "a", "n": 1, "s": "x"}},
		{Kind: "deliver", Node: 1, Src: 0, Doc: 0},
		{Kind: "update", Node: 0, Doc: 0, W: map[string]any{"n": 1, "s": "a"}},
		{Kind: "update", Node: 1, Doc: 0, W: map[string]any{"n": 2, "s": "b"}},
		{Kind: "delete", Node: 0, Doc: 0},
		{Kind: "update", Node: 1, Doc: 0, W: map[string]any{"n": 3}},
		{Kind: "deliver", Node: 1, Src: 0, Doc: 0},
		{Kind: "deliver", Node: 0, Src: 1, Doc: 0},
	}})
	// commits of another collection that shares field names: Twin documents written with shared fields
	// only (create, update incl. counter and null write) and with a field Doc does not have, between
	// the commits of a Doc document; every one is requested through Doc (bare, with the Twin docID,
	// with the docID of a Doc document), every Doc commit is requested through Twin
	add(ttParams{Config: "plain", Nodes: 1, Script: []ttOp{
		{Kind: "create", Doc: 0, W: map[string]any{"name": "a", "n": 1, "s": "x"}},
		{Kind: "twin", Doc: 0, W: map[string]any{"s": "tw", "n": 2}},
		{Kind: "update", Doc: 0, W: map[string]any{"n": 2, "i": 1}},
		{Kind: "twin", Doc: 0, W: map[string]any{"n": 3, "i": 2}},
		{Kind: "twin", Doc: 1, W: map[string]any{"s": "b", "z": "q"}},
		{Kind: "update", Doc: 0, W: map[string]any{"n": 3, "s": nil}},
		{Kind: "twin", Doc: 0, W: map[string]any{"s": nil}},
		{Kind: "update", Doc: 0, W: map[string]any{"n": 4, "p": 1}},
	}})
	add(ttParams{Config: "indexed", Nodes: 2, LazySub: true, Script: []ttOp{
		{Kind: "create", Node: 0, Doc: 0, W: map[string]any{"name": "a", "n": 1, "s": "x"}},
		{Kind: "deliver", Node: 1, Src: 0, Doc: 0},
		{Kind: "twin", Node: 1, Doc: 0, W: map[string]any{"i": 1}},
		{Kind: "update", Node: 0, Doc: 0, W: map[string]any{"n": 2, "s": "local"}},
		{Kind: "twin", Node: 0, Doc: 0, W: map[string]any{"s": "x", "n": 1}},
		{Kind: "update", Node: 1, Doc: 0, W: map[string]any{"n": 4, "i": 2}},
		{Kind: "deliver", Node: 0, Src: 1, Doc: 0},
		{Kind: "update", Node: 0, Doc: 0, W: map[string]any{"n": 1, "i": 1}},
		{Kind: "twin", Node: 0, Doc: 0, W: map[string]any{"n": 2}},
		{Kind: "deliver", Node: 1, Src: 0, Doc: 0},
	}})
	return cs
}

func ttCases(seed uint64, tier string) []core.Case {
	cs := ttAnchors()
	rng := rand.New(rand.NewPCG(seed, 303))
	rngTwin := rand.New(rand.NewPCG(seed, 304))
	n := tierN(tier, 150, 3000)
	for i := 0; i < n; i++ {
		var p ttParams
		x := rng.IntN(100)
		switch {
		case x < 50:
			p = ttGenLinear(rng, false)
		case x < 56:
			p = ttGenLinear(rng, true)
		case x < 95:
			p = ttGenBranch(rng, false)
		default:
			p = ttGenBranch(rng, true)
		}
		if rngTwin.IntN(3) == 0 {
			ttAddTwin(rngTwin, &p)
		}
		cs = append(cs, core.MkCase(ttKind(p), rng.Uint64(), p))
	}
	return cs
}

// ---------------------------------------------------------------------------------------
// execution

type ttCommit struct {
	Cid     string
	Doc     int
	Parents []string
	Writer  int
	OpIdx   int
	W       map[string]any
	Deleted bool
	Snap    string         // canonical rows of the ordinary query on the writer right after the commit
	SnapDel string         // same with showDeleted:true and _deleted
	Row     map[string]any // the row of SnapDel (values written by this commit are read from it)
	SubData string         // {"Doc":[...]} as the ordinary query returned it (subscription comparison)
}

type ttRun struct {
	ctx      context.Context
	p        ttParams
	kind     string
	r        *core.Rec
	nodes    []*core.Node
	colID    string
	docIDs   []string
	commits  map[string]*ttCommit
	order    []string
	log      []string
	hung     bool // some request never returned (nodes are not closed synchronously)
	readHung bool // a time-travel read never returned: stop reading
	aborted  bool
	watchdog time.Duration
	sub      *ttSub
	hasDel   bool
	twinIDs  map[string]string // "<node>/<twin document index>" -> docID (Twin documents are local to their writer)
	twins    []*ttTwinCommit
	// modeSuffix marks the reads repeated after the collection got a new schema version
	// (seeded C03-d: the commits written under the earlier version were taken for foreign ones)
	modeSuffix string
}

// ttTwinCommit: a commit of a document of collection Twin.
type ttTwinCommit struct {
	Cid, DocID string
	Node       int
	OpIdx      int
	W          map[string]any
	SharedOnly bool   // every field written so far on that document exists in Doc as well
	Snap       string // ordinary Twin(docID) on the writer right after the commit
	AsDoc      string // ordinary Doc(docID: <Twin docID>) on the writer right after the commit
}

func (t *ttRun) logf(f string, a ...any) { t.log = append(t.log, fmt.Sprintf(f, a...)) }

func (t *ttRun) violate(sig, msg string) {
	t.r.Violate(sig, msg, map[string]any{"params": t.p, "log": t.log})
}

// guarded runs f under the per-operation watchdog; false = f did not return.
func (t *ttRun) guarded(f func()) bool {
	done := make(chan any, 1)
	start := time.Now()
	go func() {
		defer func() { done <- recover() }()
		f()
	}()
	t.watchdog = ttWatchdog()
	select {
	case p := <-done:
		if p != nil {
			panic(p)
		}
		if el := int64(time.Since(start)); el > ttSlowest.Load() {
			ttSlowest.Store(el)
		}
		return true
	case <-time.After(t.watchdog):
		t.hung = true
		return false
	}
}

type ttSub struct {
	ch      chan client.GQLResult
	cancel  context.CancelFunc
	dead    bool
	gate    chan struct{} // closed when the reader may start taking results
	once    sync.Once
	pending []*ttCommit // lazy mode: commits whose results are compared after the history (nil = a write to the other collection)
	foreign int         // writes to the other collection whose event has not provably been passed yet
}

func (s *ttSub) open() { s.once.Do(func() { close(s.gate) }) }

func ttOpenSub(ctx context.Context, n *core.Node, lazy bool) *ttSub {
	sctx, cancel := context.WithCancel(ctx)
	res := n.DB.ExecRequest(sctx, `subscription { Doc { `+ttFields+` } }`)
	if len(res.GQL.Errors) > 0 {
		cancel()
		panic(res.GQL.Errors[0])
	}
	s := &ttSub{ch: make(chan client.GQLResult, 4096), cancel: cancel, gate: make(chan struct{})}
	go func() {
		<-s.gate
		for r := range res.Subscription {
			s.ch <- r
		}
		close(s.ch)
	}()
	if !lazy {
		s.open()
	}
	return s
}

const ttEmptySub = `{"Doc":[]}`

func ttSubData(r client.GQLResult) string {
	b, _ := json.Marshal(r.Data)
	return string(b)
}

// ttSlowest is the slowest request of this worker process that did return (the watchdog scales
// with it, so that an overloaded machine is not mistaken for a request that never returns).
var ttSlowest atomic.Int64

func ttWatchdog() time.Duration {
	d := 60 * time.Second
	if a := 100 * time.Duration(ttSlowest.Load()); a > d {
		d = a
	}
	if d > 5*time.Minute {
		d = 5 * time.Minute
	}
	return d
}

func runTimeTravel(ctx context.Context, c core.Case, r *core.Rec) {
	var p ttParams
	c.P(&p)
	t := &ttRun{ctx: ctx, p: p, kind: ttKind(p), r: r, commits: map[string]*ttCommit{}, watchdog: ttWatchdog(), twinIDs: map[string]string{}}
	t.hasDel = strings.HasSuffix(t.kind, "-delete")
	for i := 0; i < p.Nodes; i++ {
		n := core.NewNode(ctx, core.NodeOpts{})
		_, err := n.DB.AddSchema(ctx, sim.SDL(p.Config)+"\ntype Other {\n\tx: Int\n}"+ttTwinSDL)
		core.Must(err)
		t.nodes = append(t.nodes, n)
	}
	defer func() {
		if t.sub != nil {
			t.sub.open()
			t.sub.cancel()
		}
		for _, n := range t.nodes {
			if t.hung {
				go n.Close() // a request of this node never returned; do not wait for it
			} else {
				n.Close()
			}
		}
	}()
	t.colID = t.nodes[0].Col(ctx, "Doc").Version().CollectionID
	// node 0 is observed by a subscription in linear AND in branching histories: in a branching
	// history read lazily, the event of a local commit is evaluated when commits of other nodes have
	// been merged next to it (the document has several heads) - the result must still be the state
	// of the commit that triggered it.
	t.sub = ttOpenSub(ctx, t.nodes[0], p.LazySub)
	if p.Nodes > 1 {
		r.Count("branching_histories_with_subscription", 1)
		if p.LazySub {
			r.Count("branching_histories_with_lazy_subscription", 1)
		}
	}
	for i, op := range p.Script {
		t.step(i, op)
		if t.aborted {
			r.Note("history-aborted")
			return
		}
	}
	if t.sub != nil && p.LazySub {
		t.sub.open()
		for _, ci := range t.sub.pending {
			if ci == nil {
				t.sub.foreign++
				continue
			}
			t.expectSub(ci)
		}
		r.Count("lazy_subscription_histories", 1)
	}
	t.drainSub()
	t.readAll()
	t.readCross()
	// Half of the histories: every node patches the schema of Doc (a new, active collection version)
	// and every commit is read again. The commits were all written under the earlier version; the
	// state of a commit does not depend on which version of its collection is the current one.
	if len(p.Script)%2 == 1 && !t.readHung && !t.hung {
		patched := true
		for ni, n := range t.nodes {
			patch := `[{"op":"add","path":"/Doc/Fields/-","value":{"Name":"zzLate","Kind":"String"}}]`
			if err := n.DB.PatchSchema(ctx, patch, immutable.None[model.Lens](), true); err != nil {
				t.logf("n%d: schema patch failed: %v", ni, err)
				r.Note("schema-patch-failed")
				patched = false
				break
			}
		}
		if patched {
			t.modeSuffix = "/after-schema-patch"
			t.readAll()
			r.Count("histories_reread_after_schema_patch", 1)
		}
	}

	// coverage
	r.Count("histories", 1)
	if p.Nodes == 1 {
		r.Count("linear_histories", 1)
	} else {
		r.Count("branching_histories", 1)
	}
	maxInc, hasCounter := 0, false
	for d := range t.docIDs {
		for _, f := range ttCounters {
			k := 0
			for _, cid := range t.order {
				if ci := t.commits[cid]; ci.Doc == d {
					if v, ok := ci.W[f]; ok && v != nil {
						k++
					}
				}
			}
			if k > 0 {
				hasCounter = true
			}
			if k > maxInc {
				maxInc = k
			}
		}
	}
	if maxInc >= 4 {
		r.Count("counter_history_len_ge4", 1)
	}
	if len(t.order) >= 3 && hasCounter {
		r.Count("nontrivial_histories", 1)
		r.Nontrivial(t.kind + "|" + p.Config + "|" + t.shape())
	}
	r.Sample(map[string]any{"kind": t.kind, "params": p, "log": clipLog(t.log, 30)})
}

func clipLog(l []string, n int) []string {
	if len(l) > n {
		return append(append([]string{}, l[:n]...), fmt.Sprintf("... %d more lines", len(l)-n))
	}
	return l
}

// shape: hash-free description of the history: per document the multiset of
// (height-free) parent counts and the kinds of fields written, in commit order.
func (t *ttRun) shape() string {
	var parts []string
	for _, cid := range t.order {
		ci := t.commits[cid]
		var fs []string
		for f := range ci.W {
			fs = append(fs, f)
		}
		sort.Strings(fs)
		parts = append(parts, fmt.Sprintf("%d/%d:%s", ci.Doc, len(ci.Parents), strings.Join(fs, "")))
	}
	return strings.Join(parts, ",")
}

func (t *ttRun) rows(n *core.Node, q string) ([]map[string]any, error) {
	return n.Rows(t.ctx, q, "Doc")
}

func qPlain(docID string) string {
	return fmt.Sprintf(`query { Doc(docID: "%s") { %s } }`, docID, ttFields)
}
func qDel(docID string) string {
	return fmt.Sprintf(`query { Doc(docID: "%s", showDeleted: true) { _deleted %s } }`, docID, ttFields)
}
func qAt(cid, docID string) string {
	return fmt.Sprintf(`query { Doc(cid: "%s", docID: "%s") { %s } }`, cid, docID, ttFields)
}
func qAtDel(cid, docID string) string {
	return fmt.Sprintf(`query { Doc(cid: "%s", docID: "%s", showDeleted: true) { _deleted %s } }`, cid, docID, ttFields)
}

func (t *ttRun) step(i int, op ttOp) {
	n := t.nodes[op.Node]
	col := n.Col(t.ctx, "Doc")
	switch op.Kind {
	case "create":
		b, _ := json.Marshal(op.W)
		doc, err := client.NewDocFromJSON(b, col.Definition())
		core.Must(err)
		if err := col.Create(t.ctx, doc); err != nil {
			t.logf("#%d create on n%d: %v", i, op.Node, err)
			t.aborted = true
			return
		}
		if op.Doc != len(t.docIDs) {
			panic("script: documents must be created in index order")
		}
		t.docIDs = append(t.docIDs, doc.ID().String())
		t.logf("#%d create d%d on n%d %s", i, op.Doc, op.Node, core.Canon(op.W))
		t.recordLocal(i, op)
	case "update":
		id, err := client.NewDocIDFromString(t.docIDs[op.Doc])
		core.Must(err)
		d, err := col.Get(t.ctx, id, false)
		if err != nil {
			t.logf("#%d update d%d on n%d: get: %v", i, op.Doc, op.Node, err)
			t.aborted = true
			return
		}
		b, _ := json.Marshal(op.W)
		core.Must(d.SetWithJSON(b))
		if err := col.Update(t.ctx, d); err != nil {
			t.logf("#%d update d%d on n%d: %v", i, op.Doc, op.Node, err)
			t.aborted = true
			return
		}
		t.logf("#%d update d%d on n%d %s", i, op.Doc, op.Node, core.Canon(op.W))
		t.recordLocal(i, op)
	case "delete":
		id, err := client.NewDocIDFromString(t.docIDs[op.Doc])
		core.Must(err)
		if _, err := col.Delete(t.ctx, id); err != nil {
			t.logf("#%d delete d%d on n%d: %v", i, op.Doc, op.Node, err)
			t.aborted = true
			return
		}
		t.logf("#%d delete d%d on n%d", i, op.Doc, op.Node)
		t.recordLocal(i, op)
	case "read":
		t.midRead(i, op)
	case "other":
		// a committed change in another collection: the subscription on Doc must not report anything for it
		oc := n.Col(t.ctx, "Other")
		doc, err := client.NewDocFromJSON([]byte(fmt.Sprintf(`{"x": %d}`, i)), oc.Definition())
		core.Must(err)
		if err := oc.Create(t.ctx, doc); err != nil {
			t.logf("#%d other: %v", i, err)
			t.r.Note("other-collection-write-failed")
			return
		}
		if t.sub != nil {
			if t.p.LazySub {
				t.sub.pending = append(t.sub.pending, nil)
			} else {
				t.sub.foreign++
			}
		}
		t.logf("#%d write to collection Other", i)
		t.r.Count("writes_to_other_collection", 1)
	case "twin":
		t.twinWrite(i, op)
	case "deliver":
		src := t.nodes[op.Src]
		docID := t.docIDs[op.Doc]
		for _, h := range src.CompositeHeads(t.ctx, docID) {
			core.CopyClosure(t.ctx, src, n, core.ParseCid(h))
			if err := n.Merge(t.ctx, docID, core.ParseCid(h), t.colID); err != nil {
				t.logf("#%d deliver d%d n%d->n%d %s: %v", i, op.Doc, op.Src, op.Node, tailCid(h), err)
				t.r.Note("merge-error(not judged by C03)")
				t.aborted = true
				return
			}
			t.logf("#%d deliver d%d n%d->n%d %s", i, op.Doc, op.Src, op.Node, tailCid(h))
			t.r.Count("deliveries", 1)
		}
	}
}

// midRead: a time-travel read in the middle of the history. Besides the value oracles, the read
// must leave the document's head set as it was (the following writes and reads build on it).
func (t *ttRun) midRead(i int, op ttOp) {
	n := t.nodes[op.Node]
	docID := t.docIDs[op.Doc]
	rows, err := n.Rows(t.ctx, fmt.Sprintf(`query { commits(docID: "%s", fieldName: "_C") { cid } }`, docID), "commits")
	if err != nil {
		t.r.Note("commits-query-error")
		return
	}
	listed := map[string]bool{}
	for _, row := range rows {
		listed[row["cid"].(string)] = true
	}
	var cand []string
	for _, c := range t.order {
		if t.commits[c].Doc == op.Doc && listed[c] {
			cand = append(cand, c)
		}
	}
	if len(cand) == 0 {
		return
	}
	k := len(cand) - 1 - op.Back
	if k < 0 {
		k = 0
	}
	ci := t.commits[cand[k]]
	before := n.CompositeHeads(t.ctx, docID)
	mode := "linear"
	if t.p.Nodes > 1 {
		mode = "branching"
	}
	t.logf("#%d read on n%d d%d at %s", i, op.Node, op.Doc, tailCid(ci.Cid))
	t.readAt(mode, op.Node, n, docID, ci, len(before) == 1 && before[0] == ci.Cid)
	t.r.Count("mid_history_reads", 1)
	if t.readHung {
		t.aborted = true
		return
	}
	after := n.CompositeHeads(t.ctx, docID)
	if strings.Join(before, ",") != strings.Join(after, ",") {
		t.violate("time-travel-read/changes-head-set", fmt.Sprintf("n%d d%d: the document had heads %v, after the time-travel query at %s it has heads %v", op.Node, op.Doc, tailsOf(before), tailCid(ci.Cid), tailsOf(after)))
	}
}

func tailCid(c string) string {
	if len(c) > 6 {
		return ".." + c[len(c)-6:]
	}
	return c
}

// recordLocal registers the commit a local operation produced, with the writer's post-commit view.
func (t *ttRun) recordLocal(i int, op ttOp) {
	n := t.nodes[op.Node]
	docID := t.docIDs[op.Doc]
	heads := n.CompositeHeads(t.ctx, docID)
	var fresh []string
	for _, h := range heads {
		if t.commits[h] == nil {
			fresh = append(fresh, h)
		}
	}
	if len(fresh) == 0 && len(heads) == 1 && op.Kind != "create" {
		// two nodes wrote the same values on top of the same parents: registers carry no nonce, the
		// blocks are byte-identical and so is the cid. The commit is already on record.
		t.logf("   -> %s (identical to a commit written by n%d)", tailCid(heads[0]), t.commits[heads[0]].Writer)
		t.r.Count("identical_commit_written_by_two_nodes", 1)
		// node 0 still committed a mutation of its own: its subscription delivers a result for it,
		// which must be consumed here (and equals the state of that - shared - commit)
		if t.sub != nil && op.Node == 0 {
			if ci := t.commits[heads[0]]; ci != nil {
				if t.p.LazySub {
					t.sub.pending = append(t.sub.pending, ci)
				} else {
					t.expectSub(ci)
				}
			}
		}
		return
	}
	if len(fresh) != 1 || len(heads) != 1 {
		t.logf("#%d: %d heads, %d new after a local write", i, len(heads), len(fresh))
		t.r.Note("unexpected-head-set-after-local-write")
		if len(fresh) != 1 {
			t.aborted = true
			return
		}
	}
	ci := &ttCommit{Cid: fresh[0], Doc: op.Doc, Writer: op.Node, OpIdx: i, W: op.W, Deleted: op.Kind == "delete"}
	blk := n.MustBlock(t.ctx, core.ParseCid(ci.Cid))
	for _, h := range blk.Heads {
		ci.Parents = append(ci.Parents, h.Cid.String())
	}
	rows, err := t.rows(n, qPlain(docID))
	if err != nil {
		t.logf("#%d ordinary query failed: %v", i, err)
		t.r.Note("ordinary-query-error")
		t.aborted = true
		return
	}
	ci.Snap = core.Canon(rows)
	drows, err := t.rows(n, qDel(docID))
	if err != nil || len(drows) != 1 {
		t.logf("#%d ordinary showDeleted query: %d rows, err=%v", i, len(drows), err)
		t.r.Note("ordinary-query-error")
		t.aborted = true
		return
	}
	ci.SnapDel = core.Canon(drows)
	ci.Row = drows[0]
	ci.SubData, _ = n.GQL(t.ctx, qPlain(docID))
	t.commits[ci.Cid] = ci
	t.order = append(t.order, ci.Cid)
	t.r.Count("commits_written", 1)
	if len(ci.Parents) >= 2 {
		t.r.Count("merge_commits_written", 1)
	}
	t.logf("   -> %s parents=%d view=%s", tailCid(ci.Cid), len(ci.Parents), ci.Snap)
	if t.sub != nil && op.Node == 0 {
		if t.p.LazySub {
			t.sub.pending = append(t.sub.pending, ci)
		} else {
			t.expectSub(ci)
		}
	}
}

// expectSub: (iv) the subscription result triggered by this commit equals the ordinary query
// recorded right after it. A delete makes the ordinary query empty; an empty selection is not
// delivered (or delivered as an empty list) and carries no values to compare, so it is skipped.
func (t *ttRun) expectSub(ci *ttCommit) {
	if t.sub.dead || ci.Deleted {
		return
	}
	for {
		var res client.GQLResult
		var open bool
		ok := t.guarded(func() { res, open = <-t.sub.ch })
		if !ok {
			t.sub.dead = true
			what := "a committed change"
			sig := "subscription/no-result-for-committed-change"
			for _, c := range t.order {
				if t.commits[c].Deleted && t.commits[c].OpIdx < ci.OpIdx {
					sig = "hang/subscription-after-delete-commit/time-travel-at-delete-commit"
					what = "a change that follows a delete in the same collection"
				}
			}
			t.violate(sig, fmt.Sprintf("the subscription delivered no result for %s (operation #%d) within %s (the subscription goroutine evaluates each event with a time-travel read at the event's commit)", what, ci.OpIdx, t.watchdog))
			return
		}
		if !open {
			t.sub.dead = true
			t.violate("subscription/closed-early", fmt.Sprintf("the subscription channel was closed before the result of operation #%d arrived", ci.OpIdx))
			return
		}
		data := ttSubData(res)
		if len(res.Errors) > 0 {
			t.r.Count("evaluations", 1)
			t.violate("subscription/error-result", fmt.Sprintf("while waiting for the result of operation #%d the subscription delivered a result that carries an error: %v (data %s)", ci.OpIdx, res.Errors[0], data))
			if t.sub.foreign > 0 {
				// attributed to an earlier write to the other collection; the result of this operation is still to come
				t.sub.foreign--
				continue
			}
			return
		}
		if data == ttEmptySub {
			t.r.Note("subscription-empty-result(skipped)")
			continue
		}
		t.sub.foreign = 0 // results arrive in event order: earlier events have been passed
		t.r.Count("evaluations", 1)
		t.r.Count("subscription_results", 1)
		if t.p.LazySub {
			t.r.Count("subscription_results_evaluated_after_later_commits", 1)
		}
		if data != ci.SubData {
			t.logf("   subscription: %s", data)
			t.violate("subscription/differs-from-post-commit-query", fmt.Sprintf("subscription result for operation #%d differs from the ordinary query recorded right after that commit: got %s want %s", ci.OpIdx, data, ci.SubData))
		}
		return
	}
}

// drainSub: after the history no further non-empty result may be pending (noted, not judged:
// result multiplicity is C20's subject).
func (t *ttRun) drainSub() {
	if t.sub == nil || t.sub.dead {
		return
	}
	for {
		select {
		case res, open := <-t.sub.ch:
			if !open {
				return
			}
			if ttSubData(res) != ttEmptySub {
				t.r.Note("subscription-extra-result")
			}
		default:
			return
		}
	}
}

func (t *ttRun) ancestors(c string) map[string]bool {
	out := map[string]bool{}
	var walk func(c string)
	walk = func(c string) {
		ci := t.commits[c]
		if ci == nil {
			return
		}
		for _, p := range ci.Parents {
			if !out[p] {
				out[p] = true
				walk(p)
			}
		}
	}
	walk(c)
	return out
}

func ttNum(v any) (float64, bool) {
	switch x := v.(type) {
	case nil:
		return 0, false
	case int:
		return float64(x), true
	case int64:
		return float64(x), true
	case float64:
		return x, true
	case json.Number:
		f, _ := x.Float64()
		return f, true
	}
	return 0, false
}

// readAll performs the versioned reads on every node for every commit the node lists.
func (t *ttRun) readAll() {
	mode := "linear"
	if t.p.Nodes > 1 {
		mode = "branching"
	}
	mode += t.modeSuffix
	for ni, n := range t.nodes {
		for d, docID := range t.docIDs {
			rows, err := n.Rows(t.ctx, fmt.Sprintf(`query { commits(docID: "%s", fieldName: "_C") { cid height } }`, docID), "commits")
			if err != nil {
				t.violate("commits-query/error", fmt.Sprintf("n%d: commits(docID, fieldName:_C) failed: %v", ni, err))
				continue
			}
			listed := map[string]bool{}
			for _, row := range rows {
				listed[row["cid"].(string)] = true
			}
			// every commit this node lists must be one the harness wrote (all commits are local writes of some node)
			var todo []string
			for _, c := range t.order {
				if t.commits[c].Doc == d && listed[c] {
					todo = append(todo, c)
				}
			}
			if len(todo) != len(listed) {
				t.r.Note("commits-listed-but-not-written-by-harness")
			}
			heads := n.CompositeHeads(t.ctx, docID)
			// delete commits last: on a tree where the read at a deleting commit hangs, everything else is still judged
			sort.SliceStable(todo, func(a, b int) bool { return !t.commits[todo[a]].Deleted && t.commits[todo[b]].Deleted })
			for _, c := range todo {
				t.readAt(mode, ni, n, docID, t.commits[c], len(heads) == 1 && heads[0] == c)
				if t.readHung {
					return
				}
			}
		}
	}
}

func (t *ttRun) readAt(mode string, ni int, n *core.Node, docID string, ci *ttCommit, singleHead bool) {
	var rows []map[string]any
	var err error
	what := fmt.Sprintf("n%d d%d commit %s (op #%d, %d parents)", ni, ci.Doc, tailCid(ci.Cid), ci.OpIdx, len(ci.Parents))
	anc := t.ancestors(ci.Cid)
	anc[ci.Cid] = true
	overDelete := false
	for a := range anc {
		if t.commits[a] != nil && t.commits[a].Deleted {
			overDelete = true
		}
	}
	if overDelete {
		t.r.Count("delete_commit_reads", 1)
	}
	if !t.guarded(func() { rows, err = t.rows(n, qAt(ci.Cid, docID)) }) {
		t.r.Count("evaluations", 1)
		t.readHung = true
		sig := "hang/time-travel-read"
		if overDelete {
			sig = "hang/time-travel-at-delete-commit"
		}
		t.violate(sig, fmt.Sprintf("%s: the time-travel query did not return within %s", what, t.watchdog))
		return
	}
	t.r.Count("evaluations", 1)
	t.r.Count("versioned_reads", 1)
	if t.modeSuffix != "" {
		t.r.Count("versioned_reads_after_schema_patch", 1)
	}
	if len(ci.Parents) >= 2 {
		t.r.Count("merge_commit_reads", 1)
	}
	if singleHead {
		t.r.Count("single_head_reads", 1)
	}
	for f, v := range ci.W {
		if v == nil && f != "name" {
			t.r.Count("null_write_reads", 1)
			break
		}
	}
	if _, ok := ci.W["nf"]; ok {
		t.r.Count("float_counter_reads", 1)
	}
	if t.hasDel && !overDelete {
		// a commit that precedes (or is concurrent with) a delete, read after the deletion happened
		t.r.Count("reads_of_undeleted_commits_in_delete_histories", 1)
	}
	if err != nil {
		t.violate("versioned/"+mode+"/query-error", fmt.Sprintf("%s: time-travel query failed: %v", what, err))
		return
	}
	got := core.Canon(rows)
	t.logf("read %s -> %s", what, got)
	if ci.Deleted {
		// (i) at the deleting commit: the ordinary query returned nothing right after it
		if got != ci.Snap {
			t.violate("versioned/"+mode+"/at-delete-commit/differs-from-post-commit-query",
				fmt.Sprintf("%s deletes the document; right after it the ordinary query returned %s, the time-travel query at that commit returns %s", what, ci.Snap, got))
			return
		}
		t.readAtShowDeleted(mode, what, n, docID, ci)
		return
	}
	if len(rows) != 1 {
		t.violate("versioned/"+mode+"/document-not-returned", fmt.Sprintf("%s: time-travel query returned %d documents; post-commit view was %s", what, len(rows), ci.Snap))
		return
	}
	row := rows[0]
	// (ii) counters = Σ increments over ancestors(c) ∪ {c}
	for _, f := range ttCounters {
		sum, any := 0.0, false
		for a := range anc {
			if ac := t.commits[a]; ac != nil {
				if inc, ok := ttNum(ac.W[f]); ok {
					sum += inc
					any = true
				}
			}
		}
		g, gok := ttNum(row[f])
		if (any && (!gok || g != sum)) || (!any && gok && g != 0) {
			t.violate("versioned/"+mode+"/counter-not-sum-of-increments",
				fmt.Sprintf("%s: counter %s reads %v, the increments of the commit and its %d ancestors sum to %v (any=%v)", what, f, row[f], len(anc)-1, sum, any))
			return
		}
	}
	// (ii) registers ∈ causally maximal writes
	for _, f := range append([]string{"name"}, ttRegisters...) {
		var writers []*ttCommit
		for a := range anc {
			if ac := t.commits[a]; ac != nil {
				if _, ok := ac.W[f]; ok {
					writers = append(writers, ac)
				}
			}
		}
		g := core.Canon(row[f])
		if len(writers) == 0 {
			if g != "null" {
				t.violate("versioned/"+mode+"/register-not-causally-maximal", fmt.Sprintf("%s: field %s reads %s but no commit up to it writes the field", what, f, g))
				return
			}
			continue
		}
		var allowed []string
		for _, w := range writers {
			sup := false
			for _, w2 := range writers {
				if w2 != w && t.ancestors(w2.Cid)[w.Cid] {
					sup = true
					break
				}
			}
			if !sup {
				allowed = append(allowed, core.Canon(w.Row[f]))
			}
		}
		ok := false
		for _, a := range allowed {
			if a == g {
				ok = true
			}
		}
		if !ok {
			t.violate("versioned/"+mode+"/register-not-causally-maximal", fmt.Sprintf("%s: field %s reads %s, the causally latest writes up to the commit are %v", what, f, g, allowed))
			return
		}
	}
	// (i) equals the ordinary query recorded on the writer right after the commit
	if got != ci.Snap {
		t.violate("versioned/"+mode+"/differs-from-post-commit-query",
			fmt.Sprintf("%s: time-travel query returns %s, the ordinary query right after the commit (on n%d) returned %s", what, got, ci.Writer, ci.Snap))
		return
	}
	// the same read with a filter the state of the commit satisfies / does not satisfy
	if !t.readFiltered(mode, what, n, docID, ci, row, got) {
		return
	}
	// (iii) at the current single head = current state
	if singleHead {
		cur, err := t.rows(n, qPlain(docID))
		if err == nil && core.Canon(cur) != got {
			t.violate("versioned/"+mode+"/single-head-differs-from-current",
				fmt.Sprintf("%s is the only head on n%d: time-travel query returns %s, the current query returns %s", what, ni, got, core.Canon(cur)))
			return
		}
	}
	if t.hasDel {
		t.readAtShowDeleted(mode, what, n, docID, ci)
	}
}

// readFiltered: Col(cid, docID, filter) returns the document iff its state at the commit matches the
// filter. Filters are equalities on s (String) and i (Int), which carry secondary indexes in the
// indexed configuration, taken from the value the unfiltered time-travel read just returned.
func (t *ttRun) readFiltered(mode, what string, n *core.Node, docID string, ci *ttCommit, row map[string]any, unfiltered string) bool {
	idx := "plain-field"
	if t.p.Config == "indexed" {
		idx = "indexed-field"
	}
	for _, f := range []string{"s", "i"} {
		v := row[f]
		if v == nil {
			continue
		}
		lit := core.Canon(v)
		other := `"zz"`
		if f == "i" {
			other = "424242"
		}
		for _, tc := range []struct {
			lit   string
			match bool
		}{{lit, true}, {other, false}} {
			q := fmt.Sprintf(`query { Doc(cid: "%s", docID: "%s", filter: {%s: {_eq: %s}}) { %s } }`, ci.Cid, docID, f, tc.lit, ttFields)
			var rows []map[string]any
			var err error
			if !t.guarded(func() { rows, err = t.rows(n, q) }) {
				t.readHung = true
				t.violate("hang/time-travel-read-with-filter", fmt.Sprintf("%s: the filtered time-travel query did not return within %s", what, t.watchdog))
				return false
			}
			t.r.Count("evaluations", 1)
			t.r.Count("filtered_versioned_reads", 1)
			if idx == "indexed-field" {
				t.r.Count("filtered_versioned_reads_on_indexed_field", 1)
			}
			if err != nil {
				t.violate("versioned/"+mode+"/filter-on-"+idx+"/query-error", fmt.Sprintf("%s: time-travel query with filter {%s:{_eq:%s}} failed: %v", what, f, tc.lit, err))
				return false
			}
			g := core.Canon(rows)
			if tc.match && g != unfiltered {
				t.violate("versioned/"+mode+"/filter-on-"+idx+"/matching-document-not-returned",
					fmt.Sprintf("%s: at the commit %s is %s, but the time-travel query with filter {%s:{_eq:%s}} returns %s (unfiltered: %s)", what, f, lit, f, tc.lit, g, unfiltered))
				return false
			}
			if !tc.match && len(rows) != 0 {
				t.violate("versioned/"+mode+"/filter-on-"+idx+"/non-matching-document-returned",
					fmt.Sprintf("%s: at the commit %s is %s, but the time-travel query with filter {%s:{_eq:%s}} returns %s", what, f, lit, f, tc.lit, g))
				return false
			}
		}
	}
	return true
}

// readAtShowDeleted: the same comparison with showDeleted:true (the view in which a deleted
// document, and its values at the deleting commit, are visible).
func (t *ttRun) readAtShowDeleted(mode, what string, n *core.Node, docID string, ci *ttCommit) {
	var rows []map[string]any
	var err error
	if !t.guarded(func() { rows, err = t.rows(n, qAtDel(ci.Cid, docID)) }) {
		t.readHung = true
		t.violate("hang/time-travel-at-delete-commit", fmt.Sprintf("%s: the time-travel query (showDeleted) did not return within %s", what, t.watchdog))
		return
	}
	t.r.Count("evaluations", 1)
	t.r.Count("versioned_reads_showdeleted", 1)
	if err != nil {
		t.violate("versioned/"+mode+"/showDeleted/query-error", fmt.Sprintf("%s: time-travel query with showDeleted failed: %v", what, err))
		return
	}
	if got := core.Canon(rows); got != ci.SnapDel {
		sig := "versioned/" + mode + "/showDeleted/differs-from-post-commit-query"
		if ci.Deleted {
			sig = "versioned/" + mode + "/at-delete-commit/showDeleted/differs-from-post-commit-query"
		}
		t.violate(sig, fmt.Sprintf("%s: time-travel query with showDeleted returns %s, the ordinary showDeleted query right after the commit returned %s", what, got, ci.SnapDel))
	}
}

// ---------------------------------------------------------------------------------------
// (v) commits of another collection

func qTwin(docID string) string {
	return fmt.Sprintf(`query { Twin(docID: "%s") { %s } }`, docID, ttTwinFields)
}

// twinWrite: a committed write to a document of collection Twin on one node, recorded like a Doc
// commit: its cid, the ordinary Twin query and the ordinary Doc query for that docID right after it.
// The subscription on Doc must not report anything for it (same bookkeeping as "other").
func (t *ttRun) twinWrite(i int, op ttOp) {
	n := t.nodes[op.Node]
	tc := n.Col(t.ctx, "Twin")
	key := fmt.Sprintf("%d/%d", op.Node, op.Doc)
	docID, exists := t.twinIDs[key]
	w := map[string]any{}
	for k, v := range op.W {
		w[k] = v
	}
	var err error
	if !exists {
		w["name"] = "tw" + key
		for k, v := range w {
			if v == nil {
				delete(w, k) // a create with a null field: nothing to write
			}
		}
		b, _ := json.Marshal(w)
		doc, derr := client.NewDocFromJSON(b, tc.Definition())
		core.Must(derr)
		docID = doc.ID().String()
		err = tc.Create(t.ctx, doc)
	} else {
		id, derr := client.NewDocIDFromString(docID)
		core.Must(derr)
		var d *client.Document
		if d, err = tc.Get(t.ctx, id, false); err == nil {
			b, _ := json.Marshal(w)
			core.Must(d.SetWithJSON(b))
			err = tc.Update(t.ctx, d)
		}
	}
	if err != nil {
		t.logf("#%d twin write on n%d: %v", i, op.Node, err)
		t.r.Note("other-collection-write-failed")
		return
	}
	t.twinIDs[key] = docID
	if t.sub != nil && op.Node == 0 {
		if t.p.LazySub {
			t.sub.pending = append(t.sub.pending, nil)
		} else {
			t.sub.foreign++
		}
	}
	heads := n.CompositeHeads(t.ctx, docID)
	if len(heads) != 1 {
		t.r.Note("unexpected-head-set-after-local-write")
		return
	}
	c := &ttTwinCommit{Cid: heads[0], DocID: docID, Node: op.Node, OpIdx: i, W: w, SharedOnly: true}
	for _, prev := range t.twins {
		if prev.DocID == docID && prev.Node == op.Node && !prev.SharedOnly {
			c.SharedOnly = false
		}
	}
	if _, ok := w["z"]; ok {
		c.SharedOnly = false
	}
	rows, err := n.Rows(t.ctx, qTwin(docID), "Twin")
	if err != nil || len(rows) != 1 {
		t.logf("#%d ordinary Twin query: %d rows, err=%v", i, len(rows), err)
		t.r.Note("ordinary-query-error")
		return
	}
	c.Snap = core.Canon(rows)
	drows, err := t.rows(n, qPlain(docID))
	if err != nil {
		t.r.Note("ordinary-query-error")
		return
	}
	c.AsDoc = core.Canon(drows)
	t.twins = append(t.twins, c)
	t.r.Count("writes_to_twin_collection", 1)
	t.logf("#%d write to Twin document %s on n%d %s -> %s; Twin(docID)=%s Doc(docID)=%s", i, key, op.Node, core.Canon(w), tailCid(c.Cid), c.Snap, c.AsDoc)
	t.crossAtTwin(c) // right away (later commits of Doc documents follow) and again after the history
}

// crossRead: one time-travel request that names a commit of a document of ANOTHER collection than the
// one queried. want = what the ordinary query of the queried collection for that document returned
// right after the commit (no document); a request error is accepted as well (the request is
// meaningless); documents are not.
func (t *ttRun) crossRead(n *core.Node, what, q, col, want string) {
	if t.readHung {
		return
	}
	var rows []map[string]any
	var err error
	if !t.guarded(func() { rows, err = n.Rows(t.ctx, q, col) }) {
		t.readHung = true
		t.violate("hang/time-travel-read", fmt.Sprintf("%s: the time-travel query did not return within %s", what, t.watchdog))
		return
	}
	t.r.Count("evaluations", 1)
	t.r.Count("cross_collection_reads", 1)
	if err != nil {
		t.r.Count("cross_collection_reads_rejected", 1)
		t.logf("read %s -> error %v", what, err)
		return
	}
	got := core.Canon(rows)
	t.logf("read %s -> %s", what, got)
	if got != want {
		t.violate("versioned/cross-collection/commit-of-other-collection-read-as-document",
			fmt.Sprintf("%s: the time-travel query returns %s; the ordinary query of that collection for the document right after the commit returned %s (the commit is not a state of any document of the queried collection)", what, got, want))
	}
}

// crossAtTwin: a Twin commit requested through Doc - bare, with the docID of the Twin document,
// with the docID of a Doc document - and, as control, through Twin.
func (t *ttRun) crossAtTwin(c *ttTwinCommit) {
	n := t.nodes[c.Node]
	what := fmt.Sprintf("n%d commit %s of Twin document %s (op #%d, shared fields only: %v)", c.Node, tailCid(c.Cid), c.DocID, c.OpIdx, c.SharedOnly)
	if c.SharedOnly {
		t.r.Count("cross_collection_reads_commit_with_shared_fields_only", 1)
	}
	t.crossRead(n, what+" requested as Doc(cid)", fmt.Sprintf(`query { Doc(cid: "%s") { %s } }`, c.Cid, ttFields), "Doc", c.AsDoc)
	t.crossRead(n, what+" requested as Doc(cid, docID of the Twin document)", qAt(c.Cid, c.DocID), "Doc", c.AsDoc)
	t.r.Count("cross_collection_reads_with_docid", 1)
	if len(t.docIDs) > 0 {
		// the state of a Doc document at a commit that is not one of its commits: nothing
		t.crossRead(n, what+" requested as Doc(cid, docID of a Doc document)", qAt(c.Cid, t.docIDs[0]), "Doc", "[]")
	}
	if t.readHung {
		return
	}
	// control: through its own collection the commit reads as the ordinary query did right after it
	var rows []map[string]any
	var err error
	q := fmt.Sprintf(`query { Twin(cid: "%s", docID: "%s") { %s } }`, c.Cid, c.DocID, ttTwinFields)
	if !t.guarded(func() { rows, err = n.Rows(t.ctx, q, "Twin") }) {
		t.readHung = true
		t.violate("hang/time-travel-read", fmt.Sprintf("%s: the time-travel query through Twin did not return within %s", what, t.watchdog))
		return
	}
	t.r.Count("evaluations", 1)
	t.r.Count("versioned_reads_second_collection", 1)
	if err != nil {
		t.violate("versioned/second-collection/query-error", fmt.Sprintf("%s requested as Twin(cid, docID): %v", what, err))
		return
	}
	if got := core.Canon(rows); got != c.Snap {
		t.violate("versioned/second-collection/differs-from-post-commit-query",
			fmt.Sprintf("%s requested as Twin(cid, docID) returns %s, the ordinary query right after the commit returned %s", what, got, c.Snap))
	}
}

// readCross: after the history, every Twin commit once more, and every Doc commit through Twin on
// every node that lists it (alternating between the bare form and the form with the docID).
func (t *ttRun) readCross() {
	if t.readHung || t.aborted {
		return
	}
	for _, c := range t.twins {
		t.crossAtTwin(c)
	}
	for ni, n := range t.nodes {
		for k, cid := range t.order {
			ci := t.commits[cid]
			if _, _, err := n.GetBlock(t.ctx, core.ParseCid(cid)); err != nil {
				continue // the node never received the commit
			}
			what := fmt.Sprintf("n%d d%d commit %s (op #%d)", ni, ci.Doc, tailCid(cid), ci.OpIdx)
			docID := t.docIDs[ci.Doc]
			if k%2 == 0 {
				t.crossRead(n, what+" requested as Twin(cid)", fmt.Sprintf(`query { Twin(cid: "%s") { %s } }`, cid, ttTwinFields), "Twin", "[]")
			} else {
				t.crossRead(n, what+" requested as Twin(cid, docID)", fmt.Sprintf(`query { Twin(cid: "%s", docID: "%s") { %s } }`, cid, docID, ttTwinFields), "Twin", "[]")
			}
			t.r.Count("cross_collection_reads_doc_commit_through_twin", 1)
		}
	}
}

func init() {
	core.Register(&core.Check{
		ID: "C03", Level: "exploration",
		Rule: "9 anchor histories + generated scripted histories: linear (1 node, 1-3 documents, 2-8 updates each over registers incl. null writes and Int/Float/positive counters, " +
			"GraphQL subscription open), branching (2-3 nodes, concurrent writes, exchange by block-closure copy + VerifMerge, multi-parent commits), each optionally with a delete. " +
			"Every composite commit listed by commits(docID, fieldName:_C) on every node is read with Col(cid,docID), also with matching / non-matching equality filters on s and i (indexed in the indexed configuration), also in the middle of the history. " +
			"In a third of the histories (and two anchors) documents of a second collection Twin, which shares the field names name/s/i/n with Doc, are written in between: every Twin commit is requested through Doc (bare, with the Twin docID, with a Doc docID) and through Twin, every Doc commit through Twin - a commit of another collection is no state of a document of the queried one. " +
			"In the histories with an odd script length every node finally patches Doc to a new active schema version and reads every commit again with the same oracles (mode .../after-schema-patch). " +
			"non-trivial = >=3 commits and a counter field written; distinct by (kind, configuration, per-commit (document, parent count, fields written) sequence).",
		Cases: ttCases,
		Run:   runTimeTravel,
		Floors: []string{"versioned_reads", "counter_history_len_ge4", "branching_histories", "merge_commit_reads", "subscription_results", "subscription_results_evaluated_after_later_commits", "single_head_reads", "null_write_reads", "float_counter_reads", "delete_commit_reads", "mid_history_reads", "filtered_versioned_reads_on_indexed_field", "nontrivial_histories", "branching_histories_with_lazy_subscription",
			"cross_collection_reads", "cross_collection_reads_commit_with_shared_fields_only", "cross_collection_reads_with_docid", "cross_collection_reads_doc_commit_through_twin", "versioned_reads_second_collection", "versioned_reads_after_schema_patch"},
		CaseTimeout: 12 * time.Minute,
		Assumptions: []string{
			"after a local write the writer's merged set for the document is exactly ancestors(c) ∪ {c}, so its ordinary query right after the write is the state of commit c",
			"ancestry is read from the stored blocks; increments and written fields come from the harness's own script keyed by commit cid",
			"delivery = copy of the ancestor+link closure then executeMerge via hook H1",
			"empty subscription results carry no values and are skipped (their multiplicity is C20's subject)",
			"a time-travel request that names a commit of a document of another collection may answer with no document or with a request error; the expected answer is the ordinary query of the queried collection for that docID recorded right after the commit (empty)",
		},
	})
}
