package checks

// Root-cause recognisers of the C07 twin: every difference between the indexed and the
// index-free database is reduced to a signature built from observable attributes of the query,
// the index set and the differing rows. Each recogniser describes ONE defect of the tree (see
// known-findings.txt); whatever no recogniser claims keeps a generic signature and is a violation.

import (
	"encoding/json"
	"fmt"
	"sort"
	"strings"

	"github.com/sourcenetwork/defradb/verifharness/qgen"
)

func parseRows(l []string) []map[string]any {
	out := make([]map[string]any, len(l))
	for i, s := range l {
		_ = json.Unmarshal([]byte(s), &out[i])
	}
	return out
}

// liveIndexFields: store name -> true for every field of a live index of A; arr lists the
// array-kind fields among them.
func (t *twin) liveIndexFields() (idx map[string]bool, arr []string) {
	idx = map[string]bool{}
	for _, s := range t.liveSpecs() {
		for _, f := range s.Fields {
			fd := qgen.FieldByName(f.Name)
			if !idx[fd.StoreName()] && fd.Kind.IsArray() {
				arr = append(arr, fd.StoreName())
			}
			idx[fd.StoreName()] = true
		}
	}
	sort.Strings(arr)
	return
}

func isNullOrEmptyList(v any) bool {
	if v == nil {
		return true
	}
	l, ok := v.([]any)
	return ok && len(l) == 0
}

func distinctElems(v any) int {
	l, ok := v.([]any)
	if !ok {
		return 0
	}
	set := map[string]bool{}
	for _, e := range l {
		set[canonScalar(e)] = true
	}
	return len(set)
}

func hasRepeat(v any) bool {
	l, ok := v.([]any)
	if !ok {
		return false
	}
	set := map[string]bool{}
	for _, e := range l {
		k := canonScalar(e)
		if set[k] {
			return true
		}
		set[k] = true
	}
	return false
}

// jsonAt returns the value of a JSON document at a property path (ok=false if not reachable).
func jsonAt(v any, path []string) (any, bool) {
	for _, p := range path {
		m, ok := v.(map[string]any)
		if !ok {
			return nil, false
		}
		v, ok = m[p]
		if !ok {
			return nil, false
		}
	}
	return v, true
}

func jsonLeaves(v any) int {
	switch x := v.(type) {
	case map[string]any:
		n := 0
		for _, e := range x {
			n += jsonLeaves(e)
		}
		return n
	case []any:
		return len(x)
	case nil:
		return 0
	}
	return 1
}

// entriesOf estimates how many index entries a document has for a multi-entry field.
func entriesOf(field string, v any) int {
	if qgen.FieldByName(field).Kind == qgen.KJSON {
		return jsonLeaves(v)
	}
	return distinctElems(v)
}

// multiEntryFields lists the array / JSON fields of live indexes; composite tells whether such a
// field stands in an index together with other fields.
func (t *twin) multiEntryFields() []string {
	set := map[string]bool{}
	for _, s := range t.liveSpecs() {
		for _, f := range s.Fields {
			fd := qgen.FieldByName(f.Name)
			if fd.Kind.IsArray() || fd.Kind == qgen.KJSON {
				set[fd.StoreName()] = true
			}
		}
	}
	var out []string
	for k := range set {
		out = append(out, k)
	}
	sort.Strings(out)
	return out
}

func (t *twin) uniqueFirstFields() map[string]bool {
	out := map[string]bool{}
	for _, s := range t.liveSpecs() {
		if s.Unique {
			out[qgen.FieldByName(s.Fields[0].Name).StoreName()] = true
		}
	}
	return out
}

func listHasNull(v any) bool {
	l, ok := v.([]any)
	if !ok {
		return false
	}
	for _, e := range l {
		if e == nil {
			return true
		}
	}
	return false
}

// nullSatisfies: a null value satisfies the leaf condition on the scan path.
func nullSatisfies(l *qgen.Filter) bool {
	switch l.Cmp {
	case "_eq":
		return l.Val == nil
	case "_ne":
		return l.Val != nil
	case "_in":
		return listHasNull(l.Val)
	case "_nin":
		return !listHasNull(l.Val)
	case "_nlike", "_nilike":
		return true
	}
	return false
}

func isJSONLeaf(l *qgen.Filter) bool { return qgen.FieldByName(l.Field).Kind == qgen.KJSON && !l.Rel }

// classifyMissing names the defect behind rows that only the index-free database returns.
// shapeOnly: the rows are not documents of U (query through the relation): only the shape of the
// filter is looked at.
func (t *twin) classifyMissing(f *qgen.Filter, missing []map[string]any, shapeOnly ...bool) string {
	idx, arr := t.liveIndexFields()
	var leaves []qgen.LeafCtx
	if f != nil {
		leaves = f.Leaves()
	}
	allMissing := func(pred func(r map[string]any) bool) bool {
		if len(shapeOnly) > 0 && shapeOnly[0] {
			return true
		}
		for _, r := range missing {
			if !pred(r) {
				return false
			}
		}
		return true
	}
	// an array field of an index that is null or empty yields no index entry at all: the document
	// is invisible to every query that the planner serves from that index
	if len(shapeOnly) > 0 && shapeOnly[0] {
		// through the relation: the rows are G documents; the same defect shows when the filter
		// touches a field of an index that also holds an array field
		for _, sp := range t.liveSpecs() {
			hasArr, touched := false, false
			for _, f := range sp.Fields {
				fd := qgen.FieldByName(f.Name)
				hasArr = hasArr || fd.Kind.IsArray()
				for _, l := range leaves {
					touched = touched || l.Leaf.Field == fd.StoreName()
				}
			}
			// (the join from G fetches the members through an index on the relation id)
			if hasArr && (touched || sp.Has("g")) {
				return "index/array-field-null-or-empty/document-has-no-index-entry"
			}
		}
		arr = nil
		for _, l := range leaves {
			lf := l.Leaf
			if idx[lf.Field] && isJSONLeaf(lf) && len(lf.Path) > 0 && nullSatisfies(lf) {
				return "index/json-path-absent-in-document/scan-reads-null-index-has-no-entry"
			}
		}
	}
	for _, a := range arr {
		if allMissing(func(r map[string]any) bool { return isNullOrEmptyList(r[a]) }) {
			return "index/array-field-null-or-empty/document-has-no-index-entry"
		}
	}
	// two passes: the JSON rules are tried on every leaf before the rules of the string / unique
	// _in defects (which have been repaired: a residual difference must not be pinned on them just
	// because their leaf comes first in the filter)
	for pass := 0; pass < 2; pass++ {
		for _, l := range leaves {
			lf := l.Leaf
			if !idx[lf.Field] || l.Negated() {
				continue
			}
			if (pass == 0) != isJSONLeaf(lf) {
				continue
			}
			switch {
			// JSON index: a condition on the root value (no path) is encoded as a plain scalar, never as JSON
			case isJSONLeaf(lf) && len(lf.Path) == 0 && lf.ArrOp == "":
				return "index/json-root-value-condition/rows-missing-or-error"
			// JSON index: an empty array under the path has no entry; _all matches it vacuously on a scan
			case isJSONLeaf(lf) && lf.ArrOp == "_all" && allMissing(func(r map[string]any) bool {
				v, ok := jsonAt(r["j"], lf.Path)
				return ok && isNullOrEmptyList(v)
			}):
				return "index/json-empty-array/_all-match-missing"
			// JSON index: a document without the filtered path has no entry for it, the scan path reads
			// the absent path as null (matches _eq null, _ne x, _nin, ...)
			case isJSONLeaf(lf) && len(lf.Path) > 0 && !(len(shapeOnly) > 0 && shapeOnly[0]) && allMissing(func(r map[string]any) bool {
				_, ok := jsonAt(r["j"], lf.Path)
				return !ok
			}):
				return "index/json-path-absent-in-document/scan-reads-null-index-has-no-entry"
			// _nlike / _nilike: the rows whose value is null are lost
			case (lf.Cmp == "_nlike" || lf.Cmp == "_nilike") && lf.ArrOp == "" && !l.EffOr && !isJSONLeaf(lf) && !t.orOverIndexed(f) && allMissing(func(r map[string]any) bool { return r[lf.Field] == nil }):
				return "index/_nlike-on-indexed-string/null-row-missing"
			case (lf.Cmp == "_nlike" || lf.Cmp == "_nilike") && lf.ArrOp == "" && !l.EffOr && isJSONLeaf(lf) && allMissing(func(r map[string]any) bool {
				v, _ := jsonAt(r["j"], lf.Path)
				return v == nil
			}):
				return "index/_nlike-on-indexed-json-string/null-row-missing"
			// unique index: _in with a null in the list looks the null up as a full key; null entries
			// carry the docID in the key and are never found
			case lf.Cmp == "_in" && !l.EffOr && !t.orOverIndexed(f) && t.uniqueFirstFields()[lf.Field] && listHasNull(lf.Val) && allMissing(func(r map[string]any) bool { return r[lf.Field] == nil }):
				return "index/unique/_in-containing-null/null-rows-missing"
			}
		}
	}
	// an indexed field constrained inside an _or: only one disjunct is fetched
	if t.orOverIndexed(f) {
		return "index/_or-over-indexed-field/rows-missing"
	}
	return ""
}

// orOverIndexed: some leaf on an indexed field stands (after pushing negations down) inside a
// disjunction.
func (t *twin) orOverIndexed(f *qgen.Filter) bool {
	if f == nil {
		return false
	}
	idx, _ := t.liveIndexFields()
	for _, l := range f.Leaves() {
		if idx[l.Leaf.Field] && l.EffOr {
			return true
		}
	}
	return false
}

// classifyExtra names the defect behind rows that the indexed database returns in excess.
func (t *twin) classifyExtra(f *qgen.Filter, extra []map[string]any, rowsB []qgen.Row) string {
	idx, _ := t.liveIndexFields()
	inB := map[string]bool{}
	for _, r := range rowsB {
		inB[fmt.Sprint(r["_docID"])] = true
	}
	for _, r := range extra {
		if !inB[fmt.Sprint(r["_docID"])] {
			return "" // a document the index-free side does not return at all
		}
	}
	var leaves []qgen.LeafCtx
	if f != nil {
		leaves = f.Leaves()
	}
	// _in with a repeated value fetches the same entries once per occurrence
	for _, l := range leaves {
		if l.Leaf.Cmp == "_in" && idx[l.Leaf.Field] && hasRepeat(l.Leaf.Val) && !l.Negated() {
			return "index/_in-with-repeated-value/duplicate-rows"
		}
	}
	// an index over an array / JSON field holds one entry per element / leaf; unless the filter has
	// a condition on that very field nothing de-duplicates them
	for _, a := range t.multiEntryFields() {
		all := true
		for _, r := range extra {
			if entriesOf(a, r[a]) < 2 {
				all = false
			}
		}
		if all {
			return "index/multi-entry-field-in-index/document-returned-once-per-entry"
		}
	}
	return ""
}

// reportRowDiff classifies a difference of the result multisets (onlyA: rows returned in excess
// by the indexed database, onlyB: rows only the index-free database returns).
func (t *twin) reportRowDiff(q *qgen.Query, req string, onlyA, onlyB []string, rowsA, rowsB []qgen.Row) {
	det := t.detail(map[string]any{"query": req, "only_indexed": clipList(onlyA, 12), "only_index_free": clipList(onlyB, 12), "filter_shape": q.Filter.Skeleton()})
	msg := fmt.Sprintf("indexed database returns %d rows, index-free twin %d: %s", len(rowsA), len(rowsB), req)
	suffix := strings.Join(t.indexedLeafOps(q), "+")
	if q.ShowDeleted {
		suffix += "/showDeleted"
	}
	if q.FromG {
		suffix += "/through-relation"
	}
	// a difference that the recognisers of the known defects do not explain is looked at again without
	// the documents that were updated through a partial document object: those are explained by that
	// update (unless a recogniser explains them on their own)
	split := func(rows []map[string]any) (partial, rest []map[string]any) {
		for _, r := range rows {
			if t.partial[fmt.Sprint(r["_docID"])] && !q.FromG {
				partial = append(partial, r)
			} else {
				rest = append(rest, r)
			}
		}
		return
	}
	if q.FromG && len(t.partial) > 0 {
		// a request on G through the relation: the differing rows are G documents; when the recognisers
		// explain nothing and a member of such a G document was updated through a partial document object,
		// that update explains the difference
		gids := map[string]bool{}
		for _, r := range append(parseRows(onlyA), parseRows(onlyB)...) {
			gids[fmt.Sprint(r["_docID"])] = true
		}
		member := false
		for _, r := range t.liveRows(t.B) {
			member = member || t.partial[fmt.Sprint(r["_docID"])] && gids[fmt.Sprint(r["g_id"])]
		}
		if member && (len(onlyB) == 0 || t.classifyMissing(q.Filter, parseRows(onlyB), true) == "") && (len(onlyA) == 0 || t.classifyExtra(q.Filter, parseRows(onlyA), rowsB) == "") {
			t.r.Violate(sigPartialUpdate, "a member document updated through an object that carried only the patched fields (client.NewDocWithID + Set) is no longer found through the index of a field the object did not carry: "+msg, det)
			t.stop = true
			return
		}
	}
	partialMsg := "a document updated through an object that carried only the patched fields (client.NewDocWithID + Set) is no longer found through the index of a field the object did not carry: " + msg
	if len(onlyB) > 0 {
		sig := t.classifyMissing(q.Filter, parseRows(onlyB), q.FromG)
		if pr, rest := split(parseRows(onlyB)); sig == "" && len(pr) > 0 {
			if t.classifyMissing(q.Filter, pr, q.FromG) == "" {
				t.r.Violate(sigPartialUpdate, partialMsg, det)
				t.stop = true
			}
			if len(rest) > 0 {
				sig = t.classifyMissing(q.Filter, rest, q.FromG)
			}
			if len(rest) == 0 || sig != "" && t.stop {
				if sig != "" {
					t.r.Violate(sig, msg, det)
				}
				return
			}
		}
		if sig == "" {
			sig = "rows/missing-on-indexed-side/" + suffix
		}
		t.r.Violate(sig, msg, det)
	}
	if len(onlyA) > 0 {
		sig := t.classifyExtra(q.Filter, parseRows(onlyA), rowsB)
		if pr, rest := split(parseRows(onlyA)); sig == "" && len(pr) > 0 {
			if t.classifyExtra(q.Filter, pr, rowsB) == "" {
				t.r.Violate(sigPartialUpdate, partialMsg, det)
				t.stop = true
			}
			if len(rest) > 0 {
				sig = t.classifyExtra(q.Filter, rest, rowsB)
			}
			if len(rest) == 0 || sig != "" && t.stop {
				if sig != "" {
					t.r.Violate(sig, msg, det)
				}
				return
			}
		}
		if sig == "" {
			sig = "rows/extra-on-indexed-side/" + suffix
		}
		t.r.Violate(sig, msg, det)
	}
}

func firstLineOf(s string) string {
	if i := strings.IndexByte(s, '\n'); i >= 0 {
		return s[:i]
	}
	return s
}

// panicFrame extracts the first defradb frame of a recovered panic text.
func panicFrame(text string) string {
	for _, l := range strings.Split(text, "\n") {
		l = strings.TrimSpace(l)
		if strings.HasPrefix(l, "github.com/sourcenetwork/defradb/") && !strings.Contains(l, "verifharness") {
			if i := strings.LastIndex(l, "("); i > 0 {
				l = l[:i]
			}
			return strings.TrimPrefix(l, "github.com/sourcenetwork/defradb/")
		}
	}
	return "unknown-frame"
}

// reportQueryError classifies a query that fails (or panics) on one side only, or differently.
func (t *twin) reportQueryError(q *qgen.Query, req, errA, errB string) {
	idx, _ := t.liveIndexFields()
	var leaves []qgen.LeafCtx
	if q.Filter != nil {
		leaves = q.Filter.Leaves()
	}
	det := t.detail(map[string]any{"query": req, "indexed": errA, "index_free": errB})
	msg := fmt.Sprintf("query fails differently: %s: indexed=%q index-free=%q", req, firstLineOf(errA), firstLineOf(errB))
	if strings.HasPrefix(errA, "panic:") && strings.HasPrefix(errB, "panic:") && firstLineOf(errA) == firstLineOf(errB) {
		// the request panics on both databases alike: no difference between the twins (the panic
		// itself is the business of the no-panic clause of C08); counted and kept as a sample
		t.r.Note("queries_panicking_on_both_sides_alike")
		t.r.Count("queries_panicking_on_both", 1)
		t.r.Sample(map[string]any{"request_panics_on_both_databases": req, "panic": firstLineOf(errA), "frame": panicFrame(errA)})
		return
	}
	if pe := errA + errB; q.FromG && strings.Contains(pe, "panic:") && strings.Contains(pe, "PropertyAndOperator") {
		for _, l := range leaves {
			if isJSONLeaf(l.Leaf) {
				// the evaluation of a JSON filter through the relation panics in the document filter (not in
				// index code). Whether a request reaches that evaluation depends on the order in which the
				// conditions of one filter object are evaluated (map iteration) and on the documents fetched,
				// so one database may panic while the other answers.
				t.r.Violate("panic/scan-path/json-filter-through-relation", "request panics on one database only: "+req+": "+firstLineOf(errA)+firstLineOf(errB), det)
				return
			}
		}
	}
	jsonIdx := false
	for _, l := range leaves {
		if isJSONLeaf(l.Leaf) && idx["j"] {
			jsonIdx = true
		}
	}
	if strings.HasPrefix(errA, "panic:") && q.FromG && jsonIdx {
		t.r.Violate("panic/json-index/filter-on-json-through-relation", "request panics on the indexed database: "+req+": "+firstLineOf(errA), det)
		return
	}
	if strings.HasPrefix(errA, "panic:") {
		if strings.Contains(errA, "Unclosed iterator") {
			for _, l := range leaves {
				if l.Leaf.Cmp == "_in" && idx[l.Leaf.Field] {
					t.r.Violate("panic/_in-on-indexed-field/unclosed-iterator-when-iteration-stops-early", "request panics on the indexed database: "+req+": "+firstLineOf(errA), det)
					return
				}
			}
		}
		t.r.Violate("panic/query-on-indexed-side/"+panicFrame(errA), "request panics on the indexed database: "+req+": "+firstLineOf(errA), det)
		return
	}
	if strings.HasPrefix(errB, "panic:") {
		t.r.Violate("panic/query-on-index-free-side/"+panicFrame(errB), "request panics on the index-free database: "+req+": "+firstLineOf(errB), det)
		return
	}
	// a JSON path filter that meets a document whose JSON value is not an object fails the whole
	// request on the scan path; which documents are visited depends on the index
	jsonPath := false
	for _, l := range leaves {
		if qgen.FieldByName(l.Leaf.Field).Kind == qgen.KJSON && len(l.Leaf.Path) > 0 {
			jsonPath = true
		}
	}
	nf := "field or alias not found"
	if jsonPath && (errA == "" || strings.Contains(errA, nf)) && (errB == "" || strings.Contains(errB, nf)) {
		t.r.Violate("query/json-path-filter-meets-non-object-json/error-depends-on-documents-visited", msg, det)
		return
	}
	if errB == "" && strings.Contains(errA, "unexpected type value") {
		for _, l := range leaves {
			if isJSONLeaf(l.Leaf) && idx["j"] && len(l.Leaf.Path) == 0 && l.Leaf.ArrOp == "" {
				t.r.Violate("index/json-root-value-condition/rows-missing-or-error", msg, det)
				return
			}
		}
	}
	if errB == "" && strings.Contains(errA, "unexpected type value") {
		// a Blob field inside a composite index: the entry decodes to a string, the condition holds bytes
		for _, sp := range t.liveSpecs() {
			if len(sp.Fields) < 2 {
				continue
			}
			for _, l := range leaves {
				if qgen.FieldByName(l.Leaf.Field).Kind == qgen.KBlob && sp.Has(l.Leaf.Field) {
					t.r.Violate("index/blob-field-in-composite-index/matcher-type-error", msg, det)
					return
				}
			}
		}
	}
	if errA != "" && errB != "" {
		// both sides refuse the request, with different words: no result on either side
		t.r.Note("queries_failing_on_both_with_different_text")
		return
	}
	side, e := "indexed", errA
	if errA == "" {
		side, e = "index-free", errB
	}
	t.r.Violate("query/error-only-on-"+side+"-side/"+errClassTwin(fmt.Errorf("%s", e)), msg, det)
}
