package checks

// C13, multi-step construction routes.
//
// The doc/... cases of c13_identifiers.go build every document in one go; the docID a
// *client.Document object carries is then by construction the docID of its content. Here the
// object is put together in several steps, so that the id it CARRIES when it reaches
// collection.Create / CreateMany / Save is not (or not necessarily) the id of its final content:
//
//   two-step-map-set            NewDocFromMap(part of the fields), then Set of the remaining fields
//   two-step-json-setwithjson   NewDocFromJSON(part), then SetWithJSON(rest)
//   empty-then-set              NewDocFromMap({}), then Set of every field
//   full-then-change            NewDocFromMap(content that differs in one field), then Set of that field
//   doc-with-foreign-id         NewDocWithID(docID of OTHER content) + Set of every field
//   doc-with-random-id          NewDocWithID(random id) + Set of every field
//   map-with-docid-key          NewDocFromMap({_docID: docID of other content, ...all fields})
//   regenerated-after-set       two-step-map-set followed by doc.GenerateAndSetDocID()
//   control-same-content        full document, then Set of one field to the value it already has /
//                               Set(null field, nil): the carried id stays the content id
//
// Oracle (agreement only): whatever the route, the create is either rejected, or the document is
// stored under exactly the docID that the same final content gets when built in one go and created
// on an independent node (`ref` node), doc.ID() after the create is that id, col.Get / GetAllDocIDs
// agree with the query; the docID of other content stays free for that content (creating it in one
// go afterwards succeeds) and at the end every row of every route node equals the row with the same
// _docID on the reference node.

import (
	"context"
	"encoding/json"
	"fmt"
	"math/rand/v2"
	"sort"
	"strings"

	"github.com/sourcenetwork/defradb/client"
	"github.com/sourcenetwork/defradb/verifharness/core"
)

type c13RtParams struct {
	Anchor string `json:"anchor,omitempty"` // all-kinds | two-fields | nulls
	Docs   int    `json:"docs"`
}

var c13RtRoutes = []string{
	"two-step-map-set", "two-step-json-setwithjson", "empty-then-set", "full-then-change",
	"doc-with-foreign-id", "doc-with-random-id", "map-with-docid-key", "regenerated-after-set", "control-same-content",
}

var c13RtSubmits = []string{"create", "createmany", "save"}

func c13RtCounter(route string) string { return "route_" + strings.ReplaceAll(route, "-", "_") }

// c13RtFloors: counters that must be hit (a route counts only when it was non-trivial, i.e. the
// object reached the collection carrying an id that is not the id of its content; the two last
// routes count when the carried id IS the content id after a multi-step construction).
func c13RtFloors() []string {
	var fl []string
	for _, rt := range c13RtRoutes {
		fl = append(fl, c13RtCounter(rt))
	}
	return append(fl, "route_submit_create", "route_submit_createmany", "route_submit_save", "multi_step_accepted",
		"multi_step_outcomes_checked", "multi_step_foreign_id_victim_created", "multi_step_rows_compared_with_reference_node")
}

func c13RouteCases(seed uint64, n int) []core.Case {
	cs := []core.Case{
		core.MkCase("route/anchor-two-fields", 21, c13RtParams{Anchor: "two-fields", Docs: 3}),
		core.MkCase("route/anchor-all-kinds", 22, c13RtParams{Anchor: "all-kinds", Docs: 3}),
		core.MkCase("route/anchor-nulls", 23, c13RtParams{Anchor: "nulls", Docs: 4}),
	}
	rng := rand.New(rand.NewPCG(seed, 1315))
	for i := 0; i < n; i++ {
		cs = append(cs, core.MkCase("route/generated", rng.Uint64(), c13RtParams{Docs: 3}))
	}
	return cs
}

func c13RandStyle(rng *rand.Rand) c13Style {
	return c13Style{
		Ints:        []string{"int", "int64", "number", "float"}[rng.IntN(4)],
		Floats:      []string{"float64", "number", "int"}[rng.IntN(3)],
		Times:       rng.IntN(2) == 0,
		TypedSlices: rng.IntN(2) == 0,
		ExplicitNil: rng.IntN(2) == 0,
		RelObjKey:   rng.IntN(2) == 0,
		Shuffle:     rng.IntN(2) == 0,
		AltSpelling: rng.IntN(2) == 0,
	}
}

func c13SubDoc(d c13Doc, fs []c13Field) c13Doc {
	out := c13Doc{}
	for _, f := range fs {
		if v, ok := d[f.Name]; ok && v != nil {
			out[f.Name] = v
		}
	}
	return out
}

// c13SetFields applies doc.Set for the given fields (nil for a null field when withNulls).
func c13SetFields(doc *client.Document, fs []c13Field, d c13Doc, st c13Style, withNulls bool, steps *[]string) error {
	for _, f := range fs {
		key := f.Name
		if f.Kind == c13Rel && !st.RelObjKey {
			key += "_id"
		}
		v := d[f.Name]
		if v == nil {
			if !withNulls {
				continue
			}
			*steps = append(*steps, fmt.Sprintf("Set(%s, nil)", key))
			if err := doc.Set(key, nil); err != nil {
				return err
			}
			continue
		}
		gv := c13GoValue(f.Kind, v, st)
		*steps = append(*steps, fmt.Sprintf("Set(%s, %T %v)", key, gv, c13Abbrev(fmt.Sprint(gv))))
		if err := doc.Set(key, gv); err != nil {
			return err
		}
	}
	return nil
}

func c13Abbrev(s string) string {
	if len(s) > 60 {
		return s[:60] + "…"
	}
	return s
}

func c13RandomDocID(rng *rand.Rand) client.DocID {
	s := fmt.Sprintf("bae-%08x-%04x-5%03x-8%03x-%012x", rng.Uint32(), rng.Uint32()&0xffff, rng.Uint32()&0xfff, rng.Uint32()&0xfff, rng.Uint64()&0xffffffffffff)
	id, err := client.NewDocIDFromString(s)
	core.Must(err)
	return id
}

type c13Built struct {
	doc   *client.Document
	steps []string
}

// c13BuildRoute puts the object for final content d together along the given route. foreign is
// the docID of other content (victim).
func c13BuildRoute(route string, def client.CollectionDefinition, fields []c13Field, d c13Doc, foreign client.DocID, refs []string, rng *rand.Rand) (b c13Built, err error) {
	defer func() {
		if p := recover(); p != nil {
			err = fmt.Errorf("panic while building: %v", p)
		}
	}()
	var nonNull, nulls []c13Field
	for _, f := range fields {
		if d[f.Name] != nil {
			nonNull = append(nonNull, f)
		} else {
			nulls = append(nulls, f)
		}
	}
	rng.Shuffle(len(nonNull), func(i, j int) { nonNull[i], nonNull[j] = nonNull[j], nonNull[i] })
	// first / rest: rest holds at least one non-null field when there is one
	cut := 0
	if len(nonNull) > 1 {
		cut = 1 + rng.IntN(len(nonNull)-1)
	}
	first, rest := append([]c13Field(nil), nonNull[:cut]...), append([]c13Field(nil), nonNull[cut:]...)
	for _, f := range nulls {
		if rng.IntN(2) == 0 {
			first = append(first, f)
		} else {
			rest = append(rest, f)
		}
	}
	st1, st2 := c13RandStyle(rng), c13RandStyle(rng)
	step := func(format string, a ...any) { b.steps = append(b.steps, fmt.Sprintf(format, a...)) }
	twoStepMap := func() error {
		m := c13GoMap(first, c13SubDoc(d, first), st1)
		step("NewDocFromMap(%s)", c13Abbrev(fmt.Sprint(m)))
		b.doc, err = client.NewDocFromMap(m, def)
		if err != nil {
			return err
		}
		return c13SetFields(b.doc, rest, d, st2, true, &b.steps)
	}
	switch route {
	case "two-step-map-set":
		err = twoStepMap()
	case "regenerated-after-set":
		if err = twoStepMap(); err == nil {
			step("GenerateAndSetDocID()")
			err = b.doc.GenerateAndSetDocID()
		}
	case "two-step-json-setwithjson":
		t1 := c13ObjectText(first, d, st1, rng, false)
		step("NewDocFromJSON(%s)", c13Abbrev(t1))
		b.doc, err = client.NewDocFromJSON([]byte(t1), def)
		if err != nil {
			return b, err
		}
		t2 := c13ObjectText(rest, d, st2, rng, false)
		step("SetWithJSON(%s)", c13Abbrev(t2))
		err = b.doc.SetWithJSON([]byte(t2))
	case "empty-then-set":
		step("NewDocFromMap({})")
		b.doc, err = client.NewDocFromMap(map[string]any{}, def)
		if err != nil {
			return b, err
		}
		err = c13SetFields(b.doc, fields, d, st2, st2.ExplicitNil, &b.steps)
	case "full-then-change":
		// content that differs from d in one field
		f := fields[rng.IntN(len(fields))]
		if len(nonNull) > 0 && rng.IntN(4) != 0 {
			f = nonNull[0]
		}
		other := c13Doc{}
		for k, v := range d {
			other[k] = v
		}
		other[f.Name] = nil
		for try := 0; try < 10; try++ {
			v := c13GenValue(rng, f.Kind, refs)
			if core.Canon(v) != core.Canon(d[f.Name]) {
				other[f.Name] = v
				break
			}
		}
		if d[f.Name] != nil && rng.IntN(3) == 0 {
			other[f.Name] = nil // the field is absent at first and set afterwards
		}
		m := c13GoMap(fields, other, st1)
		step("NewDocFromMap(%s)", c13Abbrev(fmt.Sprint(m)))
		b.doc, err = client.NewDocFromMap(m, def)
		if err != nil {
			return b, err
		}
		err = c13SetFields(b.doc, []c13Field{f}, d, st2, true, &b.steps)
	case "doc-with-foreign-id", "doc-with-random-id":
		id := foreign
		if route == "doc-with-random-id" {
			id = c13RandomDocID(rng)
		}
		step("NewDocWithID(%s)", id)
		b.doc, err = client.NewDocWithID(id, def)
		if err != nil {
			return b, err
		}
		err = c13SetFields(b.doc, fields, d, st2, st2.ExplicitNil, &b.steps)
	case "map-with-docid-key":
		m := c13GoMap(fields, d, st1)
		m["_docID"] = foreign.String()
		step("NewDocFromMap(%s)", c13Abbrev(fmt.Sprint(m)))
		b.doc, err = client.NewDocFromMap(m, def)
	case "control-same-content":
		m := c13GoMap(nonNull, c13SubDoc(d, nonNull), st1)
		step("NewDocFromMap(%s)", c13Abbrev(fmt.Sprint(m)))
		b.doc, err = client.NewDocFromMap(m, def)
		if err != nil {
			return b, err
		}
		var again []c13Field
		if len(nonNull) > 0 {
			again = append(again, nonNull[0])
		}
		err = c13SetFields(b.doc, append(again, nulls...), d, st2, true, &b.steps)
	default:
		panic("route " + route)
	}
	return b, err
}

type c13RtNode struct {
	n   *core.Node
	col client.Collection
}

func c13RtIDs(ctx context.Context, n *core.Node) map[string]bool { return c13StoredIDs(ctx, n) }

func c13IDList(m map[string]bool) []string {
	var out []string
	for k := range m {
		out = append(out, k)
	}
	sort.Strings(out)
	return out
}

func c13RunRoute(ctx context.Context, c core.Case, r *core.Rec) {
	var p c13RtParams
	c.P(&p)
	rng := c.Rng()
	var fields []c13Field
	switch p.Anchor {
	case "two-fields":
		fields = []c13Field{{Name: "name", Kind: c13String}, {Name: "points", Kind: c13Int}}
	case "all-kinds", "nulls":
		fields = c13AllFields()
	default:
		fields = c13GenFields(rng)
	}
	sdl := c13SDL("D", fields, "")
	newNode := func() c13RtNode {
		n := lightNode(ctx, false)
		_, err := n.DB.AddSchema(ctx, sdl)
		core.Must(err)
		return c13RtNode{n: n, col: n.Col(ctx, "D")}
	}
	ref := newNode()
	defer ref.n.Close()
	def := ref.col.Definition()
	var refs []string
	for _, nm := range []string{"x", "y"} {
		rd, err := client.NewDocFromMap(map[string]any{"n": nm}, ref.n.Col(ctx, "R").Definition())
		core.Must(err)
		refs = append(refs, rd.ID().String())
	}

	// final contents d_i and victims x_i (other content whose docID is attached to d_i), all distinct;
	// every one of them is created in one go on the reference node
	type content struct {
		d   c13Doc
		id  string
		did client.DocID
	}
	seen := map[string]bool{}
	gen := func(i int, victim bool) (content, bool) {
		for try := 0; try < 20; try++ {
			d := c13Doc{}
			for _, f := range fields {
				switch {
				case p.Anchor == "nulls" && rng.IntN(2) == 0:
				case p.Anchor == "" && rng.IntN(4) == 0:
				default:
					d[f.Name] = c13GenValue(rng, f.Kind, refs)
				}
			}
			if p.Anchor == "two-fields" && !victim {
				d = c13Doc{"name": []string{"John", "Fred", "Ann", "Zoë"}[i%4], "points": int64(12 + i)}
			}
			doc, err := client.NewDocFromMap(c13GoMap(fields, d, c13RefStyle), def)
			if err != nil {
				r.Note("route_content_rejected_by_reference_constructor")
				continue
			}
			if seen[doc.ID().String()] {
				continue
			}
			if err := ref.col.Create(ctx, doc); err != nil {
				r.Note("route_content_rejected_by_reference_create")
				continue
			}
			seen[doc.ID().String()] = true
			return content{d: d, id: doc.ID().String(), did: doc.ID()}, true
		}
		return content{}, false
	}
	var docs, victims []content
	for i := 0; i < p.Docs; i++ {
		d, ok1 := gen(i, false)
		if !ok1 {
			break
		}
		docs = append(docs, d)
	}
	// one victim per (document, route)
	for i := 0; i < len(docs)*len(c13RtRoutes); i++ {
		x, ok := gen(i, true)
		if !ok {
			break
		}
		victims = append(victims, x)
	}
	if len(victims) < len(docs)*len(c13RtRoutes) || len(docs) == 0 {
		r.Note("route_case_without_enough_distinct_contents")
		return
	}
	// rows of the reference node: the one-go id and content of everything
	var sel []string
	for _, f := range fields {
		if f.Kind == c13Rel {
			sel = append(sel, f.Name+"_id")
		} else {
			sel = append(sel, f.Name)
		}
	}
	rowsReq := "query { D { _docID " + strings.Join(sel, " ") + " } }"
	rowsOf := func(n *core.Node) map[string]string {
		rows, err := n.Rows(ctx, rowsReq, "D")
		core.Must(err)
		out := map[string]string{}
		for _, row := range rows {
			for _, f := range fields {
				// a counter given an explicit null at creation reads 0, an omitted one reads null: a
				// matter of values, not of identifiers (both get the same docID)
				if f.Kind == c13Counter && row[f.Name] == nil {
					row[f.Name] = json.Number("0")
				}
			}
			out[row["_docID"].(string)] = core.Canon(row)
		}
		return out
	}
	refRows := rowsOf(ref.n)
	for _, ct := range append(append([]content(nil), docs...), victims...) {
		if _, ok := refRows[ct.id]; !ok {
			r.Violate("docid/route-dependent/create/one-go-document-not-stored-under-its-id",
				"a document built in one go with NewDocFromMap and created is not listed under doc.ID() by a query",
				map[string]any{"sdl": sdl, "id": ct.id, "stored": c13IDList(c13RtIDs(ctx, ref.n))})
			return
		}
	}
	textOf := func(d c13Doc) string { return c13ObjectText(fields, d, c13Style{ExplicitNil: true}, rng, false) }

	for ri, route := range c13RtRoutes {
		node := newNode()
		if node.col.SchemaRoot() != ref.col.SchemaRoot() {
			r.Violate("schema-ids/nodes-disagree/single-type", "the same SDL added to two fresh nodes produced different schema roots",
				map[string]any{"sdl": sdl, "roots": []string{ref.col.SchemaRoot(), node.col.SchemaRoot()}})
			node.n.Close()
			return
		}
		var log []string
		for di, ct := range docs {
			submit := c13RtSubmits[(di+ri)%len(c13RtSubmits)]
			victim := victims[di*len(c13RtRoutes)+ri]
			b, err := c13BuildRoute(route, node.col.Definition(), fields, ct.d, victim.did, refs, rng)
			if err != nil || b.doc == nil {
				r.Note("route_build_error/" + route)
				log = append(log, fmt.Sprintf("doc %d: build failed: %v", di, err))
				continue
			}
			carried := b.doc.ID().String()
			nontrivial := carried != ct.id
			usesVictim := route == "doc-with-foreign-id" || route == "map-with-docid-key"
			before := c13RtIDs(ctx, node.n)
			// submission
			companion := ""
			var serr error
			switch submit {
			case "create":
				serr = node.col.Create(ctx, b.doc)
			case "save":
				serr = node.col.Save(ctx, b.doc)
			case "createmany":
				batch := []*client.Document{b.doc}
				if !usesVictim {
					// the victim content, built in one go, travels in the same batch
					xd, err := client.NewDocFromMap(c13GoMap(fields, victim.d, c13RefStyle), node.col.Definition())
					core.Must(err)
					companion = victim.id
					if rng.IntN(2) == 0 {
						batch = []*client.Document{xd, b.doc}
					} else {
						batch = append(batch, xd)
					}
				}
				serr = node.col.CreateMany(ctx, batch)
			}
			after := c13RtIDs(ctx, node.n)
			fresh := map[string]bool{}
			for id := range after {
				if !before[id] {
					fresh[id] = true
				}
			}
			outcome := "accepted"
			if serr != nil {
				outcome = "rejected"
			}
			entry := fmt.Sprintf("doc %d %s: %s; carried id %s; %s -> %s", di, textOf(ct.d), strings.Join(b.steps, "; "), carried, submit, outcome)
			if serr != nil {
				entry += ": " + serr.Error()
			}
			entry += fmt.Sprintf("; new stored ids %v; doc.ID() afterwards %s", c13IDList(fresh), b.doc.ID())
			log = append(log, entry)
			detail := func() map[string]any {
				return map[string]any{"sdl": sdl, "route": route, "submit": submit, "final_content": textOf(ct.d), "steps": b.steps,
					"id_of_final_content_built_in_one_go": ct.id, "id_carried_by_object": carried, "doc_id_after_submit": b.doc.ID().String(),
					"new_stored_ids": c13IDList(fresh), "companion_in_batch": companion, "other_content": textOf(victim.d), "id_of_other_content": victim.id,
					"submit_error": fmt.Sprint(serr), "log_of_this_node": log}
			}
			r.Count("evaluations", 1)
			r.Count("multi_step_outcomes_checked", 1)
			r.Count("route_submit_"+submit, 1)
			if nontrivial != (route == "regenerated-after-set" || route == "control-same-content") {
				// the route did what it is meant to do (carried id differs from the content id, or - for
				// the two last routes - equals it although the object was built in several steps)
				r.Count(c13RtCounter(route), 1)
				r.Nontrivial("route|" + route + "|" + submit + "|" + outcome)
			}
			sig := route // the submitting call (create / createmany / save) is in the detail: one defect of a route = one signature
			stored := map[string]bool{}
			for id := range fresh {
				if id != companion {
					stored[id] = true
				}
			}
			if serr != nil {
				r.Count("multi_step_rejected", 1)
				if strings.Contains(serr.Error(), "document verification failed") {
					r.Count("multi_step_rejected_doc_verification", 1)
				}
				for id := range fresh {
					if id == ct.id || id == companion {
						r.Note("route_rejected_submit_left_document") // atomicity (C05), not an identifier matter
						continue
					}
					r.Violate("docid/route-dependent/"+sig+"/rejected-but-stored-under-other-id",
						fmt.Sprintf("%s of a document built along route %s returned an error but a document is now stored under %s, which is not the id (%s) of the content", submit, route, id, ct.id), detail())
				}
			} else {
				r.Count("multi_step_accepted", 1)
				if !nontrivial {
					r.Count("multi_step_accepted_carried_id_was_content_id", 1)
				}
				if companion != "" && !fresh[companion] {
					r.Note("route_companion_of_batch_not_stored")
				}
				if len(stored) != 1 || !stored[ct.id] {
					what := "stored-under-other-id"
					switch {
					case len(stored) == 0:
						what = "accepted-but-no-new-document"
					case stored[carried] && carried != ct.id:
						what = "stored-under-id-carried-by-object"
					case stored[ct.id]:
						what = "stored-more-than-once"
					}
					r.Violate("docid/route-dependent/"+sig+"/"+what,
						fmt.Sprintf("%s accepted a document built along route %s; its final content gets docID %s when built in one go (and on the reference node), but the new stored ids are %v (the object carried %s)",
							submit, route, ct.id, c13IDList(stored), carried), detail())
				} else {
					// doc.ID() after a successful create is the stored id; read-backs agree
					if got := b.doc.ID().String(); got != ct.id {
						r.Violate("docid/object-id-after-create-differs-from-stored-id/"+sig,
							fmt.Sprintf("after a successful %s doc.ID() is %s but the document is stored under %s", submit, got, ct.id), detail())
					}
					if _, err := node.col.Get(ctx, ct.did, false); err != nil {
						r.Violate("docid/readback/get-by-content-id-fails/"+sig,
							fmt.Sprintf("collection.Get(%s) fails after the document was created and is listed by a query: %v", ct.id, err), detail())
					}
				}
			}
			// GetAllDocIDs lists what the query lists
			if ch, err := node.col.GetAllDocIDs(ctx); err == nil {
				listed := map[string]bool{}
				for res := range ch {
					if res.Err == nil {
						listed[res.ID.String()] = true
					}
				}
				if core.Canon(c13IDList(listed)) != core.Canon(c13IDList(after)) {
					r.Violate("docid/readback/get-all-docids-differs-from-query/"+sig,
						fmt.Sprintf("GetAllDocIDs lists %v but the query D{_docID} lists %v", c13IDList(listed), c13IDList(after)), detail())
				}
			}
			// the docID of the other content must still be free for that content
			if usesVictim {
				xd, err := client.NewDocFromMap(c13GoMap(fields, victim.d, c13RefStyle), node.col.Definition())
				core.Must(err)
				verr := node.col.Create(ctx, xd)
				now := c13RtIDs(ctx, node.n)
				log = append(log, fmt.Sprintf("other content %s built in one go (id %s): create -> %v", textOf(victim.d), victim.id, verr))
				r.Count("evaluations", 1)
				switch {
				case verr != nil:
					r.Violate("docid/id-of-other-content-occupied/"+sig+"/one-go-create-of-that-content-rejected",
						fmt.Sprintf("content X (id %s) cannot be created after a document with different content was submitted carrying X's id: %v", victim.id, verr), detail())
				case !now[victim.id]:
					r.Violate("docid/route-dependent/create/one-go-document-not-stored-under-its-id",
						"a document built in one go and created is not listed under doc.ID() by a query", detail())
				default:
					r.Count("multi_step_foreign_id_victim_created", 1)
				}
			}
		}
		// every row of this node equals the row with the same _docID on the reference node
		for id, row := range rowsOf(node.n) {
			r.Count("multi_step_rows_compared_with_reference_node", 1)
			want, ok := refRows[id]
			switch {
			case !ok:
				r.Violate("docid/stored-under-id-of-no-content-created-in-one-go/"+route,
					fmt.Sprintf("node that built its documents along route %s stores a document under %s; no content of this case gets that id when built in one go", route, id),
					map[string]any{"sdl": sdl, "row": row, "log_of_this_node": log})
			case want != row:
				r.Violate("docid/id-of-other-content-occupied/"+route+"/content-differs-from-reference-node",
					fmt.Sprintf("the document stored under %s differs between the node that used route %s and the reference node that created every content in one go", id, route),
					map[string]any{"sdl": sdl, "row_on_route_node": row, "row_on_reference_node": want, "log_of_this_node": log})
			}
		}
		if ri == 0 {
			r.Sample(map[string]any{"kind": c.Kind, "sdl": sdl, "route": route, "log": log})
		}
		node.n.Close()
	}
}
