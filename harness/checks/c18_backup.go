package checks

// C18 — export followed by import reproduces the data.
//
// One case = one generated database: schema (2-3 collections, a random subset of all scalar /
// array kinds, relation topologies 1-N, 1-1, one-sided, self reference), documents with
// edge-case values, relations set at creation or by a later update (so that ids change), then
//   export (pretty|compact, all collections|subset) -> parse file (json.Number) -> old->new map
//   import into a fresh node with the same schema   -> compare GraphQL dumps kind by kind and
//                                                      relations through the map
//   re-export of the target                         -> equivalent to file 1 modulo _docID := _docIDNew
//   atomicity: file with a schema-violating document at every position i, and imports on a
//   fault-injecting store (fault at sampled storage operation k) must leave /db/data, /db/heads
//   and /db/blocks of the target untouched.

import (
	"bytes"
	"context"
	"encoding/json"
	"fmt"
	"math"
	"math/big"
	"math/rand/v2"
	"os"
	"path/filepath"
	"sort"
	"strconv"
	"strings"
	"time"

	"github.com/sourcenetwork/defradb/client"
	coreblock "github.com/sourcenetwork/defradb/internal/core/block"
	"github.com/sourcenetwork/defradb/verifharness/core"
)

// ---------------------------------------------------------------------------------------
// model

type c18Rel struct {
	Col    string `json:"col"`    // collection holding the foreign key
	Name   string `json:"name"`   // field name (foreign key is Name_id)
	Target string `json:"target"` // target collection
	Topo   string `json:"topo"`   // one_many | one_one | one_sided | self | self_many
	Back   string `json:"back,omitempty"`
}

type c18Schema struct {
	Cols   []string              `json:"cols"`
	Fields map[string][]c13Field `json:"fields"`
	Rels   []c18Rel              `json:"rels"`
}

func (s *c18Schema) sdl() string {
	var sb strings.Builder
	for _, col := range s.Cols {
		fmt.Fprintf(&sb, "type %s {\n", col)
		for _, f := range s.Fields[col] {
			sb.WriteString("  " + f.sdl() + "\n")
		}
		for k, rl := range s.Rels {
			tag := fmt.Sprintf(`@relation(name: "r%d")`, k)
			if rl.Col == col {
				switch rl.Topo {
				case "one_one":
					fmt.Fprintf(&sb, "  %s: %s @primary %s\n", rl.Name, rl.Target, tag)
				default:
					fmt.Fprintf(&sb, "  %s: %s %s\n", rl.Name, rl.Target, tag)
				}
			}
			if rl.Target == col && rl.Back != "" {
				switch rl.Topo {
				case "one_one":
					fmt.Fprintf(&sb, "  %s: %s %s\n", rl.Back, rl.Col, tag)
				case "one_many", "self_many":
					fmt.Fprintf(&sb, "  %s: [%s] %s\n", rl.Back, rl.Col, tag)
				}
			}
		}
		sb.WriteString("}\n")
	}
	return sb.String()
}

func (s *c18Schema) relsOf(col string) []c18Rel {
	var out []c18Rel
	for _, rl := range s.Rels {
		if rl.Col == col {
			out = append(out, rl)
		}
	}
	return out
}

type c18Doc struct {
	Col   string         `json:"col"`
	Vals  c13Doc         `json:"vals"`
	FK    map[string]int `json:"fk,omitempty"`    // relation name -> index of the target document (set at creation when the target exists, else by update)
	Upd   c13Doc         `json:"upd,omitempty"`   // scalar update applied after creation (changes the id the document gets on import)
	Del   bool           `json:"del,omitempty"`   // deleted before the export (must not re-appear)
	ID    string         `json:"id,omitempty"`    // filled at run time
	Class []string       `json:"class,omitempty"` // value classes present
}

type c18DB struct {
	Schema c18Schema `json:"schema"`
	Docs   []c18Doc  `json:"docs"`
}

type c18Params struct {
	Anchor  string   `json:"anchor,omitempty"`
	Delete  bool     `json:"delete,omitempty"` // one unreferenced document is deleted before the export
	Pretty  bool     `json:"pretty"`
	Subset  []string `json:"subset,omitempty"`
	FaultKs int      `json:"fault_ks"`
}

// value pools (edge-value mode)
var c18Strings = []string{"", "a", "héllo ✓ ünï", "q\" b\\ nl\n tab\t cr\r /", "😀 emoji 𝄞", strings.Repeat("long·", 1200), "<&>  ", "\u0001ctl\u001f", "null", "123", "{\"k\":1}"}
var c18Ints = []int64{0, 1, -1, 42, 1 << 31, -(1 << 31) - 1, 1 << 53, 1<<53 + 1, -(1 << 53) - 1, math.MaxInt64, math.MinInt64, math.MaxInt64 - 1, 999999999999999999}
var c18Floats = []float64{0, 1.5, -2.5, 0.1, 1e308, math.MaxFloat64, 5e-324, 2.2250738585072014e-308, math.Copysign(0, -1), 3, 1e21, 9223372036854775808, 123456.789, -1e-7, 1.0 / 3}
var c18Times = []string{"2020-01-02T03:04:05Z", "2020-01-02T03:04:05.123456789Z", "0001-01-01T00:00:00Z", "1999-12-31T23:59:59.5+02:00", "9999-12-31T23:59:59.999999999Z", "1969-07-20T20:17:40.000000001-05:00"}
var c18Blobs = []string{"", "00ff", "deadbeef", strings.Repeat("0123456789abcdef", 64)}

func c18DeepJSON(depth int) any {
	var v any = map[string]any{"leaf": []any{1.0, "x", nil, true}}
	for i := 0; i < depth; i++ {
		if i%2 == 0 {
			v = []any{v, float64(i)}
		} else {
			v = map[string]any{fmt.Sprintf("k%d", i): v, "é ü": "ß"}
		}
	}
	return v
}

func c18GenScalar(rng *rand.Rand, k c13Kind) (any, string) {
	switch k {
	case c13String:
		i := rng.IntN(len(c18Strings))
		cls := ""
		switch {
		case len(c18Strings[i]) > 1000:
			cls = "string_long"
		case i >= 2 && i <= 7:
			cls = "string_unicode_or_escape"
		}
		return c18Strings[i], cls
	case c13Int:
		v := c18Ints[rng.IntN(len(c18Ints))]
		cls := ""
		if v > 1<<53 || v < -(1<<53) {
			cls = "int_beyond_2p53"
		}
		if v == math.MaxInt64 || v == math.MinInt64 {
			cls = "int_beyond_2p53,int_extreme"
		}
		return v, cls
	case c13Float:
		v := c18Floats[rng.IntN(len(c18Floats))]
		cls := ""
		switch {
		case v == 0 && math.Signbit(v):
			cls = "float_negative_zero"
		case v != 0 && math.Abs(v) < 2.3e-308:
			cls = "float_subnormal_or_min"
		case math.Abs(v) >= 1e308:
			cls = "float_huge"
		case v == math.Trunc(v) && v != 0:
			cls = "float_integral"
		}
		return v, cls
	case c13Float32:
		return c13Floats32[rng.IntN(len(c13Floats32))], ""
	case c13Bool:
		return rng.IntN(2) == 0, ""
	case c13DateTime:
		v := c18Times[rng.IntN(len(c18Times))]
		cls := "datetime"
		if strings.Contains(v, ".") {
			cls = "datetime,datetime_subsecond"
		}
		return v, cls
	case c13Blob:
		return c18Blobs[rng.IntN(len(c18Blobs))], "blob"
	case c13JSON:
		switch rng.IntN(6) {
		case 0:
			return c18DeepJSON(8 + rng.IntN(20)), "json,json_deep"
		case 1:
			return map[string]any{"big": 1e300, "neg": -0.5, "arr": []any{}, "obj": map[string]any{}, "nul": nil, "k \"q\"": "v"}, "json"
		case 2:
			return "just a string", "json,json_scalar"
		case 3:
			return 12.5, "json,json_scalar"
		}
		var v any
		core.Must(json.Unmarshal([]byte(c13JSONs[rng.IntN(len(c13JSONs))]), &v))
		return v, "json"
	}
	panic("kind " + string(k))
}

func c18GenValue(rng *rand.Rand, k c13Kind) (any, string) {
	if ek, nillable, isArr := k.elem(); isArr {
		n := rng.IntN(4)
		arr := make([]any, n)
		cls := []string{"array"}
		if n == 0 {
			cls = append(cls, "array_empty")
		}
		for i := range arr {
			if nillable && rng.IntN(4) == 0 {
				arr[i] = nil
				cls = append(cls, "array_null_element")
			} else {
				v, c := c18GenScalar(rng, ek)
				arr[i] = v
				if c != "" {
					cls = append(cls, c)
				}
			}
		}
		return arr, strings.Join(cls, ",")
	}
	return c18GenScalar(rng, k)
}

var c18ScalarKinds = []c13Kind{c13String, c13Int, c13Float, c13Float32, c13Bool, c13DateTime, c13Blob, c13JSON,
	c13IntArr, c13IntArrNN, c13StrArr, c13StrArrNN, c13FltArr, c13FltArrNN, c13BoolArr, c13BoolArNN}

func c18GenSchema(rng *rand.Rand, all bool) c18Schema {
	s := c18Schema{Cols: []string{"A", "B"}, Fields: map[string][]c13Field{}}
	if all || rng.IntN(2) == 0 {
		s.Cols = append(s.Cols, "C")
	}
	for ci, col := range s.Cols {
		for i, k := range c18ScalarKinds {
			p := 2 // of 5
			if ci == 0 {
				p = 3
			}
			if all && ci == 0 || rng.IntN(5) < p {
				s.Fields[col] = append(s.Fields[col], c13Field{Name: fmt.Sprintf("%s%d", strings.ToLower(col), i), Kind: k})
			}
		}
		// every collection has a distinguishing string and an int
		s.Fields[col] = append(s.Fields[col], c13Field{Name: "name", Kind: c13String}, c13Field{Name: "num", Kind: c13Int})
		// fields with a schema default: a document may leave them out (the default applies), set them,
		// or set them to null explicitly (null is then the stored value and must survive the round trip)
		if all || rng.IntN(2) == 0 {
			s.Fields[col] = append(s.Fields[col], c13Field{Name: "dint", Kind: c13Int, Default: "int: 7"}, c13Field{Name: "dstr", Kind: c13String, Default: `string: "dv"`})
		}
	}
	cand := []c18Rel{
		{Col: "B", Name: "owner", Target: "A", Topo: "one_many", Back: "items"},
		{Col: "A", Name: "partner", Target: "B", Topo: "one_one", Back: "partnerOf"},
		{Col: "A", Name: "mentor", Target: "A", Topo: "self"},
		{Col: "B", Name: "parent", Target: "B", Topo: "self_many", Back: "children"},
	}
	if len(s.Cols) == 3 {
		cand = append(cand, c18Rel{Col: "C", Name: "ref", Target: "A", Topo: "one_sided"}, c18Rel{Col: "C", Name: "about", Target: "B", Topo: "one_many", Back: "notes"})
	}
	for _, rl := range cand {
		if all || rng.IntN(3) != 0 {
			s.Rels = append(s.Rels, rl)
		}
	}
	if len(s.Rels) == 0 {
		s.Rels = append(s.Rels, cand[0])
	}
	return s
}

func c18GenDB(rng *rand.Rand, all bool, withDelete bool) c18DB {
	db := c18DB{Schema: c18GenSchema(rng, all)}
	s := &db.Schema
	n := 5 + rng.IntN(10)
	if all {
		n = 16
	}
	usedOneOne := map[string]bool{}
	for i := 0; i < n; i++ {
		col := s.Cols[rng.IntN(len(s.Cols))]
		if i < len(s.Cols) {
			col = s.Cols[i]
		}
		d := c18Doc{Col: col, Vals: c13Doc{}, FK: map[string]int{}}
		cls := map[string]bool{}
		addCls := func(c string) {
			for _, x := range strings.Split(c, ",") {
				if x != "" {
					cls[x] = true
				}
			}
		}
		for _, f := range s.Fields[col] {
			switch {
			case f.Name == "name":
				d.Vals["name"] = fmt.Sprintf("%s#%d", col, i)
			case f.Default != "":
				switch rng.IntN(3) {
				case 0: // left out: the default applies
					cls["default-left-out"] = true
				case 1:
					d.Vals[f.Name] = nil
					cls["default-explicit-null"] = true
				default:
					v, c := c18GenValue(rng, f.Kind)
					d.Vals[f.Name] = v
					addCls(c)
				}
			case rng.IntN(4) == 0:
				cls["null"] = true
			default:
				v, c := c18GenValue(rng, f.Kind)
				d.Vals[f.Name] = v
				addCls(c)
			}
		}
		db.Docs = append(db.Docs, d)
		db.Docs[i].Class = c18Keys(cls)
	}
	// relations: any document of the target collection (earlier, later or the document itself)
	for i := range db.Docs {
		d := &db.Docs[i]
		for _, rl := range s.relsOf(d.Col) {
			if rng.IntN(4) == 0 {
				continue
			}
			var cands []int
			for j := range db.Docs {
				if db.Docs[j].Col == rl.Target {
					cands = append(cands, j)
				}
			}
			if len(cands) == 0 {
				continue
			}
			j := cands[rng.IntN(len(cands))]
			if (rl.Topo == "self" || rl.Topo == "self_many") && rng.IntN(5) == 0 {
				j = i // a document that references itself
			}
			if rl.Topo == "one_one" {
				key := fmt.Sprintf("%s/%d", rl.Name, j)
				if usedOneOne[key] {
					continue
				}
				usedOneOne[key] = true
			}
			d.FK[rl.Name] = j
		}
	}
	// later updates of scalars (the id a document gets on import then differs from its current id)
	for i := range db.Docs {
		d := &db.Docs[i]
		if rng.IntN(3) == 0 {
			d.Upd = c13Doc{"num": int64(1000 + i)}
			for _, f := range s.Fields[d.Col] {
				if f.Name != "name" && f.Name != "num" && rng.IntN(4) == 0 {
					v, _ := c18GenValue(rng, f.Kind)
					d.Upd[f.Name] = v
				}
			}
		}
	}
	// delete one unreferenced document
	if withDelete {
		referenced := map[int]bool{}
		for _, d := range db.Docs {
			for _, j := range d.FK {
				referenced[j] = true
			}
		}
		for i := len(db.Docs) - 1; i >= 0; i-- {
			if !referenced[i] {
				db.Docs[i].Del = true
				break
			}
		}
	}
	return db
}

func c18Keys(m map[string]bool) []string {
	var ks []string
	for k := range m {
		ks = append(ks, k)
	}
	sort.Strings(ks)
	return ks
}

// ---------------------------------------------------------------------------------------
// building the source database

var c18GoStyle = c13Style{Ints: "int64", Floats: "float64"}

func c18Build(ctx context.Context, n *core.Node, db *c18DB) error {
	s := &db.Schema
	for i := range db.Docs {
		d := &db.Docs[i]
		col := n.Col(ctx, d.Col)
		m := c13GoMap(s.Fields[d.Col], d.Vals, c18GoStyle)
		for rel, j := range d.FK {
			if j < i {
				m[rel+"_id"] = db.Docs[j].ID
			}
		}
		for _, f := range s.Fields[d.Col] {
			if v, ok := d.Vals[f.Name]; ok && v == nil && f.Default != "" {
				m[f.Name] = nil // explicit null on a field that has a default
			}
		}
		doc, err := client.NewDocFromMap(m, col.Definition())
		if err != nil {
			return fmt.Errorf("doc %d: %w", i, err)
		}
		if err := col.Create(ctx, doc); err != nil {
			return fmt.Errorf("create doc %d: %w", i, err)
		}
		d.ID = doc.ID().String()
	}
	for i := range db.Docs {
		d := &db.Docs[i]
		late := map[string]any{}
		for rel, j := range d.FK {
			if j >= i {
				late[rel+"_id"] = db.Docs[j].ID
			}
		}
		for k, v := range d.Upd {
			for _, f := range s.Fields[d.Col] {
				if f.Name == k {
					late[k] = c13GoValue(f.Kind, v, c18GoStyle)
					d.Vals[k] = v
				}
			}
		}
		if len(late) == 0 {
			continue
		}
		col := n.Col(ctx, d.Col)
		id, err := client.NewDocIDFromString(d.ID)
		if err != nil {
			return err
		}
		doc, err := col.Get(ctx, id, false)
		if err != nil {
			return fmt.Errorf("get doc %d: %w", i, err)
		}
		ks := make([]string, 0, len(late))
		for k := range late {
			ks = append(ks, k)
		}
		sort.Strings(ks)
		for _, k := range ks {
			if err := doc.Set(k, late[k]); err != nil {
				return fmt.Errorf("set %s on doc %d: %w", k, i, err)
			}
		}
		if err := col.Update(ctx, doc); err != nil {
			return fmt.Errorf("update doc %d: %w", i, err)
		}
	}
	for i := range db.Docs {
		d := &db.Docs[i]
		if d.Del {
			id, _ := client.NewDocIDFromString(d.ID)
			if _, err := n.Col(ctx, d.Col).Delete(ctx, id); err != nil {
				return fmt.Errorf("delete doc %d: %w", i, err)
			}
		}
	}
	return nil
}

// c18Dump: collection -> _docID -> row, through GraphQL (numbers as json.Number).
func c18Dump(ctx context.Context, n *core.Node, s *c18Schema) (map[string]map[string]map[string]any, error) {
	out := map[string]map[string]map[string]any{}
	for _, col := range s.Cols {
		sel := []string{"_docID"}
		for _, f := range s.Fields[col] {
			sel = append(sel, f.Name)
		}
		for _, rl := range s.Rels {
			if rl.Col == col {
				sel = append(sel, rl.Name+"_id", rl.Name+" { _docID }")
			}
			if rl.Target == col && rl.Back != "" {
				sel = append(sel, rl.Back+" { _docID }")
			}
		}
		rows, err := n.Rows(ctx, fmt.Sprintf("query { %s { %s } }", col, strings.Join(sel, " ")), col)
		if err != nil {
			return nil, fmt.Errorf("dump %s: %w", col, err)
		}
		out[col] = map[string]map[string]any{}
		for _, r := range rows {
			out[col][r["_docID"].(string)] = r
		}
	}
	return out, nil
}

// ---------------------------------------------------------------------------------------
// comparison kind by kind

func c18NumEqual(a, b json.Number, integer bool) bool {
	if integer {
		x, ok1 := new(big.Int).SetString(a.String(), 10)
		y, ok2 := new(big.Int).SetString(b.String(), 10)
		if ok1 && ok2 {
			return x.Cmp(y) == 0
		}
	}
	x, err1 := strconv.ParseFloat(a.String(), 64)
	y, err2 := strconv.ParseFloat(b.String(), 64)
	if err1 != nil || err2 != nil {
		return a.String() == b.String()
	}
	if integer {
		return false // at least one side is not spelled as an integer: for Int fields that is a difference
	}
	return math.Float64bits(x) == math.Float64bits(y)
}

func c18JSONEqual(a, b any) bool {
	switch x := a.(type) {
	case nil:
		return b == nil
	case json.Number:
		y, ok := b.(json.Number)
		return ok && c18NumEqual(x, y, false)
	case string:
		y, ok := b.(string)
		return ok && x == y
	case bool:
		y, ok := b.(bool)
		return ok && x == y
	case []any:
		y, ok := b.([]any)
		if !ok || len(x) != len(y) {
			return false
		}
		for i := range x {
			if !c18JSONEqual(x[i], y[i]) {
				return false
			}
		}
		return true
	case map[string]any:
		y, ok := b.(map[string]any)
		if !ok || len(x) != len(y) {
			return false
		}
		for k, v := range x {
			w, ok := y[k]
			if !ok || !c18JSONEqual(v, w) {
				return false
			}
		}
		return true
	}
	return false
}

func c18ValueEqual(k c13Kind, a, b any) bool {
	if a == nil || b == nil {
		return a == nil && b == nil
	}
	if ek, _, isArr := k.elem(); isArr {
		x, ok1 := a.([]any)
		y, ok2 := b.([]any)
		if !ok1 || !ok2 || len(x) != len(y) {
			return false
		}
		for i := range x {
			if !c18ValueEqual(ek, x[i], y[i]) {
				return false
			}
		}
		return true
	}
	switch k {
	case c13Int:
		x, ok1 := a.(json.Number)
		y, ok2 := b.(json.Number)
		return ok1 && ok2 && c18NumEqual(x, y, true)
	case c13Float, c13Float32:
		x, ok1 := a.(json.Number)
		y, ok2 := b.(json.Number)
		return ok1 && ok2 && c18NumEqual(x, y, false)
	case c13DateTime:
		x, ok1 := a.(string)
		y, ok2 := b.(string)
		if !ok1 || !ok2 {
			return false
		}
		tx, err1 := time.Parse(time.RFC3339Nano, x)
		ty, err2 := time.Parse(time.RFC3339Nano, y)
		if err1 != nil || err2 != nil {
			return x == y
		}
		return tx.Equal(ty) && tx.Nanosecond() == ty.Nanosecond()
	case c13JSON:
		return c18JSONEqual(a, b)
	}
	return a == b // String, Blob (hex text), Boolean
}

// ---------------------------------------------------------------------------------------
// export file

type c18File map[string][]map[string]any

func c18ReadFile(path string) (c18File, []string, error) {
	b, err := os.ReadFile(path)
	if err != nil {
		return nil, nil, err
	}
	dec := json.NewDecoder(bytes.NewReader(b))
	dec.UseNumber()
	// keep the order of the collections as written
	var order []string
	f := c18File{}
	t, err := dec.Token()
	if err != nil || t != json.Delim('{') {
		return nil, nil, fmt.Errorf("export file does not start with an object: %v %v", t, err)
	}
	for dec.More() {
		t, err := dec.Token()
		if err != nil {
			return nil, nil, err
		}
		name, _ := t.(string)
		var docs []map[string]any
		if err := dec.Decode(&docs); err != nil {
			return nil, nil, fmt.Errorf("collection %s: %w", name, err)
		}
		f[name] = docs
		order = append(order, name)
	}
	if _, err := dec.Token(); err != nil {
		return nil, nil, err
	}
	if dec.More() {
		return nil, nil, fmt.Errorf("trailing data in export file")
	}
	return f, order, nil
}

func c18WriteFile(path string, f c18File, order []string) {
	var sb bytes.Buffer
	sb.WriteString("{")
	for i, name := range order {
		if i > 0 {
			sb.WriteString(",")
		}
		kb, _ := json.Marshal(name)
		sb.Write(kb)
		sb.WriteString(":")
		b, err := json.Marshal(f[name])
		core.Must(err)
		sb.Write(b)
	}
	sb.WriteString("}")
	core.Must(os.WriteFile(path, sb.Bytes(), 0o644))
}

func c18Scan(ctx context.Context, n *core.Node) map[string]string {
	out := map[string]string{}
	for _, p := range []string{"/db/data", "/db/heads", "/db/blocks"} {
		for k, v := range n.RawScan(ctx, p) {
			out[k] = v
		}
	}
	return out
}

func c18SameScan(a, b map[string]string) (bool, string) {
	for k, v := range a {
		w, ok := b[k]
		if !ok {
			return false, "missing key " + c18KeyClass(k)
		}
		if v != w {
			return false, "changed value under " + c18KeyClass(k)
		}
	}
	for k := range b {
		if _, ok := a[k]; !ok {
			return false, "additional key " + c18KeyClass(k)
		}
	}
	return true, ""
}

// c18ScanDiff lists the differing keys (for witnesses); blocks are decoded.
func c18ScanDiff(a, b map[string]string) map[string][]string {
	out := map[string][]string{}
	show := func(k, v string) string {
		if strings.HasPrefix(k, "/db/blocks/") {
			if blk, err := coreblock.GetFromBytes([]byte(v)); err == nil {
				var heads []string
				for _, h := range blk.Heads {
					heads = append(heads, h.String())
				}
				return fmt.Sprintf("%s doc=%s field=%q priority=%d heads=%v links=%d", k, blk.Delta.GetDocID(), blk.Delta.GetFieldName(), blk.Delta.GetPriority(), heads, len(blk.Links))
			}
		}
		return k
	}
	for k, v := range a {
		if w, ok := b[k]; !ok {
			out["missing"] = append(out["missing"], show(k, v))
		} else if v != w {
			out["changed"] = append(out["changed"], k)
		}
	}
	for k, v := range b {
		if _, ok := a[k]; !ok {
			out["additional"] = append(out["additional"], show(k, v))
		}
	}
	for _, l := range out {
		sort.Strings(l)
	}
	return out
}

func c18KeyClass(k string) string {
	for _, p := range []string{"/db/data", "/db/heads", "/db/blocks"} {
		if strings.HasPrefix(k, p) {
			return p
		}
	}
	return "other"
}

// ---------------------------------------------------------------------------------------
// the case

func c18Cases(seed uint64, tier string) []core.Case {
	ks := tierN(tier, 6, 20)
	cs := []core.Case{
		core.MkCase("roundtrip/anchor-all-kinds-all-topologies/compact", 21, c18Params{Anchor: "all", Pretty: false, FaultKs: ks}),
		core.MkCase("roundtrip/anchor-all-kinds-all-topologies/pretty", 22, c18Params{Anchor: "all", Pretty: true, FaultKs: ks}),
		core.MkCase("roundtrip/anchor-subset-A", 23, c18Params{Anchor: "all", Pretty: false, Subset: []string{"A"}, FaultKs: ks}),
		core.MkCase("roundtrip/anchor-extremes", 24, c18Params{Anchor: "extremes", Pretty: true, FaultKs: ks}),
		core.MkCase("roundtrip/anchor-extremes-with-deleted-document", 25, c18Params{Anchor: "extremes", Delete: true, FaultKs: ks}),
		core.MkCase("roundtrip/anchor-chain-of-references", 26, c18Params{Anchor: "chain", FaultKs: 2}),
		core.MkCase("roundtrip/anchor-cycle-of-references", 27, c18Params{Anchor: "cycle", FaultKs: 2}),
		core.MkCase("roundtrip/anchor-two-documents-with-equal-current-content", 28, c18Params{Anchor: "equal-content", FaultKs: 2}),
	}
	rng := rand.New(rand.NewPCG(seed, 1818))
	n := tierN(tier, 90, 2000)
	for i := 0; i < n; i++ {
		p := c18Params{Pretty: rng.IntN(2) == 0, FaultKs: ks}
		kind := "roundtrip/generated"
		if i%8 == 7 {
			p.Delete = true
			kind = "roundtrip/generated-with-deleted-document"
		} else if rng.IntN(4) == 0 {
			p.Subset = [][]string{{"A"}, {"B"}, {"A", "B"}, {"B", "A"}}[rng.IntN(4)]
			kind = "roundtrip/generated-subset"
		}
		cs = append(cs, core.MkCase(kind, rng.Uint64(), p))
	}
	return cs
}

// c18Extremes: hand-written database: every extreme value, a chain of references, a self
// referencing document, 1-1 and 1-N relations, documents updated after creation.
func c18Extremes() c18DB {
	s := c18Schema{Cols: []string{"A", "B"}, Fields: map[string][]c13Field{
		"A": {{Name: "name", Kind: c13String}, {Name: "num", Kind: c13Int}, {Name: "f", Kind: c13Float}, {Name: "t", Kind: c13DateTime}, {Name: "bl", Kind: c13Blob},
			{Name: "j", Kind: c13JSON}, {Name: "ai", Kind: c13IntArr}, {Name: "af", Kind: c13FltArrNN}, {Name: "as", Kind: c13StrArr}, {Name: "ab", Kind: c13BoolArr}},
		"B": {{Name: "name", Kind: c13String}, {Name: "num", Kind: c13Int}},
	}, Rels: []c18Rel{
		{Col: "B", Name: "owner", Target: "A", Topo: "one_many", Back: "items"},
		{Col: "A", Name: "partner", Target: "B", Topo: "one_one", Back: "partnerOf"},
		{Col: "A", Name: "mentor", Target: "A", Topo: "self"},
	}}
	docs := []c18Doc{
		{Col: "A", Vals: c13Doc{"name": "max", "num": int64(math.MaxInt64), "f": 1e308, "t": "2020-01-02T03:04:05.123456789Z", "bl": "00ff",
			"j": c18DeepJSON(20), "ai": []any{int64(math.MaxInt64), nil, int64(math.MinInt64), int64(1<<53 + 1)}, "af": []any{5e-324, math.MaxFloat64, math.Copysign(0, -1)}, "as": []any{"", nil, "é"}, "ab": []any{}},
			Class: []string{"int_beyond_2p53", "int_extreme", "float_huge", "datetime_subsecond", "json_deep", "array_empty", "array_null_element", "float_subnormal_or_min", "float_negative_zero", "blob", "string_unicode_or_escape"}},
		{Col: "A", Vals: c13Doc{"name": "min", "num": int64(math.MinInt64), "f": 5e-324, "t": "0001-01-01T00:00:00Z", "bl": "", "j": "str", "ai": []any{}, "af": []any{}},
			FK: map[string]int{"mentor": 0, "partner": 4}, Class: []string{"null"}},
		{Col: "A", Vals: c13Doc{"name": strings.Repeat("long·", 1200), "num": int64(1<<53 + 1), "f": math.Copysign(0, -1)}, FK: map[string]int{"mentor": 2},
			Class: []string{"string_long", "null"}}, // references itself
		{Col: "A", Vals: c13Doc{"name": "updated later", "num": int64(-(1 << 53) - 1)}, FK: map[string]int{"mentor": 1}, Upd: c13Doc{"num": int64(math.MaxInt64 - 1), "f": 0.1}},
		{Col: "B", Vals: c13Doc{"name": "b0", "num": int64(1)}, FK: map[string]int{"owner": 0}},
		{Col: "B", Vals: c13Doc{"name": "b1", "num": int64(math.MaxInt64)}, FK: map[string]int{"owner": 0}, Upd: c13Doc{"num": int64(2)}},
		{Col: "B", Vals: c13Doc{"name": "b2"}, FK: map[string]int{"owner": 3}},
		{Col: "B", Vals: c13Doc{"name": "unreferenced"}},
	}
	for i := range docs {
		if docs[i].FK == nil {
			docs[i].FK = map[string]int{}
		}
	}
	return c18DB{Schema: s, Docs: docs}
}

// c18Chain: four documents of one collection, each (but the last) pointing to the next through a
// self-typed relation; nothing is updated after creation. cycle=true closes the chain.
// c18EqualContent: two documents of one collection that were created with different values (hence
// different ids) and whose CURRENT content is equal after an update; each is referenced by a document
// of the other collection. Their ids after import are derived from equal content.
func c18EqualContent() c18DB {
	s := c18Schema{Cols: []string{"A", "B"}, Fields: map[string][]c13Field{
		"A": {{Name: "name", Kind: c13String}, {Name: "num", Kind: c13Int}},
		"B": {{Name: "name", Kind: c13String}, {Name: "num", Kind: c13Int}},
	}, Rels: []c18Rel{{Col: "B", Name: "owner", Target: "A", Topo: "one_many", Back: "items"}}}
	docs := []c18Doc{
		{Col: "A", Vals: c13Doc{"name": "twin", "num": int64(1)}, FK: map[string]int{}},
		{Col: "A", Vals: c13Doc{"name": "twin", "num": int64(2)}, FK: map[string]int{}, Upd: c13Doc{"num": int64(1)}},
		{Col: "B", Vals: c13Doc{"name": "B#2", "num": int64(2)}, FK: map[string]int{"owner": 0}},
		{Col: "B", Vals: c13Doc{"name": "B#3", "num": int64(3)}, FK: map[string]int{"owner": 1}},
	}
	return c18DB{Schema: s, Docs: docs}
}

func c18Chain(cycle bool) c18DB {
	s := c18Schema{Cols: []string{"A", "B"}, Fields: map[string][]c13Field{
		"A": {{Name: "name", Kind: c13String}, {Name: "num", Kind: c13Int}},
		"B": {{Name: "name", Kind: c13String}, {Name: "num", Kind: c13Int}},
	}, Rels: []c18Rel{{Col: "A", Name: "mentor", Target: "A", Topo: "self"}, {Col: "B", Name: "owner", Target: "A", Topo: "one_many", Back: "items"}}}
	var docs []c18Doc
	for i := 0; i < 4; i++ {
		d := c18Doc{Col: "A", Vals: c13Doc{"name": fmt.Sprintf("A#%d", i), "num": int64(i)}, FK: map[string]int{}}
		if i < 3 {
			d.FK["mentor"] = i + 1
		} else if cycle {
			d.FK["mentor"] = 0
		}
		docs = append(docs, d)
	}
	docs = append(docs, c18Doc{Col: "B", Vals: c13Doc{"name": "B#4", "num": int64(1<<53 + 1)}, FK: map[string]int{"owner": 1}})
	if !cycle {
		// a document that references itself, and two documents that point to it
		docs = append(docs, c18Doc{Col: "A", Vals: c13Doc{"name": "A#5 own mentor", "num": int64(5)}, FK: map[string]int{"mentor": 5}})
		docs = append(docs, c18Doc{Col: "B", Vals: c13Doc{"name": "B#6"}, FK: map[string]int{"owner": 5}})
		docs = append(docs, c18Doc{Col: "B", Vals: c13Doc{"name": "B#7", "num": int64(7)}, FK: map[string]int{"owner": 5}})
	}
	return c18DB{Schema: s, Docs: docs}
}

func c18Scratch(c core.Case, tag string) string {
	return filepath.Join(core.WorkDir("C18"), fmt.Sprintf("case%d-%d-%d-%s.json", c.Index, c.Seed%100000, os.Getpid(), tag))
}

func c18NewTarget(ctx context.Context, s *c18Schema, fault bool) *core.Node {
	n := lightNode(ctx, fault)
	_, err := n.DB.AddSchema(ctx, s.sdl())
	core.Must(err)
	return n
}

func c18Run(ctx context.Context, c core.Case, r *core.Rec) {
	var p c18Params
	c.P(&p)
	rng := c.Rng()
	var db c18DB
	switch p.Anchor {
	case "all":
		db = c18GenDB(rng, true, p.Delete)
	case "chain":
		db = c18Chain(false)
	case "cycle":
		db = c18Chain(true)
	case "equal-content":
		db = c18EqualContent()
	case "extremes":
		db = c18Extremes()
		if p.Delete {
			db.Docs[len(db.Docs)-1].Del = true
		}
	default:
		db = c18GenDB(rng, false, p.Delete)
	}
	s := &db.Schema
	subset := p.Subset
	exported := map[string]bool{}
	for _, col := range s.Cols {
		exported[col] = len(subset) == 0
	}
	for _, col := range subset {
		exported[col] = true
	}
	var files []string
	defer func() {
		for _, f := range files {
			_ = os.Remove(f)
			_ = os.Remove(f + ".temp")
		}
	}()
	scratch := func(tag string) string {
		f := c18Scratch(c, tag)
		files = append(files, f)
		return f
	}

	src := lightNode(ctx, false)
	defer src.Close()
	if _, err := src.DB.AddSchema(ctx, s.sdl()); err != nil {
		r.Count("harness_schema_rejected", 1)
		fmt.Println("C18 schema rejected:", err, "\n"+s.sdl())
		return
	}
	if err := c18Build(ctx, src, &db); err != nil {
		r.Count("harness_build_failed", 1)
		fmt.Println("C18 cannot build the source database:", err)
		return
	}
	srcDump, err := c18Dump(ctx, src, s)
	core.Must(err)
	detail := func(extra map[string]any) map[string]any {
		d := map[string]any{"sdl": s.sdl(), "database": db, "pretty": p.Pretty, "subset": subset}
		for k, v := range extra {
			d[k] = v
		}
		return d
	}

	// ---- export
	file1 := scratch("export1")
	if p.Delete {
		r.Count("exports_with_deleted_document", 1)
	}
	if err, pan := c18Export(ctx, src, &client.BackupConfig{Filepath: file1, Pretty: p.Pretty, Collections: subset}); err != nil || pan != "" {
		sig := "export/error"
		if p.Delete {
			sig = "export/error/database-contains-deleted-document"
		}
		msg := "export of a valid database fails"
		if err != nil {
			if !p.Delete {
				sig += "/" + c18ErrClass(err)
			}
			msg += ": " + err.Error()
		}
		if pan != "" {
			if !p.Delete {
				sig += "/panic=" + strings.ReplaceAll(strings.TrimSuffix(c18First(pan), "."), " ", "-")
			}
			msg += "; BasicExport panics (its error path leaves the document-id iterator open): " + c18First(pan)
		}
		r.Violate(sig, msg, detail(map[string]any{"panic": pan}))
		return
	}
	f1, order1, err := c18ReadFile(file1)
	if err != nil {
		r.Violate("export/file-not-valid-json", "the export file cannot be parsed: "+err.Error(), detail(nil))
		return
	}
	r.Count("exports", 1)
	if p.Pretty {
		r.Count("format_pretty", 1)
	} else {
		r.Count("format_compact", 1)
	}
	if len(subset) > 0 {
		r.Count("subset_exports", 1)
	}
	// old -> new id map; completeness of the file
	idMap := map[string]string{}
	fileDocs := map[string]map[string]any{} // old id -> file document

	for col, docs := range f1 {
		if !exported[col] {
			r.Violate("export/file-contains-collection-not-requested", "export file contains collection "+col+" which was not requested", detail(nil))
		}
		for _, d := range docs {
			oldID, _ := d["_docID"].(string)
			newID, _ := d["_docIDNew"].(string)
			if oldID == "" || newID == "" {
				r.Violate("export/file-document-without-ids", "a document in the export file lacks _docID or _docIDNew", detail(map[string]any{"doc": d}))
				return
			}
			if _, dup := idMap[oldID]; dup {
				r.Violate("export/file-document-twice", "a document occurs twice in the export file", detail(map[string]any{"docID": oldID}))
			}
			idMap[oldID] = newID
			fileDocs[oldID] = d
			if oldID != newID {
				r.Count("docs_whose_id_changes", 1)
			}
		}
	}
	nExpected := 0
	for col, rows := range srcDump {
		if !exported[col] {
			continue
		}
		for id := range rows {
			nExpected++
			if _, ok := idMap[id]; !ok {
				r.Violate("export/document-missing-in-file", "a document of an exported collection is not in the export file", detail(map[string]any{"collection": col, "docID": id}))
			}
		}
	}
	if len(idMap) != nExpected {
		r.Violate("export/file-has-unknown-documents", fmt.Sprintf("export file has %d documents, the exported collections have %d", len(idMap), nExpected), detail(nil))
	}

	// ---- import (on a fault-capable node in counting mode: gives the number of storage operations)
	dst := c18NewTarget(ctx, s, true)
	defer dst.Close()
	dst.Fault.Arm(0)
	impErr := dst.DB.BasicImport(ctx, file1)
	ops, _ := dst.Fault.Disarm()
	if impErr != nil {
		sig := "import/error/" + c18ErrClass(impErr)
		if p.Anchor == "equal-content" {
			sig += "/two-source-documents-with-equal-current-content"
		}
		r.Violate(sig, "import of a file written by export fails: "+impErr.Error(), detail(map[string]any{"error": impErr.Error()}))
		return
	}
	r.Count("imports", 1)
	r.Count("evaluations", 1)
	dstDump, err := c18Dump(ctx, dst, s)
	core.Must(err)

	// ---- compare source and target
	classes := map[string]bool{}
	topos := map[string]bool{}
	nRel := 0
	relationLost := false
	for i := range db.Docs {
		d := &db.Docs[i]
		if d.Del || !exported[d.Col] {
			continue
		}
		for _, cl := range d.Class {
			classes[cl] = true
		}
		srow := srcDump[d.Col][d.ID]
		if srow == nil {
			panic(fmt.Sprintf("source dump lacks doc %d %s", i, d.ID))
		}
		newID := idMap[d.ID]
		trow := dstDump[d.Col][newID]
		if trow == nil {
			// is it there under another id? (identify by the unique name)
			other := ""
			for id, row := range dstDump[d.Col] {
				if row["name"] == srow["name"] {
					other = id
				}
			}
			what := "absent"
			if other != "" {
				what = "present-under-another-id"
			}
			r.Violate("import/no-counterpart-under-docIDNew/"+what+"/"+c18DocClass(s.Fields[d.Col], srow),
				fmt.Sprintf("source document %s (%s) has no counterpart under its recorded _docIDNew %s in the target (%s)", d.ID, c18Short(d.Vals["name"]), newID, what),
				detail(map[string]any{"doc_index": i, "file_doc": fileDocs[d.ID], "target_id_with_same_name": other}))
			continue
		}
		r.Count("documents_compared", 1)
		for _, f := range s.Fields[d.Col] {
			r.Count("values_compared", 1)
			if srow[f.Name] == nil {
				classes["null"] = true
			}
			if !c18ValueEqual(f.Kind, srow[f.Name], trow[f.Name]) {
				ek := f.Kind
				if e, _, isArr := f.Kind.elem(); isArr {
					ek = e
				}
				vcls := c18ValueClass(ek, srow[f.Name])
				if f.Default != "" && srow[f.Name] == nil {
					vcls = "null-on-a-field-with-a-default"
				}
				r.Violate("import/value-differs/kind="+string(ek)+"/"+vcls,
					fmt.Sprintf("field %s.%s (%s) of document %s: source %s, target %s", d.Col, f.Name, f.Kind, c18Short(d.Vals["name"]), c18Short(core.Canon(srow[f.Name])), c18Short(core.Canon(trow[f.Name]))),
					detail(map[string]any{"doc_index": i, "field": f.Name, "source": srow[f.Name], "target": trow[f.Name], "file_doc": fileDocs[d.ID]}))
			}
		}
		for _, rl := range s.relsOf(d.Col) {
			sv, _ := srow[rl.Name+"_id"].(string)
			tv, _ := trow[rl.Name+"_id"].(string)
			if sv == "" {
				if tv != "" {
					relationLost = true
					r.Violate("import/relation-appears/"+rl.Topo, fmt.Sprintf("%s.%s is null in the source but %s in the target", d.Col, rl.Name, tv), detail(map[string]any{"doc_index": i}))
				}
				continue
			}
			if !exported[rl.Target] {
				r.Note("relation_to_collection_outside_subset_not_compared")
				continue
			}
			nRel++
			topos[rl.Topo] = true
			selfOwn := sv == d.ID
			if selfOwn {
				topos["self_reference_to_itself"] = true
			}
			r.Count("relations_compared", 1)
			want := idMap[sv]
			tj := d.FK[rl.Name]
			if idMap[sv] != sv {
				r.Count("relations_to_doc_whose_id_changes", 1)
			}
			if tv != want {
				got := "other-document"
				if tv == "" {
					got = "null"
				} else if _, ok := dstDump[rl.Target][tv]; !ok {
					got = "dangling-id"
				}
				shape := "target-plain"
				switch {
				case selfOwn:
					shape = "document-references-itself"
				case c18LeadsIntoCycle(&db, tj):
					shape = "target-leads-into-reference-cycle"
				case c18SelfRef(&db.Docs[tj], tj):
					shape = "target-document-references-itself"
				case len(db.Docs[tj].FK) > 0:
					shape = "target-document-has-own-relations"
				}
				relationLost = true
				r.Violate("import/relation-lost/"+shape+"/got="+got,
					fmt.Sprintf("%s.%s (%s) of document %q points to %q in the source; in the target it is %q instead of the mapped id %q", d.Col, rl.Name, rl.Topo, c18Short(d.Vals["name"]), c18Short(db.Docs[tj].Vals["name"]), tv, want),
					detail(map[string]any{"doc_index": i, "relation": rl, "source_fk": sv, "expected_fk": want, "target_fk": tv, "file_doc": fileDocs[d.ID], "file_doc_of_target": fileDocs[sv]}))
				continue
			}
			// the join must resolve from the primary side as well
			if obj, _ := trow[rl.Name].(map[string]any); obj == nil || obj["_docID"] != want {
				relationLost = true
				r.Violate("import/relation-lost/foreign-key-correct-but-join-does-not-resolve", fmt.Sprintf("%s.%s_id is %s but the joined object reads %v", d.Col, rl.Name, tv, trow[rl.Name]), detail(map[string]any{"doc_index": i}))
			}
		}
		// secondary sides: same sets through the map
		for _, rl := range s.Rels {
			if rl.Target != d.Col || rl.Back == "" || !exported[rl.Col] {
				continue
			}
			want := c18BackIDs(srow[rl.Back], idMap)
			got := c18BackIDs(trow[rl.Back], nil)
			if strings.Join(want, ",") != strings.Join(got, ",") {
				r.Note("secondary_side_differs") // consequence of a lost primary-side relation (reported there) — counted only
			}
		}
	}
	for col, rows := range dstDump {
		n := 0
		for id := range srcDump[col] {
			if _, ok := idMap[id]; ok {
				n++
			}
		}
		if exported[col] && len(rows) != n {
			r.Violate("import/document-count-differs", fmt.Sprintf("collection %s: %d documents exported, %d in the target", col, n, len(rows)), detail(nil))
		}
		if !exported[col] && len(rows) != 0 {
			r.Violate("import/documents-in-collection-not-exported", fmt.Sprintf("collection %s was not exported but has %d documents in the target", col, len(rows)), detail(nil))
		}
	}
	for cl := range classes {
		r.Count("class_"+cl, 1)
	}
	for tp := range topos {
		r.Count("topo_"+tp, 1)
	}
	if classes["int_beyond_2p53"] && nRel > 0 && classes["null"] {
		var ts []string
		for _, rl := range s.Rels {
			ts = append(ts, rl.Topo)
		}
		sort.Strings(ts)
		r.Count("nontrivial_round_trips", 1)
		r.Nontrivial(fmt.Sprintf("c18|%d cols|%s|%s|pretty=%v|subset=%v", len(s.Cols), strings.Join(ts, ","), strings.Join(c18Keys(classes), ","), p.Pretty, subset))
	}

	// ---- re-export of the target
	file2 := scratch("export2")
	if err := dst.DB.BasicExport(ctx, &client.BackupConfig{Filepath: file2, Pretty: p.Pretty, Collections: subset}); err != nil {
		r.Violate("reexport/error", "export of the imported database fails: "+err.Error(), detail(nil))
	} else if f2, _, err := c18ReadFile(file2); err != nil {
		r.Violate("reexport/file-not-valid-json", err.Error(), detail(nil))
	} else if relationLost {
		// a dangling foreign key is exported as null and changes ids once more: consequence of the loss reported above
		r.Note("reexport_not_compared_after_relation_loss")
	} else {
		r.Count("reexports", 1)
		c18CompareFiles(r, f1, f2, detail)
	}

	// ---- atomicity (a): a schema-violating document at every position
	tn := c18NewTarget(ctx, s, false)
	defer func() { tn.Close() }()
	pos := 0
	for _, col := range order1 {
		for di := range f1[col] {
			bad := c18File{}
			for k, v := range f1 {
				bad[k] = v
			}
			docs := append([]map[string]any(nil), f1[col]...)
			cp := map[string]any{}
			for k, v := range docs[di] {
				cp[k] = v
			}
			var how string
			switch pos % 3 {
			case 0:
				cp["no_such_field__"] = json.Number("1")
				how = "unknown-field"
			case 1:
				cp["num"] = true
				how = "bool-in-int-field"
			default:
				cp["num"] = "twelve"
				how = "string-in-int-field"
			}
			docs[di] = cp
			bad[col] = docs
			badPath := scratch("bad")
			c18WriteFile(badPath, bad, order1)
			before := c18Scan(ctx, tn)
			err := tn.DB.BasicImport(ctx, badPath)
			after := c18Scan(ctx, tn)
			r.Count("atomicity_bad_document_imports", 1)
			r.Count("evaluations", 1)
			same, what := c18SameScan(before, after)
			switch {
			case err == nil:
				r.Note("import_accepts_schema_violating_document/" + how)
				tn.Close()
				tn = c18NewTarget(ctx, s, false)
			case !same:
				r.Violate("import/atomicity/schema-violating-document/state-left-behind",
					fmt.Sprintf("import fails at document %d of %d (%s: %v) but the target store changed: %s (%d -> %d keys)", pos+1, len(idMap), how, c18ErrClass(err), what, len(before), len(after)),
					detail(map[string]any{"position": pos, "error": err.Error()}))
				tn.Close()
				tn = c18NewTarget(ctx, s, false)
			}
			pos++
		}
	}

	// ---- atomicity (b): storage fault at operation k of the import
	nOps := len(ops)
	ks := map[int]bool{1: true, nOps: true, nOps - 1: true}
	for len(ks) < p.FaultKs+3 && len(ks) < nOps {
		ks[1+rng.IntN(nOps)] = true
	}
	var kl []int
	for k := range ks {
		if k >= 1 && k <= nOps {
			kl = append(kl, k)
		}
	}
	sort.Ints(kl)
	for _, k := range kl {
		fn := c18NewTarget(ctx, s, true)
		before := c18Scan(ctx, fn)
		fn.Fault.Arm(k)
		err, pan := c18Import(ctx, fn, file1)
		_, fired := fn.Fault.Disarm()
		after := c18Scan(ctx, fn)
		op := fn.Fault.FailedOp
		var fnDump map[string]map[string]map[string]any
		if pan == "" && err == nil && fired {
			fnDump, _ = c18Dump(ctx, fn, s)
		}
		if pan == "" {
			fn.Close() // after a panic inside Txn.Discard the node cannot be closed cleanly; it is abandoned
		}
		if !fired {
			r.Note("fault_position_not_reached")
			continue
		}
		r.Count("atomicity_fault_imports", 1)
		r.Count("evaluations", 1)
		r.Count("fault_on_"+op.Method, 1)
		if pan != "" {
			r.Violate("import/storage-fault/panic="+strings.ReplaceAll(strings.TrimSuffix(c18First(pan), "."), " ", "-"),
				fmt.Sprintf("BasicImport panics after a fault injected at storage operation %d/%d (%s %s): %s", k, nOps, op.Method, op.Store, c18First(pan)),
				detail(map[string]any{"k": k, "ops": nOps, "panic": pan}))
			if same, what := c18SameScan(before, after); !same {
				r.Violate("import/atomicity/storage-fault/state-left-behind-after-panic", fmt.Sprintf("BasicImport panicked after a fault at storage operation %d/%d (%s %s) and the store changed: %s", k, nOps, op.Method, op.Store, what), detail(map[string]any{"k": k}))
			}
			continue
		}
		if err != nil {
			if same, what := c18SameScan(before, after); !same {
				r.Violate("import/atomicity/storage-fault/state-left-behind",
					fmt.Sprintf("import fails (%v) after a fault injected at storage operation %d/%d (%s %s) but the target store changed: %s", c18ErrClass(err), k, nOps, op.Method, op.Store, what),
					detail(map[string]any{"k": k, "ops": nOps, "error": err.Error()}))
			}
		} else {
			// the import tolerated the failing operation: then the result must be the complete database.
			// (Raw stores are not compared here: block contents of two imports of one file may differ.)
			r.Count("fault_swallowed_import_succeeds", 1)
			if core.Canon(fnDump) != core.Canon(dstDump) {
				r.Violate("import/atomicity/storage-fault/"+op.Method+"-"+op.Store+"/success-with-incomplete-state",
					fmt.Sprintf("import reports success although storage operation %d/%d (%s %s) failed, and the imported documents differ from a complete import", k, nOps, op.Method, op.Store),
					detail(map[string]any{"k": k, "ops": nOps, "complete": dstDump, "this": fnDump}))
			}
		}
	}
	r.Sample(map[string]any{"kind": c.Kind, "sdl": s.sdl(), "documents": len(db.Docs), "classes": c18Keys(classes), "topologies": c18Keys(topos), "pretty": p.Pretty, "subset": subset, "import_storage_ops": nOps})
}

// c18Export calls BasicExport; a panic is caught so that it can be reported under a signature
// that names the circumstances (the generic panic/<frame> signature would hide them).
func c18Export(ctx context.Context, n *core.Node, cfg *client.BackupConfig) (err error, pan string) {
	defer func() {
		if p := recover(); p != nil {
			pan = fmt.Sprint(p)
		}
	}()
	return n.DB.BasicExport(ctx, cfg), ""
}

func c18Import(ctx context.Context, n *core.Node, path string) (err error, pan string) {
	defer func() {
		if p := recover(); p != nil {
			pan = fmt.Sprint(p)
		}
	}()
	return n.DB.BasicImport(ctx, path), ""
}

func c18First(s string) string {
	if i := strings.IndexByte(s, '\n'); i >= 0 {
		return s[:i]
	}
	return s
}

func c18Short(v any) string {
	s := fmt.Sprint(v)
	if len(s) > 60 {
		return s[:60] + "…"
	}
	return s
}

func c18SelfRef(d *c18Doc, i int) bool {
	for _, j := range d.FK {
		if j == i {
			return true
		}
	}
	return false
}

// c18LeadsIntoCycle: starting at document i and following foreign keys, can one reach a document
// that lies on a reference cycle of length >= 2 (a document pointing to itself does not count)?
func c18LeadsIntoCycle(db *c18DB, i int) bool {
	reach := func(from int) map[int]bool { // documents reachable in >= 1 step, self loops ignored
		seen := map[int]bool{}
		var walk func(x int)
		walk = func(x int) {
			for _, j := range db.Docs[x].FK {
				if j != x && !seen[j] {
					seen[j] = true
					walk(j)
				}
			}
		}
		walk(from)
		return seen
	}
	cand := reach(i)
	cand[i] = true
	for x := range cand {
		if reach(x)[x] {
			return true
		}
	}
	return false
}

func c18BackIDs(v any, idMap map[string]string) []string {
	var out []string
	add := func(m map[string]any) {
		id, _ := m["_docID"].(string)
		if idMap != nil {
			if n, ok := idMap[id]; ok {
				id = n
			}
		}
		out = append(out, id)
	}
	switch t := v.(type) {
	case []any:
		for _, e := range t {
			if m, ok := e.(map[string]any); ok {
				add(m)
			}
		}
	case map[string]any:
		add(t)
	}
	sort.Strings(out)
	return out
}

// c18CompareFiles: file 2 (export of the imported database) must equal file 1 with _docID := _docIDNew.
func c18CompareFiles(r *core.Rec, f1, f2 c18File, detail func(map[string]any) map[string]any) {
	for col, docs1 := range f1 {
		byID := map[string]map[string]any{}
		for _, d := range f2[col] {
			id, _ := d["_docID"].(string)
			byID[id] = d
		}
		if len(f2[col]) != len(docs1) {
			r.Violate("reexport/document-count-differs", fmt.Sprintf("collection %s: first file has %d documents, re-export %d", col, len(docs1), len(f2[col])), detail(nil))
		}
		for _, d1 := range docs1 {
			newID, _ := d1["_docIDNew"].(string)
			d2 := byID[newID]
			if d2 == nil {
				continue // already reported as missing counterpart / count difference
			}
			r.Count("reexport_documents_compared", 1)
			keys := map[string]bool{}
			for k := range d1 {
				keys[k] = true
			}
			for k := range d2 {
				keys[k] = true
			}
			fkRewritten := false
			for k := range keys {
				if k == "_docID" || k == "_docIDNew" {
					continue
				}
				a, b := d1[k], d2[k]
				if c18FileValueEqual(a, b) {
					continue
				}
				if fk, ok := a.(string); ok && strings.HasSuffix(k, "_id") && strings.HasPrefix(fk, "bae-") {
					// a foreign key: the second export predicts that the referenced document changes its id again
					fkRewritten = true
					shape := "target-plain"
					for _, docs := range f1 {
						for _, t := range docs {
							if t["_docIDNew"] == fk {
								for tk, tv := range t {
									if s, ok := tv.(string); ok && strings.HasSuffix(tk, "_id") && strings.HasPrefix(s, "bae-") {
										if shape == "target-plain" {
											shape = "target-document-has-own-relations"
										}
										if s == fk {
											shape = "target-document-references-itself"
										}
									}
								}
							}
						}
					}
					r.Violate("reexport/foreign-key-rewritten/"+shape, fmt.Sprintf("collection %s field %s: first file %s, re-export of the imported database %s", col, k, core.Canon(a), core.Canon(b)),
						detail(map[string]any{"first": d1, "second": d2}))
					continue
				}
				r.Violate("reexport/value-differs/"+c18FileValueClass(a, b), fmt.Sprintf("collection %s field %s: first file %s, re-export %s", col, k, c18Short(core.Canon(a)), c18Short(core.Canon(b))),
					detail(map[string]any{"first": d1, "second": d2}))
			}
			if !fkRewritten && d2["_docIDNew"] != d2["_docID"] {
				r.Violate("reexport/id-not-stable", "a document of the imported database would change its id again on the next import (_docIDNew != _docID in the re-export) although none of its foreign keys was rewritten",
					detail(map[string]any{"first": d1, "second": d2}))
			}
		}
	}
	for col := range f2 {
		if _, ok := f1[col]; !ok {
			r.Violate("reexport/additional-collection", "re-export contains collection "+col+" that the first file lacks", detail(nil))
		}
	}
}

func c18IsInt(n json.Number) bool {
	_, ok := new(big.Int).SetString(n.String(), 10)
	return ok
}

func c18FileValueEqual(a, b any) bool {
	switch x := a.(type) {
	case nil:
		return b == nil
	case json.Number:
		y, ok := b.(json.Number)
		if !ok {
			return false
		}
		if c18IsInt(x) != c18IsInt(y) {
			// 3 and 3.0 are the same float; an integer field would be spelled as integer on both sides
			return c18NumEqual(x, y, false)
		}
		return c18NumEqual(x, y, c18IsInt(x))
	case []any:
		y, ok := b.([]any)
		if !ok || len(x) != len(y) {
			return false
		}
		for i := range x {
			if !c18FileValueEqual(x[i], y[i]) {
				return false
			}
		}
		return true
	case map[string]any:
		y, ok := b.(map[string]any)
		if !ok || len(x) != len(y) {
			return false
		}
		for k, v := range x {
			w, ok := y[k]
			if !ok || !c18FileValueEqual(v, w) {
				return false
			}
		}
		return true
	}
	return a == b
}

func c18FileValueClass(a, b any) string {
	if a == nil || b == nil {
		return "null-vs-value"
	}
	switch a.(type) {
	case json.Number:
		return "number"
	case string:
		return "string"
	case []any:
		return "array"
	case map[string]any:
		return "object"
	}
	return "other"
}

// c18ValueClass: coarse, stable class of a source value for signatures.
func c18ValueClass(k c13Kind, v any) string {
	switch t := v.(type) {
	case []any:
		for _, e := range t {
			if c := c18ValueClass(k, e); c != "ordinary" {
				return c
			}
		}
		return "ordinary"
	case json.Number:
		if k == c13Int {
			if x, ok := new(big.Int).SetString(t.String(), 10); ok {
				lim := new(big.Int).Lsh(big.NewInt(1), 53)
				if x.CmpAbs(lim) > 0 {
					return "beyond-2^53"
				}
			}
			return "ordinary"
		}
		f, _ := strconv.ParseFloat(t.String(), 64)
		switch {
		case f == 0 && math.Signbit(f):
			return "negative-zero"
		case f != 0 && math.Abs(f) < 2.3e-308:
			return "subnormal-or-min"
		case math.Abs(f) >= 1e300:
			return "huge"
		}
	}
	return "ordinary"
}

// c18DocClass: does the source row hold an integer beyond 2^53 (the class of values that a
// float64 round trip corrupts)?
func c18DocClass(fields []c13Field, row map[string]any) string {
	for _, f := range fields {
		k := f.Kind
		if e, _, isArr := f.Kind.elem(); isArr {
			k = e
		}
		if k == c13Int && c18ValueClass(k, row[f.Name]) == "beyond-2^53" {
			return "holds-int-beyond-2^53"
		}
	}
	return "no-int-beyond-2^53"
}

// c18ErrClass: error text without ids, numbers and quoted values.
func c18ErrClass(err error) string {
	s := err.Error()
	if i := strings.IndexByte(s, '\n'); i >= 0 {
		s = s[:i]
	}
	var sb strings.Builder
	for _, w := range strings.Fields(s) {
		if strings.ContainsAny(w, "0123456789\"") || strings.HasPrefix(w, "bae-") {
			continue
		}
		if sb.Len() > 0 {
			sb.WriteByte('-')
		}
		sb.WriteString(strings.Trim(w, ".,:;"))
		if sb.Len() > 60 {
			break
		}
	}
	return sb.String()
}

func init() {
	core.Register(&core.Check{
		ID: "C18", Level: "exploration",
		Rule: "4 anchor databases + generated databases: schema generator (2-3 collections, random subset of 16 scalar/array kinds, relation topologies 1-N, 1-1, one-sided, self, self 1-N) x 5-14 documents in edge-value mode " +
			"(|int| up to 2^63-1, floats 1e308/MaxFloat64/5e-324/-0, long and unicode strings, deep JSON, empty arrays, null elements, nulls), relations to earlier, later and the same document, later updates (ids change), deletions; " +
			"pretty|compact x all|subset. Oracles: file complete; import succeeds; every source document has a counterpart under _docIDNew with equal values kind by kind and relations equal through the id map; " +
			"re-export equivalent modulo _docID := _docIDNew; a schema-violating document at every position and storage faults at sampled operations leave /db/data,/db/heads,/db/blocks unchanged. " +
			"non-trivial = round trip with >= 1 integer beyond 2^53, >= 1 compared relation and >= 1 null; distinct by (collections, topologies, value classes, format, subset).",
		Cases: c18Cases,
		Run:   c18Run,
		Floors: []string{"imports", "reexports", "exports_with_deleted_document", "format_pretty", "format_compact", "subset_exports", "nontrivial_round_trips", "docs_whose_id_changes", "relations_to_doc_whose_id_changes",
			"class_int_beyond_2p53", "class_int_extreme", "class_float_huge", "class_float_subnormal_or_min", "class_float_negative_zero", "class_string_long", "class_string_unicode_or_escape",
			"class_datetime_subsecond", "class_blob", "class_json_deep", "class_array_empty", "class_array_null_element", "class_null",
			"class_default-left-out", "class_default-explicit-null",
			"topo_one_many", "topo_one_one", "topo_self", "topo_self_reference_to_itself",
			"atomicity_bad_document_imports", "atomicity_fault_imports", "fault_on_commit", "fault_on_set", "fault_on_get", "floor_harness_built_every_database"},
		CaseTimeout: 120 * time.Second,
		PostProcess: func(sup *core.Supervisor, m *core.Rec) {
			if m.Counters["harness_schema_rejected"] == 0 && m.Counters["harness_build_failed"] == 0 {
				m.Counters["floor_harness_built_every_database"] = 1
			}
		},
		Assumptions: []string{
			"the target is a fresh node with the same SDL; source and target are compared through GraphQL (null and absent are not distinguished)",
			"relations to documents of collections outside an exported subset are not compared (the file records no mapping for them)",
			"a storage fault is injected at the corekv boundary; the store's own commit is atomic; a fault that the import tolerates must still yield the complete state",
			"strings are valid UTF-8 (JSON cannot carry anything else)",
		},
	})
}
