package checks

// C19 — schema evolution never alters existing data.
//
// One case = one scripted history (stored in the case) on one or two real nodes:
//   evolve     one node, 1-3 collections, creates / updates / deletes interleaved with add-field
//              patches (every scalar kind, arrays, counters; setAsDefaultVersion true/false) and
//              SetActiveSchemaVersion back and forth over the version graph; optional secondary index
//              on an old field. Ends with a tour over every version.
//              A patch is ONE PatchSchema call; it adds one field to one collection, or (multi-patch)
//              several fields to two or three collections at once (one or two fields per collection,
//              the JSON patch operations in any order), on top of whatever version each collection
//              has active (latest or not).
//   two-node   two nodes (1-3 collections) start on the same schema, are patched at different times
//              (or only one is; single- and multi-collection patches), switch versions, write, and
//              exchange commits by block-closure copy + hook H1.
//
// Oracles:
//   model       (one node) docID -> field -> value maintained from the script; after every step the
//               showDeleted dump under the active version = model projected on that version's fields
//               (never written fields: null); live dump = live documents; index-served query = model.
//   before/after a patch or switch changes no value of a field common to the old and new active
//               version, no docID, no _deleted flag and no entry of any document's commit list.
//   append-only every document's commits list after a step ⊇ the list before it, entries identical.
//   versions    after a patch / switch EVERY collection of the node (touched by the step or not) has
//               exactly one active version, the requested one; a patch creates exactly one new version
//               per collection it names (= the version patched + the added fields) and none elsewhere.
//   two-node    every merge succeeds; after a full exchange the dumps restricted to the fields both
//               active versions know are equal (fields of a document that the receiver merged while
//               its active version did not know them are excluded and counted).

import (
	"context"
	"encoding/json"
	"fmt"
	"math/rand/v2"
	"sort"
	"strings"
	"time"

	"github.com/sourcenetwork/immutable"
	"github.com/sourcenetwork/lens/host-go/config/model"

	"github.com/sourcenetwork/defradb/client"
	"github.com/sourcenetwork/defradb/verifharness/core"
)

type seField struct {
	Name string `json:"name"`
	Kind string `json:"kind"`          // GraphQL kind as accepted by PatchSchema ("String", "[Int!]", ...)
	Typ  int    `json:"typ,omitempty"` // 0 = register, 4 = pncounter, 5 = pcounter
}

// sePart: one `add` operation of a PatchSchema call.
type sePart struct {
	Col   int     `json:"c"`
	Field seField `json:"f"`
}

type seOp struct {
	Kind       string         `json:"k"` // patch | switch | create | update | delete | deliver
	Node       int            `json:"n"`
	Col        int            `json:"c"`               // collection index
	Field      *seField       `json:"f,omitempty"`     // patch: the single field added to Col
	Parts      []sePart       `json:"parts,omitempty"` // patch: the operations of one PatchSchema call, in order (overrides Col/Field)
	SetDefault bool           `json:"def,omitempty"`   // patch: setAsDefaultVersion
	Ver        int            `json:"v,omitempty"`     // switch: index into the node's version table of the collection (creation order)
	Doc        int            `json:"d,omitempty"`     // document index (creation order over all collections)
	W          map[string]any `json:"w,omitempty"`
	Src        int            `json:"src,omitempty"` // deliver: source node
}

type seParams struct {
	Index  bool   `json:"index"`
	Nodes  int    `json:"nodes"`
	Cols   int    `json:"cols"`
	Script []seOp `json:"script"`
	// Bus: commits are delivered by publishing event.Merge on the receiver's bus (the path the network
	// layer uses: message handler, merge queue, retry loop) instead of the synchronous hook H1
	Bus bool `json:"bus,omitempty"`
	// Pad: number of further collections added (in a second AddSchema call) before the history starts.
	// They hold no documents; they declare fields with the names the history uses, in another order,
	// so that every per-collection identifier that is keyed by a number or a name exists several
	// times in the store (collections 10.. next to collection 1, field "name" with different ids).
	Pad int `json:"pad,omitempty"`
	// PadLate: the collections are not added before the history but by an operation {k: "pad"} inside it
	// (documents already exist when the store gets its 10th.. collection)
	PadLate bool `json:"pad_late,omitempty"`
}

// sePadSDL: n collections Pad0..Pad<n-1> declaring the field names of the base collections, of the
// generator's patch pool and of the anchors, rotated, behind a leading extra field.
func sePadSDL(n int) string {
	// (some names of the history are left out on purpose: identifiers of the padding collections must
	// not form a consistent substitute for those of the collections under test)
	names := []string{"email", "hits", "rating", "stars"}
	for _, fs := range seBase {
		for _, f := range fs {
			if f.Name != "pts" && f.Name != "pages" && f.Name != "seen" {
				names = append(names, f.Name)
			}
		}
	}
	for c := 0; c < 3; c++ {
		for k := 1; k <= 6; k += 2 {
			names = append(names, fmt.Sprintf("f%d%c", k, 'a'+c))
		}
	}
	var sb strings.Builder
	for i := 0; i < n; i++ {
		fmt.Fprintf(&sb, "type Pad%d {\n aaa%d: Int\n", i, i)
		for k := range names {
			fmt.Fprintf(&sb, " %s: Int\n", names[(k+3*i+1)%len(names)])
		}
		sb.WriteString("}\n")
	}
	return sb.String()
}

var seColNames = []string{"User", "Book", "Note"}

// parts of a patch operation (the single-field form is one part).
func (op seOp) parts() []sePart {
	if len(op.Parts) > 0 {
		return op.Parts
	}
	if op.Field != nil {
		return []sePart{{Col: op.Col, Field: *op.Field}}
	}
	return nil
}

// seTouched: the collections a patch names, ascending.
func seTouched(parts []sePart) []int {
	seen := map[int]bool{}
	var out []int
	for _, pt := range parts {
		if !seen[pt.Col] {
			seen[pt.Col] = true
			out = append(out, pt.Col)
		}
	}
	sort.Ints(out)
	return out
}

var seBase = [][]seField{
	{{Name: "name", Kind: "String"}, {Name: "age", Kind: "Int"}, {Name: "tag", Kind: "String"}, {Name: "pts", Kind: "Int", Typ: 5}},
	{{Name: "title", Kind: "String"}, {Name: "pages", Kind: "Int"}},
	{{Name: "text", Kind: "String"}, {Name: "rank", Kind: "Int"}, {Name: "seen", Kind: "Int", Typ: 4}},
}

const seTagDefault = "t0"

func seSDL(p seParams) string {
	idx := ""
	if p.Index {
		idx = " @index"
	}
	s := fmt.Sprintf("type User {\n name: String%s\n age: Int\n tag: String @default(string: %q)\n pts: Int @crdt(type: pcounter)\n}\n", idx, seTagDefault)
	if p.Cols > 1 {
		s += "type Book {\n title: String\n pages: Int\n}\n"
	}
	if p.Cols > 2 {
		s += "type Note {\n text: String\n rank: Int\n seen: Int @crdt(type: pncounter)\n}\n"
	}
	return s
}

var seKindPool = []seField{
	{Kind: "String"}, {Kind: "Int"}, {Kind: "Float"}, {Kind: "Boolean"}, {Kind: "DateTime"}, {Kind: "JSON"}, {Kind: "Blob"},
	{Kind: "[Int!]"}, {Kind: "[String]"}, {Kind: "Int", Typ: 4}, {Kind: "Int", Typ: 5}, {Kind: "Float", Typ: 4},
}

func seDomain(f seField) []any {
	if f.Typ == 4 {
		if f.Kind == "Float" {
			return []any{0.5, -0.5, 1.25}
		}
		return []any{-1, 1, 2, 3}
	}
	if f.Typ == 5 {
		return []any{1, 2, 3}
	}
	switch f.Kind {
	case "String":
		return []any{"a", "b", "", nil}
	case "Int":
		return []any{1, 2, -7, nil}
	case "Float":
		return []any{0.5, 2.25, nil}
	case "Boolean":
		return []any{true, false, nil}
	case "DateTime":
		return []any{"2020-01-02T03:04:05Z", "2021-06-07T08:09:10.123456789Z", nil}
	case "JSON":
		return []any{map[string]any{"k": 1}, []any{1, 2}, "x", nil}
	case "Blob":
		return []any{"00ff", "ab", nil}
	case "[Int!]":
		return []any{[]any{1}, []any{1, 2}, []any{}, nil}
	case "[String]":
		return []any{[]any{"x"}, []any{"x", nil, "y"}, nil}
	}
	return []any{nil}
}

// ---------------------------------------------------------------------------------------
// generators (abstract state: per node and collection the version table)

type seGenVer struct{ fields []seField }

type seGenNode struct {
	vers   [][]seGenVer // [col][version]
	active []int        // [col]
	known  map[int]bool // documents the node holds
	dead   map[int]bool
}

type seGen struct {
	rng     *rand.Rand
	p       seParams
	nodes   []*seGenNode
	docCol  []int
	pool    [][]seField // [col] the fields patch k adds (shared by the nodes)
	nameSeq int
}

func newSeGen(rng *rand.Rand, nodes, cols int, index bool) *seGen {
	g := &seGen{rng: rng, p: seParams{Index: index, Nodes: nodes, Cols: cols}}
	for n := 0; n < nodes; n++ {
		gn := &seGenNode{known: map[int]bool{}, dead: map[int]bool{}}
		for c := 0; c < cols; c++ {
			gn.vers = append(gn.vers, []seGenVer{{fields: append([]seField{}, seBase[c]...)}})
			gn.active = append(gn.active, 0)
		}
		g.nodes = append(g.nodes, gn)
	}
	for c := 0; c < cols; c++ {
		perm := rng.Perm(len(seKindPool))
		var fs []seField
		for k := 0; k < 6; k++ {
			f := seKindPool[perm[k]]
			f.Name = fmt.Sprintf("f%d%c", k+1, 'a'+c)
			fs = append(fs, f)
		}
		g.pool = append(g.pool, fs)
	}
	return g
}

func (g *seGen) emit(op seOp) { g.p.Script = append(g.p.Script, op) }

func (g *seGen) activeFields(n, c int) []seField {
	gn := g.nodes[n]
	return gn.vers[c][gn.active[c]].fields
}

func (g *seGen) writes(n, c int, create bool) map[string]any {
	fs := g.activeFields(n, c)
	w := map[string]any{}
	if create {
		g.nameSeq++
		for _, f := range fs {
			if g.rng.IntN(2) == 0 {
				if v := seDomain(f)[g.rng.IntN(len(seDomain(f)))]; v != nil {
					w[f.Name] = v
				}
			}
		}
		// documents must differ (docID is a function of the content): a unique first field
		w[fs[0].Name] = fmt.Sprintf("n%d", g.nameSeq%3) + strings.Repeat("x", g.nameSeq/3)
		return w
	}
	k := 1 + g.rng.IntN(3)
	for ; k > 0; k-- {
		// prefer recently added fields
		var f seField
		if len(fs) > len(seBase[c]) && g.rng.IntN(2) == 0 {
			f = fs[len(seBase[c])+g.rng.IntN(len(fs)-len(seBase[c]))]
		} else {
			f = fs[g.rng.IntN(len(fs))]
		}
		w[f.Name] = seDomain(f)[g.rng.IntN(len(seDomain(f)))]
	}
	return w
}

func (g *seGen) create(n, c int) {
	g.emit(seOp{Kind: "create", Node: n, Col: c, Doc: len(g.docCol), W: g.writes(n, c, true)})
	g.nodes[n].known[len(g.docCol)] = true
	g.docCol = append(g.docCol, c)
}

func (g *seGen) liveDoc(n int) int {
	var ds []int
	for d := range g.docCol {
		if g.nodes[n].known[d] && !g.nodes[n].dead[d] {
			ds = append(ds, d)
		}
	}
	if len(ds) == 0 {
		return -1
	}
	return ds[g.rng.IntN(len(ds))]
}

func (g *seGen) update(n int) bool {
	d := g.liveDoc(n)
	if d < 0 {
		return false
	}
	g.emit(seOp{Kind: "update", Node: n, Col: g.docCol[d], Doc: d, W: g.writes(n, g.docCol[d], false)})
	return true
}

func (g *seGen) del(n int) bool {
	d := g.liveDoc(n)
	if d < 0 {
		return false
	}
	g.emit(seOp{Kind: "delete", Node: n, Col: g.docCol[d], Doc: d})
	g.nodes[n].dead[d] = true
	return true
}

// candidates: the pool fields of collection c the node has in none of its versions.
func (g *seGen) candidates(n, c int) []seField {
	gn := g.nodes[n]
	have := map[string]bool{}
	for _, v := range gn.vers[c] {
		for _, f := range v.fields {
			have[f.Name] = true
		}
	}
	var cand []seField
	for _, f := range g.pool[c] {
		if !have[f.Name] {
			cand = append(cand, f)
		}
	}
	return cand
}

// patchMulti emits ONE patch that adds one field to every collection of cols (two fields to the
// collection `two`, if >= 0) on top of the version each of them has active; the operations are shuffled.
// At least two collections must be patchable, else nothing is emitted.
func (g *seGen) patchMulti(n int, cols []int, two int, setDefault bool) bool {
	gn := g.nodes[n]
	var parts []sePart
	touched := 0
	for _, c := range cols {
		cand := g.candidates(n, c)
		k := 1
		if c == two {
			k = 2
		}
		if len(cand) < k {
			k = len(cand)
		}
		if k == 0 {
			continue
		}
		if g.rng.IntN(3) == 0 {
			g.rng.Shuffle(len(cand), func(i, j int) { cand[i], cand[j] = cand[j], cand[i] })
		}
		touched++
		for _, f := range cand[:k] {
			parts = append(parts, sePart{Col: c, Field: f})
		}
	}
	if touched < 2 {
		return false
	}
	g.rng.Shuffle(len(parts), func(i, j int) { parts[i], parts[j] = parts[j], parts[i] })
	for _, c := range seTouched(parts) {
		fs := append([]seField{}, g.activeFields(n, c)...)
		for _, pt := range parts {
			if pt.Col == c {
				fs = append(fs, pt.Field)
			}
		}
		gn.vers[c] = append(gn.vers[c], seGenVer{fields: fs})
	}
	g.emit(seOp{Kind: "patch", Node: n, Col: parts[0].Col, Parts: parts, SetDefault: setDefault})
	if setDefault {
		for _, c := range seTouched(parts) {
			gn.active[c] = len(gn.vers[c]) - 1
		}
	}
	return true
}

// randomMulti: a multi-collection patch over all or (three collections) a random pair of the collections.
func (g *seGen) randomMulti(n int, setDefault bool) bool {
	cols := g.rng.Perm(g.p.Cols)
	if len(cols) > 2 && g.rng.IntN(2) == 0 {
		cols = cols[:2]
	}
	two := -1
	if g.rng.IntN(3) == 0 {
		two = cols[g.rng.IntN(len(cols))]
	}
	return g.patchMulti(n, cols, two, setDefault)
}

// patch adds the next pool field the node has in none of its versions on top of the active version.
func (g *seGen) patch(n, c int, setDefault bool) bool {
	gn := g.nodes[n]
	cand := g.candidates(n, c)
	if len(cand) == 0 {
		return false
	}
	f := cand[0]
	if g.rng.IntN(3) == 0 {
		f = cand[g.rng.IntN(len(cand))]
	}
	nv := seGenVer{fields: append(append([]seField{}, g.activeFields(n, c)...), f)}
	gn.vers[c] = append(gn.vers[c], nv)
	g.emit(seOp{Kind: "patch", Node: n, Col: c, Field: &f, SetDefault: setDefault})
	if setDefault {
		gn.active[c] = len(gn.vers[c]) - 1
	}
	return true
}

func (g *seGen) sw(n, c int) bool {
	gn := g.nodes[n]
	if len(gn.vers[c]) < 2 {
		return false
	}
	v := g.rng.IntN(len(gn.vers[c]))
	if v == gn.active[c] {
		v = (v + 1) % len(gn.vers[c])
	}
	// bias toward the root version and the chain below the active one (switching back)
	if g.rng.IntN(3) == 0 {
		v = 0
		if gn.active[c] == 0 {
			v = len(gn.vers[c]) - 1
		}
	}
	g.emit(seOp{Kind: "switch", Node: n, Col: c, Ver: v})
	gn.active[c] = v
	return true
}

func (g *seGen) deliver(src, dst, d int) {
	if !g.nodes[src].known[d] {
		return
	}
	g.emit(seOp{Kind: "deliver", Node: dst, Src: src, Col: g.docCol[d], Doc: d})
	g.nodes[dst].known[d] = true
	if g.nodes[src].dead[d] {
		g.nodes[dst].dead[d] = true
	}
}

func (g *seGen) exchange() {
	for round := 0; round < 2; round++ {
		for d := range g.docCol {
			g.deliver(0, 1, d)
			g.deliver(1, 0, d)
		}
	}
}

func seGenEvolve(rng *rand.Rand) seParams {
	g := newSeGen(rng, 1, 1+rng.IntN(3), rng.IntN(2) == 0)
	for c := 0; c < g.p.Cols; c++ {
		g.create(0, c)
	}
	g.create(0, 0)
	steps := 8 + rng.IntN(14)
	patches := 0
	for s := 0; s < steps; s++ {
		c := rng.IntN(g.p.Cols)
		switch x := rng.IntN(100); {
		case x < 18 && patches < 4:
			if g.p.Cols > 1 && rng.IntN(100) < 45 {
				if g.randomMulti(0, rng.IntN(3) != 0) {
					patches++
				}
			} else if g.patch(0, c, rng.IntN(4) != 0) {
				patches++
			}
		case x < 38:
			g.sw(0, c)
		case x < 50 && len(g.docCol) < 7:
			g.create(0, c)
		case x < 90:
			g.update(0)
		default:
			g.del(0)
		}
	}
	return g.p
}

func seGenTwoNode(rng *rand.Rand) seParams {
	cols := 1
	if x := rng.IntN(10); x >= 8 {
		cols = 3
	} else if x >= 4 {
		cols = 2
	}
	g := newSeGen(rng, 2, cols, rng.IntN(3) == 0)
	g.create(0, 0)
	g.create(1, 0)
	for c := 1; c < cols; c++ {
		g.create(rng.IntN(2), c)
	}
	if rng.IntN(4) != 0 {
		g.exchange()
	}
	steps := 8 + rng.IntN(12)
	for s := 0; s < steps; s++ {
		n := rng.IntN(2)
		c := rng.IntN(cols)
		switch x := rng.IntN(100); {
		case x < 15:
			if cols > 1 && rng.IntN(2) == 0 {
				g.randomMulti(n, rng.IntN(4) != 0)
			} else {
				g.patch(n, c, rng.IntN(5) != 0)
			}
		case x < 25:
			g.sw(n, c)
		case x < 33 && len(g.docCol) < 6:
			g.create(n, c)
		case x < 70:
			g.update(n)
		case x < 74:
			g.del(n)
		default:
			if d := g.liveDoc(n); d >= 0 {
				g.deliver(n, 1-n, d)
			}
		}
	}
	g.exchange()
	return g.p
}

func seKindOf(p seParams) string {
	if p.Nodes > 1 {
		return "two-node"
	}
	return "evolve"
}

func seAnchors() (cs []core.Case) {
	var all []seParams
	add := func(p seParams) { all = append(all, p); cs = append(cs, core.MkCase("anchor/"+seKindOf(p), 1, p)) }
	defer func() {
		// the first one-node and the first two-node anchor once more among more than ten collections
		seen := map[int]bool{}
		for _, p := range all {
			if !seen[p.Nodes] {
				seen[p.Nodes] = true
				p.Pad = 12
				cs = append(cs, core.MkCase("anchor/"+seKindOf(p)+"/padded", 1, p))
				q := p
				q.PadLate = true
				at := len(p.Script) / 2
				q.Script = append(append(append([]seOp{}, p.Script[:at]...), seOp{Kind: "pad"}), p.Script[at:]...)
				cs = append(cs, core.MkCase("anchor/"+seKindOf(q)+"/padded-late", 1, q))
			}
		}
	}()
	email := &seField{Name: "email", Kind: "String"}
	score := &seField{Name: "score", Kind: "Float"}
	hits := &seField{Name: "hits", Kind: "Int", Typ: 4}
	// the history of DESIGN.md section 7 row 18: patch, write under v2, back to the ROOT version, write
	// under v1 (a non-latest version), forward again; then a second patch that is not made the default,
	// a switch to it, and back to the root once more
	add(seParams{Index: true, Nodes: 1, Cols: 1, Script: []seOp{
		{Kind: "create", Doc: 0, W: map[string]any{"name": "a", "pts": 1}},
		{Kind: "create", Doc: 1, W: map[string]any{"name": "b", "age": 3, "tag": "t1"}},
		{Kind: "patch", Field: email, SetDefault: true},
		{Kind: "update", Doc: 0, W: map[string]any{"email": "a@x", "pts": 2}},
		{Kind: "create", Doc: 2, W: map[string]any{"name": "c", "email": "c@x"}},
		{Kind: "switch", Ver: 0},
		{Kind: "update", Doc: 2, W: map[string]any{"name": "c2", "age": nil}},
		{Kind: "create", Doc: 3, W: map[string]any{"name": "d", "pts": 3}},
		{Kind: "delete", Doc: 1},
		{Kind: "switch", Ver: 1},
		{Kind: "update", Doc: 3, W: map[string]any{"email": nil, "pts": 1}},
		{Kind: "patch", Field: score, SetDefault: false},
		{Kind: "update", Doc: 0, W: map[string]any{"email": "a2@x"}},
		{Kind: "switch", Ver: 2},
		{Kind: "update", Doc: 0, W: map[string]any{"score": 0.5, "name": "a2"}},
		{Kind: "switch", Ver: 0},
		{Kind: "update", Doc: 0, W: map[string]any{"age": 7}},
		{Kind: "switch", Ver: 2},
	}})
	// two collections, a counter added by patch, a patch on top of a non-latest version (version tree)
	add(seParams{Index: false, Nodes: 1, Cols: 2, Script: []seOp{
		{Kind: "create", Col: 0, Doc: 0, W: map[string]any{"name": "a", "pts": 1}},
		{Kind: "create", Col: 1, Doc: 1, W: map[string]any{"title": "t", "pages": 10}},
		{Kind: "patch", Col: 0, Field: hits, SetDefault: true},
		{Kind: "update", Col: 0, Doc: 0, W: map[string]any{"hits": 2, "pts": 1}},
		{Kind: "patch", Col: 1, Field: &seField{Name: "isbn", Kind: "String"}, SetDefault: true},
		{Kind: "update", Col: 1, Doc: 1, W: map[string]any{"isbn": "i1"}},
		{Kind: "switch", Col: 0, Ver: 0},
		{Kind: "patch", Col: 0, Field: score, SetDefault: true}, // sibling of the hits version
		{Kind: "update", Col: 0, Doc: 0, W: map[string]any{"score": 2.25}},
		{Kind: "switch", Col: 0, Ver: 1},
		{Kind: "update", Col: 0, Doc: 0, W: map[string]any{"hits": -1}},
		{Kind: "switch", Col: 1, Ver: 0},
		{Kind: "update", Col: 1, Doc: 1, W: map[string]any{"pages": 11}},
		{Kind: "switch", Col: 0, Ver: 2},
	}})
	// two nodes: only A is patched; B merges commits that carry a field it does not know; then B is
	// patched differently; both write; full exchange
	add(seParams{Index: false, Nodes: 2, Cols: 1, Script: []seOp{
		{Kind: "create", Node: 0, Doc: 0, W: map[string]any{"name": "a", "pts": 1}},
		{Kind: "deliver", Node: 1, Src: 0, Doc: 0},
		{Kind: "patch", Node: 0, Field: email, SetDefault: true},
		{Kind: "update", Node: 0, Doc: 0, W: map[string]any{"email": "a@x", "age": 1, "pts": 2}},
		{Kind: "create", Node: 0, Doc: 1, W: map[string]any{"name": "b", "email": "b@x"}},
		{Kind: "deliver", Node: 1, Src: 0, Doc: 0}, // receiver does not know email
		{Kind: "deliver", Node: 1, Src: 0, Doc: 1},
		{Kind: "update", Node: 1, Doc: 0, W: map[string]any{"age": 2, "pts": 3}},
		{Kind: "patch", Node: 1, Field: score, SetDefault: true},
		{Kind: "update", Node: 1, Doc: 1, W: map[string]any{"score": 0.5, "name": "b2"}},
		{Kind: "deliver", Node: 0, Src: 1, Doc: 0},
		{Kind: "deliver", Node: 0, Src: 1, Doc: 1}, // receiver does not know score
		{Kind: "switch", Node: 0, Ver: 0},
		{Kind: "update", Node: 0, Doc: 1, W: map[string]any{"tag": "t2"}},
		{Kind: "deliver", Node: 1, Src: 0, Doc: 1},
		{Kind: "deliver", Node: 1, Src: 0, Doc: 0},
		{Kind: "deliver", Node: 0, Src: 1, Doc: 0},
		{Kind: "deliver", Node: 0, Src: 1, Doc: 1},
	}})
	// two nodes: the same patch applied at different times; the later node merges with the field known
	add(seParams{Index: true, Nodes: 2, Cols: 1, Script: []seOp{
		{Kind: "create", Node: 0, Doc: 0, W: map[string]any{"name": "a"}},
		{Kind: "create", Node: 1, Doc: 1, W: map[string]any{"name": "b", "pts": 2}},
		{Kind: "patch", Node: 0, Field: email, SetDefault: true},
		{Kind: "patch", Node: 1, Field: email, SetDefault: true},
		{Kind: "update", Node: 0, Doc: 0, W: map[string]any{"email": "a@x"}},
		{Kind: "deliver", Node: 1, Src: 0, Doc: 0},
		{Kind: "deliver", Node: 0, Src: 1, Doc: 1},
		{Kind: "update", Node: 1, Doc: 0, W: map[string]any{"email": "a2@x", "pts": 1}},
		{Kind: "update", Node: 0, Doc: 1, W: map[string]any{"email": nil, "pts": 1}},
		{Kind: "switch", Node: 1, Ver: 0},
		{Kind: "deliver", Node: 1, Src: 0, Doc: 1}, // active version of the receiver does not know email
		{Kind: "switch", Node: 1, Ver: 1},
		{Kind: "deliver", Node: 0, Src: 1, Doc: 0},
		{Kind: "deliver", Node: 1, Src: 0, Doc: 0},
		{Kind: "deliver", Node: 0, Src: 1, Doc: 1},
		{Kind: "deliver", Node: 1, Src: 0, Doc: 1},
	}})
	// two nodes, commits delivered through the event bus (the database's own message handler): the
	// receiver merges a commit BEFORE both nodes are patched and commits that write the added field
	// AFTERWARDS - the handler must resolve the collection as it is at the time of each merge
	add(seParams{Index: false, Nodes: 2, Cols: 1, Bus: true, Script: []seOp{
		{Kind: "create", Node: 0, Doc: 0, W: map[string]any{"name": "a"}},
		{Kind: "deliver", Node: 1, Src: 0, Doc: 0},
		{Kind: "patch", Node: 0, Field: email, SetDefault: true},
		{Kind: "patch", Node: 1, Field: email, SetDefault: true},
		{Kind: "update", Node: 0, Doc: 0, W: map[string]any{"email": "a@x"}},
		{Kind: "create", Node: 0, Doc: 1, W: map[string]any{"name": "b", "email": "b@x"}},
		{Kind: "deliver", Node: 1, Src: 0, Doc: 0},
		{Kind: "deliver", Node: 1, Src: 0, Doc: 1},
		{Kind: "update", Node: 1, Doc: 0, W: map[string]any{"pts": 1}},
		{Kind: "deliver", Node: 0, Src: 1, Doc: 0},
		{Kind: "switch", Node: 1, Ver: 0},
		{Kind: "update", Node: 0, Doc: 1, W: map[string]any{"tag": "t"}},
		{Kind: "deliver", Node: 1, Src: 0, Doc: 1},
		{Kind: "switch", Node: 1, Ver: 1},
		{Kind: "update", Node: 0, Doc: 1, W: map[string]any{"email": "b2@x"}},
		{Kind: "deliver", Node: 1, Src: 0, Doc: 1},
	}})
	rating := seField{Name: "rating", Kind: "Int"}
	isbn := seField{Name: "isbn", Kind: "String"}
	stars := seField{Name: "stars", Kind: "Int"}
	mark := seField{Name: "mark", Kind: "String"}
	nick := seField{Name: "nick", Kind: "String"}
	// ONE PatchSchema call naming several collections. Documents exist in all three collections; a patch of
	// User+Book made the default, both queried (model) and written; a patch with two fields for User and one
	// for Note that is NOT made the default; then a patch of all three collections on top of non-latest
	// active versions (Book at its root, Note at its root with a newer inactive version, User at its latest)
	add(seParams{Index: true, Nodes: 1, Cols: 3, Script: []seOp{
		{Kind: "create", Col: 0, Doc: 0, W: map[string]any{"name": "a", "pts": 1}},
		{Kind: "create", Col: 1, Doc: 1, W: map[string]any{"title": "t", "pages": 10}},
		{Kind: "create", Col: 2, Doc: 2, W: map[string]any{"text": "x", "rank": 1, "seen": 2}},
		{Kind: "create", Col: 0, Doc: 3, W: map[string]any{"name": "b", "age": 3}},
		{Kind: "patch", Parts: []sePart{{0, *email}, {1, rating}}, SetDefault: true},
		{Kind: "update", Col: 0, Doc: 0, W: map[string]any{"email": "a@x", "pts": 2}},
		{Kind: "update", Col: 1, Doc: 1, W: map[string]any{"rating": 5, "pages": 11}},
		{Kind: "create", Col: 1, Doc: 4, W: map[string]any{"title": "u", "rating": 3}},
		{Kind: "patch", Parts: []sePart{{0, *score}, {2, stars}, {0, *hits}}, SetDefault: false},
		{Kind: "update", Col: 0, Doc: 0, W: map[string]any{"email": "a2@x"}}, // User #1 is no longer the latest
		{Kind: "update", Col: 2, Doc: 2, W: map[string]any{"rank": 2, "seen": -1}},
		{Kind: "switch", Col: 0, Ver: 2},
		{Kind: "update", Col: 0, Doc: 0, W: map[string]any{"score": 0.5, "hits": 2}},
		{Kind: "switch", Col: 1, Ver: 0},
		{Kind: "update", Col: 1, Doc: 1, W: map[string]any{"pages": 12}},
		{Kind: "patch", Parts: []sePart{{1, isbn}, {2, mark}, {0, nick}}, SetDefault: true},
		{Kind: "update", Col: 1, Doc: 1, W: map[string]any{"isbn": "i1"}},
		{Kind: "update", Col: 2, Doc: 2, W: map[string]any{"mark": "m", "seen": 1}},
		{Kind: "update", Col: 0, Doc: 3, W: map[string]any{"nick": "n", "score": 1.5}},
		{Kind: "delete", Col: 1, Doc: 4},
		{Kind: "switch", Col: 2, Ver: 1},
		{Kind: "update", Col: 2, Doc: 2, W: map[string]any{"stars": 4}},
		{Kind: "switch", Col: 0, Ver: 0},
		{Kind: "update", Col: 0, Doc: 0, W: map[string]any{"age": 7}},
	}})
	// two nodes, two collections: A applies a User+Book patch as default and writes the new fields; B merges
	// them while it knows neither field, then applies the same patch (operations in the other order); a
	// second patch (two fields for User, one for Book) on A only, not default, A switches Book to it; exchange
	xch := func(docs int) []seOp {
		var ops []seOp
		for round := 0; round < 2; round++ {
			for d := 0; d < docs; d++ {
				col := []int{0, 1, 1, 0}[d]
				ops = append(ops, seOp{Kind: "deliver", Node: 1, Src: 0, Col: col, Doc: d}, seOp{Kind: "deliver", Node: 0, Src: 1, Col: col, Doc: d})
			}
		}
		return ops
	}
	two := []seOp{
		{Kind: "create", Node: 0, Col: 0, Doc: 0, W: map[string]any{"name": "a", "pts": 1}},
		{Kind: "create", Node: 0, Col: 1, Doc: 1, W: map[string]any{"title": "t", "pages": 1}},
		{Kind: "create", Node: 1, Col: 1, Doc: 2, W: map[string]any{"title": "u"}},
		{Kind: "deliver", Node: 1, Src: 0, Col: 0, Doc: 0},
		{Kind: "deliver", Node: 1, Src: 0, Col: 1, Doc: 1},
		{Kind: "deliver", Node: 0, Src: 1, Col: 1, Doc: 2},
		{Kind: "patch", Node: 0, Parts: []sePart{{0, *email}, {1, rating}}, SetDefault: true},
		{Kind: "update", Node: 0, Col: 0, Doc: 0, W: map[string]any{"email": "a@x", "age": 1}},
		{Kind: "update", Node: 0, Col: 1, Doc: 1, W: map[string]any{"rating": 5}},
		{Kind: "update", Node: 0, Col: 1, Doc: 2, W: map[string]any{"pages": 7}},
		{Kind: "deliver", Node: 1, Src: 0, Col: 0, Doc: 0}, // receiver knows neither email nor rating
		{Kind: "deliver", Node: 1, Src: 0, Col: 1, Doc: 1},
		{Kind: "update", Node: 1, Col: 1, Doc: 1, W: map[string]any{"pages": 2}},
		{Kind: "patch", Node: 1, Parts: []sePart{{1, rating}, {0, *email}}, SetDefault: true},
		{Kind: "update", Node: 1, Col: 1, Doc: 2, W: map[string]any{"rating": 2}},
		{Kind: "create", Node: 1, Col: 0, Doc: 3, W: map[string]any{"name": "c", "email": "c@x"}},
		{Kind: "patch", Node: 0, Parts: []sePart{{0, *score}, {1, isbn}, {0, *hits}}, SetDefault: false},
		{Kind: "switch", Node: 0, Col: 1, Ver: 2},
		{Kind: "update", Node: 0, Col: 1, Doc: 1, W: map[string]any{"isbn": "i"}},
		{Kind: "update", Node: 0, Col: 0, Doc: 0, W: map[string]any{"pts": 2}},
	}
	add(seParams{Index: false, Nodes: 2, Cols: 2, Script: append(two, xch(4)...)})
	return cs
}

func seCases(seed uint64, tier string) []core.Case {
	cs := seAnchors()
	rng := rand.New(rand.NewPCG(seed, 1919))
	n := tierN(tier, 160, 3000)
	for i := 0; i < n; i++ {
		var p seParams
		if rng.IntN(100) < 62 {
			p = seGenEvolve(rng)
		} else {
			p = seGenTwoNode(rng)
			p.Bus = i%2 == 0
		}
		if i%5 == 2 {
			p.Pad = 12
			if i%10 == 2 && len(p.Script) > 4 {
				// the collections arrive in the middle of the history
				p.PadLate = true
				at := len(p.Script) / 2
				p.Script = append(p.Script[:at:at], append([]seOp{{Kind: "pad"}}, p.Script[at:]...)...)
			}
		}
		cs = append(cs, core.MkCase(seKindOf(p), rng.Uint64(), p))
	}
	return cs
}

// ---------------------------------------------------------------------------------------
// execution

type seVersion struct {
	ID     string
	Fields []string // without _docID, sorted
}

type seDoc struct {
	ID      string
	Col     int
	Deleted bool
	Vals    map[string]any // one-node model: field -> value (counters: sum)
}

type seNode struct {
	n       *core.Node
	vers    [][]seVersion // [col] creation order
	active  []int         // [col] index into vers
	commits map[int]map[string]string
	known   map[int]bool
	tainted map[string]bool         // "doc/field": merged while the active version did not know the field
	foreign map[int]map[string]bool // doc -> schema version ids carried by merged commits
	stale   map[int]bool            // commit list could not be read at the previous step
	bus     *core.BusMerger         // set when commits are delivered through the event bus
}

type seRun struct {
	ctx                context.Context
	p                  seParams
	r                  *core.Rec
	nodes              []*seNode
	docs               []*seDoc
	fields             map[string]seField // by name (all collections; names are unique)
	log                []string
	stop               bool
	colIDs             []string
	nonLate            bool // a write happened under a non-latest active version
	switchAfterNonLate bool
	activeWrong        bool
	reportedUnreadable map[string]bool
	stepViolated       bool
	multiTouched       map[string]bool // "node/col": a patch of several collections made a new version of col the default
}

func (t *seRun) logf(f string, a ...any) { t.log = append(t.log, fmt.Sprintf(f, a...)) }

func (t *seRun) violate(sig, msg string) {
	t.stepViolated = true
	t.r.Violate(sig, msg, map[string]any{"params": t.p, "log": t.log})
}

// seCanon renders a JSON value canonically, numbers as float64 so that 1 and 1.0 agree.
func seCanon(v any) string {
	b, _ := json.Marshal(v)
	var x any
	dec := json.NewDecoder(strings.NewReader(string(b)))
	dec.UseNumber()
	_ = dec.Decode(&x)
	return seCanonNum(x)
}

func seCanonNum(x any) string {
	switch t := x.(type) {
	case json.Number:
		f, _ := t.Float64()
		return fmt.Sprintf("%v", f)
	case []any:
		var p []string
		for _, e := range t {
			p = append(p, seCanonNum(e))
		}
		return "[" + strings.Join(p, ",") + "]"
	case map[string]any:
		var ks []string
		for k := range t {
			ks = append(ks, k)
		}
		sort.Strings(ks)
		var p []string
		for _, k := range ks {
			p = append(p, fmt.Sprintf("%q:%s", k, seCanonNum(t[k])))
		}
		return "{" + strings.Join(p, ",") + "}"
	default:
		b, _ := json.Marshal(t)
		return string(b)
	}
}

func runSchemaEvolution(ctx context.Context, c core.Case, r *core.Rec) {
	var p seParams
	c.P(&p)
	t := &seRun{ctx: ctx, p: p, r: r, fields: map[string]seField{}, reportedUnreadable: map[string]bool{}, multiTouched: map[string]bool{}}
	for c := 0; c < p.Cols; c++ {
		for _, f := range seBase[c] {
			t.fields[f.Name] = f
		}
	}
	for i := 0; i < p.Nodes; i++ {
		n := core.NewNode(ctx, core.NodeOpts{})
		defer n.Close()
		_, err := n.DB.AddSchema(ctx, seSDL(p))
		core.Must(err)
		if p.Pad > 0 && !p.PadLate {
			_, err = n.DB.AddSchema(ctx, sePadSDL(p.Pad))
			core.Must(err)
		}
		sn := &seNode{n: n, commits: map[int]map[string]string{}, known: map[int]bool{}, tainted: map[string]bool{}, foreign: map[int]map[string]bool{}, stale: map[int]bool{}}
		for c := 0; c < p.Cols; c++ {
			sn.vers = append(sn.vers, nil)
			sn.active = append(sn.active, 0)
		}
		if p.Bus {
			sn.bus = core.NewBusMerger(n)
			defer sn.bus.Close()
		}
		t.nodes = append(t.nodes, sn)
		if !t.refreshVersions(i, "setup", -1) {
			return
		}
	}
	for c := 0; c < p.Cols; c++ {
		t.colIDs = append(t.colIDs, t.nodes[0].n.Col(ctx, seColNames[c]).Version().CollectionID)
	}
	for i, op := range p.Script {
		t.step(i, op)
		if t.stop {
			break
		}
	}
	if !t.stop && p.Nodes == 1 {
		t.tour()
	}
	if !t.stop && p.Nodes == 2 {
		t.agreement()
	}
	r.Count("histories", 1)
	if p.Pad > 0 {
		r.Count("histories_with_more_than_ten_collections", 1)
	}
	if p.Nodes == 2 {
		r.Count("two_node_histories", 1)
	}
	if t.nonLate && t.switchAfterNonLate {
		r.Count("nontrivial_histories", 1)
		r.Nontrivial(t.shape())
	}
	r.Sample(map[string]any{"kind": seKindOf(p), "params": p, "log": clipLog(t.log, 30)})
}

// shape: patch chain, switch sequence and write positions (hash-free).
func (t *seRun) shape() string {
	var parts []string
	for _, op := range t.p.Script {
		switch op.Kind {
		case "patch":
			var ps []string
			for _, pt := range op.parts() {
				ps = append(ps, fmt.Sprintf("%d:%s/%d", pt.Col, pt.Field.Kind, pt.Field.Typ))
			}
			parts = append(parts, fmt.Sprintf("P%d.%s/%v", op.Node, strings.Join(ps, "+"), op.SetDefault))
		case "switch":
			parts = append(parts, fmt.Sprintf("S%d.%d:%d", op.Node, op.Col, op.Ver))
		case "deliver":
			parts = append(parts, fmt.Sprintf("D%d>%d", op.Src, op.Node))
		default:
			parts = append(parts, fmt.Sprintf("%c%d", op.Kind[0], op.Node))
		}
	}
	return fmt.Sprintf("%v|%d|", t.p.Index, t.p.Cols) + strings.Join(parts, ",")
}

// refreshVersions reads the version set of every collection from the node, registers versions not
// seen before and checks the active flags. wantActive[col] is the version the harness expects to
// be active (index), -1 in `col` = all collections as recorded.
func (t *seRun) refreshVersions(ni int, after string, col int) bool {
	sn := t.nodes[ni]
	cols, err := sn.n.DB.GetCollections(t.ctx, client.CollectionFetchOptions{IncludeInactive: immutable.Some(true)})
	if err != nil {
		t.violate("versions/get-collections-error/after-"+after, fmt.Sprintf("n%d: GetCollections(IncludeInactive) failed: %v", ni, err))
		t.stop = true
		return false
	}
	activeIDs := make([][]string, t.p.Cols)
	for _, c := range cols {
		v := c.Version()
		ci := -1
		for k := 0; k < t.p.Cols; k++ {
			if seColNames[k] == v.Name {
				ci = k
			}
		}
		if ci < 0 {
			continue
		}
		known := false
		for _, kv := range sn.vers[ci] {
			if kv.ID == v.VersionID {
				known = true
			}
		}
		if !known {
			var fs []string
			for _, f := range c.Definition().GetFields() {
				if f.Name != "_docID" {
					fs = append(fs, f.Name)
				}
			}
			sort.Strings(fs)
			sn.vers[ci] = append(sn.vers[ci], seVersion{ID: v.VersionID, Fields: fs})
		}
		if v.IsActive {
			activeIDs[ci] = append(activeIDs[ci], v.VersionID)
		}
	}
	for ci := 0; ci < t.p.Cols; ci++ {
		if len(sn.vers[ci]) == 0 {
			panic("collection " + seColNames[ci] + " not found")
		}
		if after == "setup" {
			continue
		}
		if sn.active[ci] >= len(sn.vers[ci]) {
			t.violate("versions/patch-created-no-version", fmt.Sprintf("n%d: after %s collection %s has %d versions, the step should have created #%d", ni, after, seColNames[ci], len(sn.vers[ci]), sn.active[ci]))
			t.stop = true
			return false
		}
		want := sn.vers[ci][sn.active[ci]].ID
		if (len(activeIDs[ci]) != 1 || activeIDs[ci][0] != want) && !t.activeWrong {
			// reported once per history; the history continues so that the observable consequences
			// (queries under the requested version) are judged too
			t.activeWrong = true
			t.r.Count("evaluations", 1)
			t.violate(fmt.Sprintf("versions/active-set-wrong/after-%s/active-count=%d", after, len(activeIDs[ci])),
				fmt.Sprintf("n%d collection %s after %s: requested active version ..%s, versions flagged active: %v", ni, seColNames[ci], after, tailCid(want), tailsOf(activeIDs[ci])))
		}
	}
	return true
}

func tailsOf(l []string) []string {
	out := make([]string, len(l))
	for i, s := range l {
		out[i] = tailCid(s)
	}
	return out
}

func (t *seRun) activeFields(ni, col int) []string {
	sn := t.nodes[ni]
	return sn.vers[col][sn.active[col]].Fields
}

type seDump struct {
	rows map[string]map[string]any // docID -> row (showDeleted view)
	live map[string]bool
}

// dump reads collection col of node ni under its active version.
func (t *seRun) dump(ni, col int, after string) (*seDump, bool) {
	sn := t.nodes[ni]
	fs := t.activeFields(ni, col)
	q := fmt.Sprintf(`query { %s(showDeleted: true) { _docID _deleted %s } }`, seColNames[col], strings.Join(fs, " "))
	rows, err := sn.n.Rows(t.ctx, q, seColNames[col])
	t.r.Count("evaluations", 1)
	t.r.Count("dumps", 1)
	if err != nil {
		t.violate("dump/query-error-under-active-version/after-"+after, fmt.Sprintf("n%d: the dump of %s naming the fields %v of the active version failed after %s: %v", ni, seColNames[col], fs, after, err))
		t.stop = true
		return nil, false
	}
	d := &seDump{rows: map[string]map[string]any{}, live: map[string]bool{}}
	for _, row := range rows {
		id, _ := row["_docID"].(string)
		if _, dup := d.rows[id]; dup {
			t.violate("dump/document-returned-twice/after-"+after, fmt.Sprintf("n%d: %s returns document %s twice after %s", ni, seColNames[col], id, after))
		}
		d.rows[id] = row
	}
	lrows, err := sn.n.Rows(t.ctx, fmt.Sprintf(`query { %s { _docID } }`, seColNames[col]), seColNames[col])
	if err != nil {
		t.violate("dump/query-error-under-active-version/after-"+after, fmt.Sprintf("n%d: live query of %s failed after %s: %v", ni, seColNames[col], after, err))
		t.stop = true
		return nil, false
	}
	for _, row := range lrows {
		d.live[row["_docID"].(string)] = true
	}
	return d, true
}

// unknownVersions lists the schema versions carried by merged commits of document d that node ni
// does not have (it was never patched to them).
func (t *seRun) unknownVersions(ni, d int) []string {
	sn := t.nodes[ni]
	var out []string
	for id := range sn.foreign[d] {
		have := false
		for _, v := range sn.vers[t.docs[d].Col] {
			if v.ID == id {
				have = true
			}
		}
		if !have {
			out = append(out, id)
		}
	}
	sort.Strings(out)
	return out
}

// commitList returns cid -> canonical entry of document d's commits on node ni.
// skip = the list is unreadable for a reason already reported under a specific signature.
func (t *seRun) commitList(ni int, d int, after string) (out map[string]string, ok bool, skip bool) {
	docID := t.docs[d].ID
	rows, err := t.nodes[ni].n.Rows(t.ctx, fmt.Sprintf(`query { commits(docID: "%s") { cid height fieldName delta docID links { cid name } } }`, docID), "commits")
	if err != nil {
		if uv := t.unknownVersions(ni, d); len(uv) > 0 {
			key := fmt.Sprintf("%d/%d", ni, d)
			if t.reportedUnreadable[key] {
				return nil, false, true
			}
			t.reportedUnreadable[key] = true
			t.violate("commits/query-error/document-has-merged-commit-of-schema-version-unknown-to-node",
				fmt.Sprintf("n%d: commits(docID) of d%d fails after %s: %v. The node merged commits of this document written under schema version(s) %v, which it does not have; from then on the whole commit history of the document is unreadable on this node", ni, d, after, err, tailsOf(uv)))
			return nil, false, true
		}
		t.violate("commits/query-error/after-"+after, fmt.Sprintf("n%d: commits(docID) failed after %s: %v", ni, after, err))
		t.stop = true
		return nil, false, false
	}
	out = map[string]string{}
	for _, row := range rows {
		if ls, ok := row["links"].([]any); ok {
			sort.Slice(ls, func(a, b int) bool { return core.Canon(ls[a]) < core.Canon(ls[b]) })
		}
		out[row["cid"].(string)] = core.Canon(row)
	}
	return out, true, false
}

// checkCommits: append-only commit lists of every document the node holds (exact = no growth allowed).
func (t *seRun) checkCommits(ni int, after string, exact bool) {
	sn := t.nodes[ni]
	for d, doc := range t.docs {
		if !sn.known[d] {
			continue
		}
		_ = doc
		cur, ok, skip := t.commitList(ni, d, after)
		if skip {
			t.r.Count("commit_lists_unreadable_unknown_version", 1)
			sn.stale[d] = true // the stored list is older than the previous step
			continue
		}
		if !ok {
			return
		}
		t.r.Count("evaluations", 1)
		t.r.Count("commit_lists_compared", 1)
		prev := sn.commits[d]
		for cid, e := range prev {
			ce, ok := cur[cid]
			if !ok {
				t.violate("commits/entry-lost/after-"+after, fmt.Sprintf("n%d doc d%d: commit %s listed before %s is no longer listed (%d -> %d entries)", ni, d, tailCid(cid), after, len(prev), len(cur)))
				return
			}
			if ce != e {
				t.violate("commits/entry-changed/after-"+after, fmt.Sprintf("n%d doc d%d: commit %s changed after %s: before %s now %s", ni, d, tailCid(cid), after, e, ce))
				return
			}
		}
		wasStale := sn.stale[d]
		delete(sn.stale, d)
		if exact && !wasStale && prev != nil && len(cur) != len(prev) {
			t.violate("commits/grew-without-write/after-"+after, fmt.Sprintf("n%d doc d%d: %d commits before %s, %d after, although no document was written", ni, d, len(prev), after, len(cur)))
			return
		}
		sn.commits[d] = cur
	}
}

// checkModel compares the dump of every collection with the one-node model.
func (t *seRun) checkModel(after string) {
	if t.p.Nodes != 1 || t.stepViolated {
		return // (a step that already produced a violation is not reported a second time by the model)
	}
	for col := 0; col < t.p.Cols; col++ {
		d, ok := t.dump(0, col, after)
		if !ok {
			return
		}
		fs := t.activeFields(0, col)
		n := 0
		for di, doc := range t.docs {
			if doc.Col != col {
				continue
			}
			n++
			row, ok := d.rows[doc.ID]
			if !ok {
				t.violate("model/document-missing/after-"+after, fmt.Sprintf("document d%d (%s) is not returned by %s(showDeleted:true) under version #%d after %s", di, doc.ID, seColNames[col], t.nodes[0].active[col], after))
				return
			}
			if del, _ := row["_deleted"].(bool); del != doc.Deleted {
				t.violate("model/deleted-flag/after-"+after, fmt.Sprintf("document d%d: _deleted=%v, model says %v (after %s)", di, del, doc.Deleted, after))
				return
			}
			if d.live[doc.ID] == doc.Deleted {
				t.violate("model/live-set/after-"+after, fmt.Sprintf("document d%d: deleted=%v but returned by the plain query=%v (after %s)", di, doc.Deleted, d.live[doc.ID], after))
				return
			}
			for _, f := range fs {
				want, written := doc.Vals[f]
				got := row[f]
				if seCanon(got) != seCanon(want) {
					class := "added-field"
					for _, b := range seBase[col] {
						if b.Name == f {
							class = "base-field"
						}
					}
					if !written {
						class += "-never-written"
					}
					t.violate("model/value/"+class+"/after-"+after,
						fmt.Sprintf("document d%d field %s under version #%d after %s: got %s, model %s", di, f, t.nodes[0].active[col], after, seCanon(got), seCanon(want)))
					return
				}
				t.r.Count("field_values_compared", 1)
			}
		}
		if len(d.rows) != n {
			t.violate("model/unexpected-document/after-"+after, fmt.Sprintf("%s returns %d documents, %d were created (after %s)", seColNames[col], len(d.rows), n, after))
			return
		}
		if t.p.Index && col == 0 && contains(fs, "name") {
			t.checkIndex(after)
		}
	}
}

func containsInt(l []int, x int) bool {
	for _, e := range l {
		if e == x {
			return true
		}
	}
	return false
}

func contains(l []string, x string) bool {
	for _, e := range l {
		if e == x {
			return true
		}
	}
	return false
}

// checkIndex: an index-served equality query on the old indexed field agrees with the model.
func (t *seRun) checkIndex(after string) {
	vals := map[string]bool{}
	for _, doc := range t.docs {
		if doc.Col == 0 {
			if s, ok := doc.Vals["name"].(string); ok {
				vals[s] = true
			}
		}
	}
	var vs []string
	for v := range vals {
		vs = append(vs, v)
	}
	sort.Strings(vs)
	if len(vs) > 2 {
		vs = vs[:2]
	}
	for _, v := range vs {
		rows, err := t.nodes[0].n.Rows(t.ctx, fmt.Sprintf(`query { User(filter: {name: {_eq: %q}}) { _docID } }`, v), "User")
		if err != nil {
			t.violate("index/query-error/after-"+after, fmt.Sprintf("index-served query failed after %s: %v", after, err))
			return
		}
		var got, want []string
		for _, row := range rows {
			got = append(got, row["_docID"].(string))
		}
		for _, doc := range t.docs {
			if doc.Col == 0 && !doc.Deleted {
				if s, ok := doc.Vals["name"].(string); ok && s == v {
					want = append(want, doc.ID)
				}
			}
		}
		sort.Strings(got)
		sort.Strings(want)
		t.r.Count("evaluations", 1)
		t.r.Count("index_queries", 1)
		if strings.Join(got, ",") != strings.Join(want, ",") {
			t.violate("index/result-differs-from-model/after-"+after, fmt.Sprintf("User(filter:{name:{_eq:%q}}) returns %d documents, model says %d (after %s)", v, len(got), len(want), after))
			return
		}
	}
}

// schemaStep runs a patch or switch between two dumps and compares them on the common fields.
// cols = the collections the step names (a switch: one; a patch: one or several).
func (t *seRun) schemaStep(ni int, cols []int, kind string, f func() error) {
	sn := t.nodes[ni]
	col := cols[0]
	var names []string
	for _, c := range cols {
		names = append(names, seColNames[c])
	}
	before := make([]*seDump, t.p.Cols)
	beforeFields := make([][]string, t.p.Cols)
	for c := 0; c < t.p.Cols; c++ {
		d, ok := t.dump(ni, c, "write")
		if !ok {
			return
		}
		before[c], beforeFields[c] = d, t.activeFields(ni, c)
	}
	if err := f(); err != nil {
		t.r.Count("evaluations", 1)
		t.violate("schema-step/"+kind+"/error", fmt.Sprintf("n%d: %s on %s failed: %v", ni, kind, strings.Join(names, "+"), err))
		t.stop = true
		return
	}
	if !t.refreshVersions(ni, kind, col) {
		return
	}
	for c := 0; c < t.p.Cols; c++ {
		after, ok := t.dump(ni, c, kind)
		if !ok {
			return
		}
		t.r.Count("evaluations", 1)
		t.r.Count("before_after_comparisons", 1)
		afterFields := t.activeFields(ni, c)
		for id, brow := range before[c].rows {
			arow, ok := after.rows[id]
			if !ok {
				t.violate("schema-step/"+kind+"/document-lost", fmt.Sprintf("n%d: document %s of %s is no longer returned after %s", ni, id, seColNames[c], kind))
				return
			}
			if before[c].live[id] != after.live[id] || seCanon(brow["_deleted"]) != seCanon(arow["_deleted"]) {
				t.violate("schema-step/"+kind+"/deleted-status-changed", fmt.Sprintf("n%d: document %s changed its deleted status across %s", ni, id, kind))
				return
			}
			for _, fn := range beforeFields[c] {
				if !contains(afterFields, fn) {
					continue
				}
				if seCanon(brow[fn]) != seCanon(arow[fn]) {
					t.violate("schema-step/"+kind+"/value-changed", fmt.Sprintf("n%d: document %s field %s was %s before the %s and is %s after it", ni, id, fn, seCanon(brow[fn]), kind, seCanon(arow[fn])))
					return
				}
			}
			for _, fn := range afterFields {
				// a field the document never carried (it is new to every document right after its patch)
				if kind != "switch" && !contains(beforeFields[c], fn) && containsInt(cols, c) && arow[fn] != nil {
					t.violate("schema-step/patch/added-field-not-null", fmt.Sprintf("n%d: document %s reads %s for the field %s added by the patch", ni, id, seCanon(arow[fn]), fn))
					return
				}
			}
		}
		if len(after.rows) != len(before[c].rows) {
			t.violate("schema-step/"+kind+"/document-appeared", fmt.Sprintf("n%d: %s had %d documents before the %s and has %d after it", ni, seColNames[c], len(before[c].rows), kind, len(after.rows)))
			return
		}
	}
	t.checkCommits(ni, kind, true)
	_ = sn
}

func (t *seRun) step(i int, op seOp) {
	t.stepViolated = false
	sn := t.nodes[op.Node]
	name := seColNames[op.Col]
	nonLatest := func() bool { return sn.active[op.Col] != len(sn.vers[op.Col])-1 }
	switch op.Kind {
	case "pad":
		// further collections are added on every node; nothing about the existing ones may change
		for ni, n := range t.nodes {
			_, err := n.n.DB.AddSchema(t.ctx, sePadSDL(t.p.Pad))
			core.Must(err)
			t.logf("#%d pad n%d: %d collections added", i, ni, t.p.Pad)
			for c := 0; c < t.p.Cols; c++ {
				if _, ok := t.dump(ni, c, "pad"); !ok {
					return
				}
			}
			t.checkCommits(ni, "pad", false)
		}
		t.checkModel("pad")
		t.r.Count("collections_added_in_mid_history", 1)
		return
	case "patch":
		parts := op.parts()
		if len(parts) == 0 {
			panic("script: patch without field")
		}
		touched := seTouched(parts)
		kind := "patch"
		if len(touched) > 1 {
			kind = "multipatch" // ONE PatchSchema call naming several collections
		}
		var ops []string
		perCol := map[int]int{}
		for _, pt := range parts {
			f := pt.Field
			t.fields[f.Name] = f
			val := fmt.Sprintf(`{"Name":%q,"Kind":%q}`, f.Name, f.Kind)
			if f.Typ != 0 {
				val = fmt.Sprintf(`{"Name":%q,"Kind":%q,"Typ":%d}`, f.Name, f.Kind, f.Typ)
			}
			ops = append(ops, fmt.Sprintf(`{"op":"add","path":"/%s/Fields/-","value":%s}`, seColNames[pt.Col], val))
			perCol[pt.Col]++
		}
		patch := "[" + strings.Join(ops, ",") + "]"
		nvs := make([]int, t.p.Cols)
		prevActive := append([]int{}, sn.active...)
		onNonLatest := false
		var pos []string
		for c := 0; c < t.p.Cols; c++ {
			nvs[c] = len(sn.vers[c])
			if containsInt(touched, c) {
				pos = append(pos, fmt.Sprintf("%s active #%d of %d", seColNames[c], sn.active[c], nvs[c]))
				if sn.active[c] != nvs[c]-1 {
					onNonLatest = true
				}
			}
		}
		t.logf("#%d n%d %s %s setDefault=%v (%s)", i, op.Node, kind, patch, op.SetDefault, strings.Join(pos, "; "))
		t.schemaStep(op.Node, touched, kind, func() error {
			err := sn.n.DB.PatchSchema(t.ctx, patch, immutable.None[model.Lens](), op.SetDefault)
			if err == nil && op.SetDefault {
				for _, c := range touched {
					sn.active[c] = nvs[c] // the version the patch creates is registered by refreshVersions
				}
			}
			return err
		})
		if t.stop {
			return
		}
		for c := 0; c < t.p.Cols; c++ {
			if !containsInt(touched, c) {
				if len(sn.vers[c]) != nvs[c] {
					t.violate("versions/patch-created-version-of-collection-it-does-not-name", fmt.Sprintf("n%d: the %s %s left %d versions of %s (was %d)", op.Node, kind, patch, len(sn.vers[c]), seColNames[c], nvs[c]))
					t.stop = true
					return
				}
				continue
			}
			if len(sn.vers[c]) != nvs[c]+1 {
				t.violate("versions/patch-created-no-version", fmt.Sprintf("n%d: the %s left %d versions of %s (was %d)", op.Node, kind, len(sn.vers[c]), seColNames[c], nvs[c]))
				t.stop = true
				return
			}
			// the new version = the version patched + the fields added to this collection
			want := append([]string{}, sn.vers[c][prevActive[c]].Fields...)
			for _, pt := range parts {
				if pt.Col == c {
					want = append(want, pt.Field.Name)
				}
			}
			sort.Strings(want)
			if strings.Join(want, ",") != strings.Join(sn.vers[c][nvs[c]].Fields, ",") {
				t.violate("versions/patch-field-set", fmt.Sprintf("n%d: the patched version of %s has fields %v, expected %v", op.Node, seColNames[c], sn.vers[c][nvs[c]].Fields, want))
				t.stop = true
				return
			}
		}
		t.r.Count("patches", 1)
		for _, pt := range parts {
			t.r.Count("patch_kind_"+strings.NewReplacer("[", "arr", "]", "", "!", "nn").Replace(pt.Field.Kind)+fmt.Sprintf("_typ%d", pt.Field.Typ), 1)
		}
		if !op.SetDefault {
			t.r.Count("patches_not_default", 1)
		}
		if onNonLatest {
			t.r.Count("patches_on_nonlatest_version", 1)
		}
		if len(touched) > 1 {
			t.r.Count("patches_touching_several_collections", 1)
			if op.SetDefault {
				t.r.Count("multi_patches_set_default", 1)
			} else {
				t.r.Count("multi_patches_not_default", 1)
			}
			if onNonLatest {
				t.r.Count("multi_patches_on_nonlatest_version", 1)
			}
			if len(touched) > 2 {
				t.r.Count("multi_patches_three_collections", 1)
			}
			for _, k := range perCol {
				if k > 1 {
					t.r.Count("multi_patches_two_fields_in_one_collection", 1)
					break
				}
			}
			if t.p.Nodes > 1 {
				t.r.Count("multi_patches_two_node", 1)
			}
			docsIn := 0
			for _, c := range touched {
				for d, doc := range t.docs {
					if doc.Col == c && sn.known[d] {
						docsIn++
						break
					}
				}
			}
			if docsIn == len(touched) {
				t.r.Count("multi_patches_with_documents_in_every_patched_collection", 1)
			}
			for _, c := range touched {
				if op.SetDefault {
					t.multiTouched[fmt.Sprintf("%d/%d", op.Node, c)] = true
				}
			}
		}
		t.checkModel(kind)
	case "switch":
		if op.Ver >= len(sn.vers[op.Col]) {
			panic("script: switch to unknown version")
		}
		t.logf("#%d n%d switch %s #%d -> #%d (..%s)", i, op.Node, name, sn.active[op.Col], op.Ver, tailCid(sn.vers[op.Col][op.Ver].ID))
		if op.Ver == 0 {
			t.r.Count("switches_to_root", 1)
		}
		if t.nonLate {
			t.switchAfterNonLate = true
		}
		t.schemaStep(op.Node, []int{op.Col}, "switch", func() error {
			err := sn.n.DB.SetActiveSchemaVersion(t.ctx, sn.vers[op.Col][op.Ver].ID)
			if err == nil {
				sn.active[op.Col] = op.Ver
			}
			return err
		})
		if t.stop {
			return
		}
		t.r.Count("switches", 1)
		t.checkModel("switch")
	case "create":
		col, err := sn.n.DB.GetCollectionByName(t.ctx, name)
		if err != nil {
			t.violate("write/get-collection-error", fmt.Sprintf("n%d: GetCollectionByName(%s) failed: %v", op.Node, name, err))
			t.stop = true
			return
		}
		b, _ := json.Marshal(op.W)
		doc, err := client.NewDocFromJSON(b, col.Definition())
		if err != nil {
			t.logf("#%d create: %v", i, err)
			t.violate("write/create-rejected-under-active-version", fmt.Sprintf("n%d: a document naming only fields of the active version #%d (%v) is rejected: %v", op.Node, sn.active[op.Col], core.Canon(op.W), err))
			t.stop = true
			return
		}
		if err := col.Create(t.ctx, doc); err != nil {
			t.violate("write/create-failed-under-active-version", fmt.Sprintf("n%d: create %s under version #%d failed: %v", op.Node, core.Canon(op.W), sn.active[op.Col], err))
			t.stop = true
			return
		}
		if op.Doc != len(t.docs) {
			panic("script: documents must be created in index order")
		}
		d := &seDoc{ID: doc.ID().String(), Col: op.Col, Vals: map[string]any{}}
		for f, v := range op.W {
			d.Vals[f] = v
		}
		if _, ok := op.W["tag"]; !ok && op.Col == 0 {
			// default declared in the SDL; the client document carries it iff the definition still has it
			if v, err := doc.Get("tag"); err == nil && v != nil {
				d.Vals["tag"] = v
			}
		}
		t.docs = append(t.docs, d)
		sn.known[op.Doc] = true
		t.logf("#%d n%d create d%d under #%d %s", i, op.Node, op.Doc, sn.active[op.Col], core.Canon(op.W))
		t.afterWrite(op, nonLatest())
	case "update":
		col, err := sn.n.DB.GetCollectionByName(t.ctx, name)
		if err != nil {
			t.violate("write/get-collection-error", fmt.Sprintf("n%d: GetCollectionByName(%s) failed: %v", op.Node, name, err))
			t.stop = true
			return
		}
		id, _ := client.NewDocIDFromString(t.docs[op.Doc].ID)
		d, err := col.Get(t.ctx, id, false)
		if err != nil {
			t.violate("write/get-failed-under-active-version", fmt.Sprintf("n%d: Get of live document d%d under version #%d failed: %v", op.Node, op.Doc, sn.active[op.Col], err))
			t.stop = true
			return
		}
		b, _ := json.Marshal(op.W)
		if err := d.SetWithJSON(b); err != nil {
			t.violate("write/update-rejected-under-active-version", fmt.Sprintf("n%d: update %s naming only fields of the active version is rejected: %v", op.Node, core.Canon(op.W), err))
			t.stop = true
			return
		}
		if err := col.Update(t.ctx, d); err != nil {
			t.violate("write/update-failed-under-active-version", fmt.Sprintf("n%d: update of d%d %s under version #%d failed: %v", op.Node, op.Doc, core.Canon(op.W), sn.active[op.Col], err))
			t.stop = true
			return
		}
		md := t.docs[op.Doc]
		for f, v := range op.W {
			if t.fields[f].Typ != 0 {
				cur, _ := ttNum(md.Vals[f])
				inc, _ := ttNum(v)
				md.Vals[f] = cur + inc
			} else {
				md.Vals[f] = v
			}
		}
		t.logf("#%d n%d update d%d under #%d %s", i, op.Node, op.Doc, sn.active[op.Col], core.Canon(op.W))
		t.afterWrite(op, nonLatest())
	case "delete":
		col, err := sn.n.DB.GetCollectionByName(t.ctx, name)
		if err != nil {
			t.violate("write/get-collection-error", fmt.Sprintf("n%d: GetCollectionByName(%s) failed: %v", op.Node, name, err))
			t.stop = true
			return
		}
		id, _ := client.NewDocIDFromString(t.docs[op.Doc].ID)
		if _, err := col.Delete(t.ctx, id); err != nil {
			t.violate("write/delete-failed-under-active-version", fmt.Sprintf("n%d: delete of live document d%d under version #%d failed: %v", op.Node, op.Doc, sn.active[op.Col], err))
			t.stop = true
			return
		}
		t.docs[op.Doc].Deleted = true
		t.logf("#%d n%d delete d%d under #%d", i, op.Node, op.Doc, sn.active[op.Col])
		t.afterWrite(op, nonLatest())
	case "deliver":
		t.deliver(i, op)
	}
}

func (t *seRun) afterWrite(op seOp, nonLatest bool) {
	t.r.Count("writes", 1)
	if t.multiTouched[fmt.Sprintf("%d/%d", op.Node, op.Col)] {
		t.r.Count("writes_after_multi_patch_made_default", 1)
	}
	if nonLatest {
		t.r.Count("writes_under_nonlatest_version", 1)
		t.nonLate = true
	}
	t.checkModel("write")
	if !t.stop && t.p.Nodes > 1 {
		t.dump(op.Node, op.Col, "write")
	}
	if !t.stop {
		t.checkCommits(op.Node, "write", false)
	}
}

func (t *seRun) deliver(i int, op seOp) {
	src, dst := t.nodes[op.Src], t.nodes[op.Node]
	doc := t.docs[op.Doc]
	known := t.activeFields(op.Node, op.Col)
	for _, h := range src.n.CompositeHeads(t.ctx, doc.ID) {
		// which fields does the closure carry that the receiver's active version does not know?
		unknown := map[string]bool{}
		seen := map[string]bool{}
		var walk func(c string)
		walk = func(c string) {
			if seen[c] {
				return
			}
			seen[c] = true
			blk := src.n.MustBlock(t.ctx, core.ParseCid(c))
			if dst.foreign[op.Doc] == nil {
				dst.foreign[op.Doc] = map[string]bool{}
			}
			dst.foreign[op.Doc][blk.Delta.GetSchemaVersionID()] = true
			for _, l := range blk.Links {
				if !contains(known, l.Name) {
					// only counts when the receiver has not merged that commit already
					if _, _, err := dst.n.GetBlock(t.ctx, core.ParseCid(c)); err != nil {
						unknown[l.Name] = true
					}
				}
			}
			for _, p := range blk.Heads {
				walk(p.Cid.String())
			}
		}
		walk(h)
		core.CopyClosure(t.ctx, src.n, dst.n, core.ParseCid(h))
		var err error
		if dst.bus != nil {
			err = dst.bus.Merge(t.ctx, doc.ID, core.ParseCid(h), t.colIDs[op.Col], 20*time.Second)
			t.r.Count("merges_through_the_event_bus", 1)
		} else {
			err = dst.n.Merge(t.ctx, doc.ID, core.ParseCid(h), t.colIDs[op.Col])
		}
		t.r.Count("evaluations", 1)
		t.r.Count("merges", 1)
		var uk []string
		for f := range unknown {
			uk = append(uk, f)
			dst.tainted[fmt.Sprintf("%d/%s", op.Doc, f)] = true
		}
		sort.Strings(uk)
		if len(uk) > 0 {
			t.r.Count("merge_with_field_unknown_to_receiver", 1)
		}
		if dst.active[op.Col] != src.active[op.Col] || dst.vers[op.Col][dst.active[op.Col]].ID != src.vers[op.Col][src.active[op.Col]].ID {
			t.r.Count("merges_between_different_versions", 1)
		}
		t.logf("#%d deliver d%d n%d(#%d)->n%d(#%d) %s unknown-to-receiver=%v err=%v", i, op.Doc, op.Src, src.active[op.Col], op.Node, dst.active[op.Col], tailCid(h), uk, err)
		if err != nil {
			sig := "merge/error"
			if len(uk) > 0 {
				sig = "merge/error/commit-carries-field-unknown-to-receiver"
			}
			t.violate(sig, fmt.Sprintf("n%d (version #%d) failed to merge commit %s of d%d from n%d (version #%d): %v", op.Node, dst.active[op.Col], tailCid(h), op.Doc, op.Src, src.active[op.Col], err))
			t.stop = true
			return
		}
	}
	dst.known[op.Doc] = true
	if _, ok := t.dump(op.Node, op.Col, "merge"); !ok {
		return
	}
	t.checkCommits(op.Node, "merge", false)
}

// tour: switch to every version in turn and compare with the model (documents written under any
// version remain queryable under the active one).
func (t *seRun) tour() {
	sn := t.nodes[0]
	for col := 0; col < t.p.Cols; col++ {
		if len(sn.vers[col]) < 2 {
			continue
		}
		order := []int{}
		for v := range sn.vers[col] {
			order = append(order, v)
		}
		// end on the root version, then forward to the latest again
		order = append(order, 0, len(sn.vers[col])-1)
		for _, v := range order {
			if v == sn.active[col] {
				continue
			}
			t.step(-1, seOp{Kind: "switch", Col: col, Ver: v})
			if t.stop {
				return
			}
			t.r.Count("tour_switches", 1)
		}
	}
}

// agreement: after the full exchange the two nodes agree on every field both active versions know.
func (t *seRun) agreement() {
	for col := 0; col < t.p.Cols; col++ {
		if !t.agreementCol(col) {
			return
		}
	}
}

func (t *seRun) agreementCol(col int) bool {
	a, ok := t.dump(0, col, "exchange")
	if !ok {
		return false
	}
	b, ok := t.dump(1, col, "exchange")
	if !ok {
		return false
	}
	fa, fb := t.activeFields(0, col), t.activeFields(1, col)
	var common []string
	for _, f := range fa {
		if contains(fb, f) {
			common = append(common, f)
		}
	}
	t.r.Count("evaluations", 1)
	t.r.Count("agreement_checks", 1)
	if len(fa) != len(common) || len(fb) != len(common) {
		t.r.Count("agreement_checks_between_different_versions", 1)
	}
	if t.multiTouched[fmt.Sprintf("0/%d", col)] || t.multiTouched[fmt.Sprintf("1/%d", col)] {
		t.r.Count("agreement_checks_after_multi_patch", 1)
	}
	for di, doc := range t.docs {
		if doc.Col != col {
			continue
		}
		ra, oka := a.rows[doc.ID]
		rb, okb := b.rows[doc.ID]
		if !t.nodes[0].known[di] || !t.nodes[1].known[di] {
			continue
		}
		if !oka || !okb {
			t.violate("two-node/document-missing-after-exchange", fmt.Sprintf("d%d: returned by n0=%v n1=%v after both merged all its commits", di, oka, okb))
			return false
		}
		if seCanon(ra["_deleted"]) != seCanon(rb["_deleted"]) {
			t.violate("two-node/deleted-status-disagreement", fmt.Sprintf("d%d: _deleted n0=%v n1=%v after the exchange", di, ra["_deleted"], rb["_deleted"]))
			return false
		}
		for _, f := range common {
			key := fmt.Sprintf("%d/%s", di, f)
			if t.nodes[0].tainted[key] || t.nodes[1].tainted[key] {
				// One node merged a commit carrying this field while its active version did not know the
				// field (the merge skips unknown fields) and learned the field afterwards. The statement
				// demands agreement "on every field both know" - both know it now. Judged under a
				// signature of its own (one root cause: nothing re-applies the skipped field blocks).
				t.r.Count("fields_merged_while_unknown_then_learned", 1)
				if seCanon(ra[f]) != seCanon(rb[f]) {
					t.violate("two-node/field-merged-before-the-receiver-knew-it/value-lost-after-the-receiver-learned-the-field",
						fmt.Sprintf("d%d (%s) field %s: n0 (version #%d) reads %s, n1 (version #%d) reads %s after exchanging all commits; both active versions know the field now, but one node merged the commit that wrote it while its active version did not know the field yet",
							di, seColNames[col], f, t.nodes[0].active[col], seCanon(ra[f]), t.nodes[1].active[col], seCanon(rb[f])))
					return false
				}
				continue
			}
			t.r.Count("common_fields_compared", 1)
			if seCanon(ra[f]) != seCanon(rb[f]) {
				t.violate("two-node/common-field-disagreement", fmt.Sprintf("d%d (%s) field %s: n0 (version #%d) reads %s, n1 (version #%d) reads %s after exchanging all commits; both active versions know the field and both knew it whenever they merged a commit carrying it",
					di, seColNames[col], f, t.nodes[0].active[col], seCanon(ra[f]), t.nodes[1].active[col], seCanon(rb[f])))
				return false
			}
		}
	}
	return true
}

func init() {
	core.Register(&core.Check{
		ID: "C19", Level: "exploration",
		Rule: "6 anchor histories + generated scripted histories. evolve: one node, 1-3 collections, 3-7 documents, up to 4 PatchSchema calls, each adding one field to one collection or 2-4 fields to two or three collections at once (String, Int, Float, Boolean, DateTime, JSON, Blob, [Int!], [String], " +
			"pncounter Int/Float, pcounter; setAsDefaultVersion true/false; also on top of a non-latest version), SetActiveSchemaVersion back and forth incl. to the root, creates/updates/deletes under whatever version is active, " +
			"optional secondary index on an old field, final tour over all versions. two-node: 1-3 collections, nodes patched at different times / differently / one only (single- and multi-collection patches), version switches, writes, exchange by block-closure copy + merge (half of the two-node histories through hook H1, half by publishing event.Merge on the receiver's bus and awaiting MergeComplete: the database's own message handler). " +
			"non-trivial = >=1 write under a non-latest active version and >=1 switch after it; distinct by (index, collections, sequence of patches/switches/write positions).",
		Cases: seCases,
		Run:   runSchemaEvolution,
		Floors: []string{"dumps", "patches", "patches_not_default", "switches", "switches_to_root", "writes_under_nonlatest_version", "before_after_comparisons", "commit_lists_compared", "two_node_histories", "merge_with_field_unknown_to_receiver", "merges_between_different_versions", "agreement_checks_between_different_versions", "common_fields_compared", "index_queries", "nontrivial_histories",
			"patches_touching_several_collections", "multi_patches_set_default", "multi_patches_not_default", "multi_patches_on_nonlatest_version", "multi_patches_three_collections",
			"multi_patches_two_fields_in_one_collection", "multi_patches_two_node", "multi_patches_with_documents_in_every_patched_collection", "writes_after_multi_patch_made_default", "agreement_checks_after_multi_patch", "merges_through_the_event_bus", "histories_with_more_than_ten_collections", "collections_added_in_mid_history"},
		CaseTimeout: 10 * time.Minute,
		Assumptions: []string{
			"PatchSchema cannot declare a default value for an added field (SchemaFieldDescription has Name/Kind/Typ only, unknown properties are rejected): added fields are expected to read null for documents that never wrote them; a default declared in the SDL (tag) is modelled from the client document",
			"a field of a document that a node merged while its active version did not know the field is compared like every other field once both active versions know it; a disagreement there has its own signature (recorded known finding: the skipped field blocks are never re-applied)",
			"delivery = copy of the ancestor+link closure then executeMerge via hook H1",
		},
	})
}
