// Package qgen holds the document / index / query generators and the result comparators that
// the twin checks (C07, C17 end-to-end; reusable by C08/C09) share.
//
// One fixed multi-kind schema (collection U with a relation to G), small value domains so that
// ties, duplicates and nulls are the common case, and an edge-value mode for C17.
package qgen

import (
	"encoding/json"
	"fmt"
	"math"
	"math/rand/v2"
	"sort"
	"strconv"
	"strings"
	"time"
)

// Kind of a field of the fixed schema.
type Kind string

const (
	KInt     Kind = "int"
	KFloat   Kind = "float"
	KFloat32 Kind = "float32"
	KBool    Kind = "bool"
	KString  Kind = "string"
	KTime    Kind = "time"
	KJSON    Kind = "json"
	KIntArr  Kind = "intarr"   // [Int]  (nillable elements)
	KIntArrN Kind = "intarrnn" // [Int!]
	KStrArrN Kind = "strarrnn" // [String!]
	KBlob    Kind = "blob"
	KRel     Kind = "rel" // g: G   (filter / index through g_id)
)

// Field of collection U.
type Field struct {
	Name string
	Kind Kind
	GQL  string // GraphQL type
}

// Fields of collection U in declaration order. k is a unique sequence number that is never
// updated and never null: it is the total-order key.
var Fields = []Field{
	{"k", KInt, "Int"},
	{"i", KInt, "Int"},
	{"d", KInt, "Int"},
	{"s", KString, "String"},
	{"f", KFloat, "Float"},
	{"f32", KFloat32, "Float32"},
	{"b", KBool, "Boolean"},
	{"t", KTime, "DateTime"},
	{"j", KJSON, "JSON"},
	{"ai", KIntArr, "[Int]"},
	{"an", KIntArrN, "[Int!]"},
	{"as", KStrArrN, "[String!]"},
	{"bl", KBlob, "Blob"},
	{"u", KInt, "Int"},
	{"g", KRel, "G"},
}

func FieldByName(n string) Field {
	if n == "g_id" {
		n = "g"
	}
	for _, f := range Fields {
		if f.Name == n {
			return f
		}
	}
	panic("qgen: unknown field " + n)
}

// StoreName is the name under which a field appears in documents, filters and selections.
func (f Field) StoreName() string {
	if f.Kind == KRel {
		return f.Name + "_id"
	}
	return f.Name
}

func (k Kind) IsArray() bool   { return k == KIntArr || k == KIntArrN || k == KStrArrN }
func (k Kind) Orderable() bool { return !k.IsArray() && k != KJSON && k != KRel && k != KBlob }

// IndexField / IndexSpec describe one secondary index.
type IndexField struct {
	Name string `json:"name"`
	Desc bool   `json:"desc,omitempty"`
}

type IndexSpec struct {
	Fields []IndexField `json:"fields"`
	Unique bool         `json:"unique,omitempty"`
}

func (s IndexSpec) String() string {
	var p []string
	for _, f := range s.Fields {
		d := "ASC"
		if f.Desc {
			d = "DESC"
		}
		p = append(p, f.Name+":"+d)
	}
	u := ""
	if s.Unique {
		u = "unique "
	}
	return u + "(" + strings.Join(p, ",") + ")"
}

// Class is the coverage class of an index: single/<kind>[/desc], composite-N, unique…
func (s IndexSpec) Class() string {
	c := ""
	if s.Unique {
		c = "unique-"
	}
	if len(s.Fields) == 1 {
		c += "single/" + string(FieldByName(s.Fields[0].Name).Kind)
		if s.Fields[0].Desc {
			c += "/desc"
		}
		return c
	}
	mixed := false
	for _, f := range s.Fields {
		if f.Desc != s.Fields[0].Desc {
			mixed = true
		}
	}
	c += fmt.Sprintf("composite-%d", len(s.Fields))
	if mixed {
		c += "/mixed"
	} else if s.Fields[0].Desc {
		c += "/desc"
	}
	return c
}

func (s IndexSpec) Has(field string) bool {
	for _, f := range s.Fields {
		if f.Name == field {
			return true
		}
	}
	return false
}

// SDL renders the schema; specs (possibly none) are rendered as @index directives: single-field
// indexes on the field, composite ones on the type.
func SDL(specs []IndexSpec) string {
	typeDir := ""
	fieldDir := map[string]string{}
	for _, s := range specs {
		if len(s.Fields) == 1 {
			var args []string
			if s.Unique {
				args = append(args, "unique: true")
			}
			if s.Fields[0].Desc {
				args = append(args, "direction: DESC")
			}
			d := " @index"
			if len(args) > 0 {
				d += "(" + strings.Join(args, ", ") + ")"
			}
			fieldDir[s.Fields[0].Name] += d
			continue
		}
		var inc []string
		for _, f := range s.Fields {
			n := f.Name
			if FieldByName(n).Kind == KRel {
				n = "g"
			}
			if f.Desc {
				inc = append(inc, fmt.Sprintf(`{field: "%s", direction: DESC}`, n))
			} else {
				inc = append(inc, fmt.Sprintf(`{field: "%s"}`, n))
			}
		}
		u := ""
		if s.Unique {
			u = "unique: true, "
		}
		typeDir += fmt.Sprintf(" @index(%sincludes: [%s])", u, strings.Join(inc, ", "))
	}
	var sb strings.Builder
	fmt.Fprintf(&sb, "type U%s {\n", typeDir)
	for _, f := range Fields {
		fmt.Fprintf(&sb, "\t%s: %s%s\n", f.Name, f.GQL, fieldDir[f.Name])
	}
	sb.WriteString("}\ntype G {\n\tname: String\n\tmembers: [U]\n}\n")
	return sb.String()
}

// Selection is the selection set used by the twin queries (every scalar field).
func Selection(showDeleted bool) string {
	var p []string
	p = append(p, "_docID")
	if showDeleted {
		p = append(p, "_deleted")
	}
	for _, f := range Fields {
		p = append(p, f.StoreName())
	}
	return strings.Join(p, " ")
}

// ---------------------------------------------------------------------------------------
// value domains

var smallDomains = map[string][]any{
	"i":   {nil, -2, -1, 0, 1, 2, 3},
	"d":   {nil, -2, -1, 0, 1, 2, 3},
	"s":   {nil, "", "a", "ab", "b", "B", "%", "a_c"},
	"f":   {nil, -1.5, 0.0, 0.5, 2.0},
	"f32": {nil, -1.5, 0.0, 0.5, 2.0},
	"b":   {nil, true, false},
	"t": {nil, "2020-01-02T03:04:05Z", "2020-01-02T03:04:05.000000001Z", "1969-12-31T23:59:59Z",
		"2021-06-07T08:09:10.123456789Z"},
	"j": {nil, 1, 2.5, "x", true, map[string]any{"a": 1}, map[string]any{"a": 2, "b": "x"}, map[string]any{"a": nil},
		[]any{1, 2}, map[string]any{"arr": []any{1, "x"}}, map[string]any{"a": "x"}},
	"ai": {nil, []any{}, []any{1}, []any{1, 2}, []any{2, nil}, []any{1, 1}, []any{3}},
	"an": {nil, []any{}, []any{1}, []any{2, 3}, []any{1, 1, 2}},
	"as": {nil, []any{}, []any{"a"}, []any{"a", "b"}, []any{""}},
	"bl": {nil, "00", "00ff", "ab"},
	"k":  {0, 1, 2, 3, 4, 5, 6, 8, 10, 12},
	"u":  {nil, 0, 1, 2, 3, 4, 5, 6, 8, 10, 12},
}

// edge domains (C17 end-to-end): values at encoding boundaries.
var edgeDomains = map[string][]any{
	"i": {nil, int64(math.MinInt64), int64(math.MinInt64 + 1), int64(-1 << 32), int64(-1<<32 - 1), int64(math.MinInt32), int64(-16777217), int64(-16777216), int64(-65537), int64(-65536), int64(-257), int64(-256), int64(-255), -1, 0, 1,
		109, 110, 255, 256, 65535, 65536, 16777215, 16777216, int64(math.MaxInt32), int64(1 << 32), int64(1<<56 - 1), int64(1 << 56), int64(math.MaxInt64 - 1), int64(math.MaxInt64)},
	"f": {nil, -math.MaxFloat64, -1e300, -1.0, -math.SmallestNonzeroFloat64, math.Copysign(0, -1), 0.0, math.SmallestNonzeroFloat64, 2.2250738585072014e-308, 1e-300, 1.0,
		1.0000000000000002, 1e300, math.MaxFloat64},
	"f32": {nil, -float64(math.MaxFloat32), -1.0, -float64(math.SmallestNonzeroFloat32), math.Copysign(0, -1), 0.0, float64(math.SmallestNonzeroFloat32), 1.0, float64(math.MaxFloat32)},
	"s":   {nil, "", "\x00", "\x00\x00", "a", "a\x00", "a\x00b", "a\x01", "ab", "a/b", "/", "ÿ", "aÿ", "￿", "\x7f"},
	"t": {nil, "1970-01-01T00:00:00Z", "1969-12-31T23:59:59.999999999Z", "1970-01-01T00:00:00.000000001Z", "0001-01-01T00:00:00.000000001Z", "1999-12-31T23:59:59.999999999Z",
		"2000-01-01T00:00:00Z", "9999-12-31T23:59:59.999999999Z", "1677-09-21T00:12:43.145224192Z", "2262-04-11T23:47:16.854775807Z", "1901-12-13T20:45:52Z"},
	"j": {nil, 0, -1, 1e300, -1e-300, "", "\x00", "a", "a\x00", true, false, map[string]any{"a": math.Copysign(0, -1)}, map[string]any{"a": ""}, map[string]any{"a": -5e-324},
		map[string]any{"a": math.MaxFloat64}},
	"bl": {nil, "00", "0000", "00ff", "ff", "ff00", "01"},
}

// EdgeJSONNumbers are the numbers used under {"a": …} in the edge JSON documents.
var EdgeJSONNumbers = []any{0.0, math.Copysign(0, -1), 1.0, -1.0, 5e-324, -5e-324, math.MaxFloat64, -math.MaxFloat64, 255.0, 256.0, 1e300, -1e-300, 2.5}

// Domain returns the value domain of a field.
func Domain(field string, edge bool) []any {
	if field == "d" && edge {
		return edgeDomains["i"]
	}
	if edge {
		if d, ok := edgeDomains[field]; ok {
			return d
		}
	}
	return smallDomains[field]
}

// GenDoc draws a document (without k, u, g_id which the caller controls). Fields are present
// with probability 3/4 (an absent field reads as null, like an explicit null).
func GenDoc(rng *rand.Rand, edge bool) map[string]any {
	m := map[string]any{}
	for _, f := range Fields {
		switch f.Name {
		case "k", "u", "g":
			continue
		}
		if rng.IntN(4) == 0 {
			continue
		}
		d := Domain(f.Name, edge)
		m[f.Name] = d[rng.IntN(len(d))]
	}
	return m
}

// ---------------------------------------------------------------------------------------
// GraphQL literals

// Lit renders a Go value as a GraphQL literal (object keys unquoted).
func Lit(v any) string {
	switch x := v.(type) {
	case nil:
		return "null"
	case bool:
		return strconv.FormatBool(x)
	case int:
		return strconv.Itoa(x)
	case int64:
		return strconv.FormatInt(x, 10)
	case float64:
		return fmtFloat(x)
	case float32:
		return fmtFloat(float64(x))
	case json.Number:
		return x.String()
	case string:
		return quote(x)
	case []any:
		p := make([]string, len(x))
		for i, e := range x {
			p[i] = Lit(e)
		}
		return "[" + strings.Join(p, ", ") + "]"
	case map[string]any:
		ks := make([]string, 0, len(x))
		for k := range x {
			ks = append(ks, k)
		}
		sort.Strings(ks)
		p := make([]string, len(ks))
		for i, k := range ks {
			p[i] = k + ": " + Lit(x[k])
		}
		return "{" + strings.Join(p, ", ") + "}"
	}
	panic(fmt.Sprintf("qgen.Lit: unsupported %T", v))
}

func fmtFloat(f float64) string {
	if f == 0 && math.Signbit(f) {
		return "-0.0"
	}
	s := strconv.FormatFloat(f, 'g', -1, 64)
	if !strings.ContainsAny(s, ".eE") {
		s += ".0"
	}
	return s
}

func quote(s string) string {
	var sb strings.Builder
	sb.WriteByte('"')
	for _, r := range s {
		switch {
		case r == '"':
			sb.WriteString(`\"`)
		case r == '\\':
			sb.WriteString(`\\`)
		case r < 0x20 || r == 0x7f:
			fmt.Fprintf(&sb, `\u%04x`, r)
		default:
			sb.WriteRune(r)
		}
	}
	sb.WriteByte('"')
	return sb.String()
}

// InputLit renders a document map as GraphQL input object.
func InputLit(m map[string]any) string { return Lit(m) }

// ---------------------------------------------------------------------------------------
// filters

// Filter is a filter tree. Op: "_and" | "_or" | "_not" | "leaf" | "multi" (implicit and: several
// leaves in one object).
type Filter struct {
	Op    string    `json:"op"`
	Sub   []*Filter `json:"sub,omitempty"`
	Field string    `json:"field,omitempty"` // store name (g_id for the relation id)
	Path  []string  `json:"path,omitempty"`  // JSON path, or ["name"] for a relation filter through g
	ArrOp string    `json:"arr_op,omitempty"`
	Cmp   string    `json:"cmp,omitempty"`
	Val   any       `json:"val,omitempty"`
	Cmp2  string    `json:"cmp2,omitempty"` // second operator on the same field ({i:{_gt:0,_lt:3}})
	Val2  any       `json:"val2,omitempty"`
	Rel   bool      `json:"rel,omitempty"` // filter through the relation object g: {name: {...}}
}

func (f *Filter) Render() string {
	switch f.Op {
	case "_and", "_or":
		p := make([]string, len(f.Sub))
		for i, s := range f.Sub {
			p[i] = s.Render()
		}
		return "{" + f.Op + ": [" + strings.Join(p, ", ") + "]}"
	case "_not":
		return "{_not: " + f.Sub[0].Render() + "}"
	case "multi":
		p := make([]string, len(f.Sub))
		for i, s := range f.Sub {
			r := s.Render()
			p[i] = r[1 : len(r)-1]
		}
		return "{" + strings.Join(p, ", ") + "}"
	}
	inner := "{" + f.Cmp + ": " + Lit(f.Val)
	if f.Cmp2 != "" {
		inner += ", " + f.Cmp2 + ": " + Lit(f.Val2)
	}
	inner += "}"
	if f.ArrOp != "" {
		inner = "{" + f.ArrOp + ": " + inner + "}"
	}
	for i := len(f.Path) - 1; i >= 0; i-- {
		inner = "{" + f.Path[i] + ": " + inner + "}"
	}
	name := f.Field
	if f.Rel {
		name = "g"
	}
	return "{" + name + ": " + inner + "}"
}

// Leaves returns every leaf with the list of enclosing connective operators.
func (f *Filter) Leaves() []LeafCtx {
	var out []LeafCtx
	var walk func(x *Filter, ctx []string, neg, effOr bool)
	walk = func(x *Filter, ctx []string, neg, effOr bool) {
		if x.Op == "leaf" {
			out = append(out, LeafCtx{Leaf: x, Ctx: append([]string{}, ctx...), EffOr: effOr})
			return
		}
		switch x.Op {
		case "_not":
			neg = !neg
		case "_or":
			effOr = effOr || !neg
		case "_and", "multi":
			effOr = effOr || (neg && len(x.Sub) > 1)
		}
		for _, s := range x.Sub {
			walk(s, append(ctx, x.Op), neg, effOr)
		}
	}
	walk(f, nil, false, false)
	return out
}

// LeafCtx: Ctx lists the enclosing operators; EffOr tells whether, once negations are pushed
// down to the leaves (De Morgan, as the filter normalisation does), the leaf stands inside a
// disjunction: under an _or reached through an even number of _not, or under an _and reached
// through an odd number.
type LeafCtx struct {
	Leaf  *Filter
	Ctx   []string
	EffOr bool
}

// Negated reports whether the leaf stands under an odd number of _not (pairs of _not are
// removed when the filter is normalised, so an even number leaves the leaf in a positive context).
func (l LeafCtx) Negated() bool {
	n := 0
	for _, c := range l.Ctx {
		if c == "_not" {
			n++
		}
	}
	return n%2 == 1
}

func (l LeafCtx) Under(op string) bool {
	for _, c := range l.Ctx {
		if c == op {
			return true
		}
	}
	return false
}

// Skeleton is the canonical shape of a filter without values (coverage key).
func (f *Filter) Skeleton() string {
	if f == nil {
		return "-"
	}
	if f.Op == "leaf" {
		s := string(FieldByName(f.Field).Kind)
		if f.Rel {
			s += ".rel"
		}
		if len(f.Path) > 0 && !f.Rel {
			s += ".path"
		}
		if f.ArrOp != "" {
			s += "." + f.ArrOp
		}
		s += "." + f.Cmp
		if f.Val == nil {
			s += "(null)"
		}
		if f.Cmp2 != "" {
			s += "+" + f.Cmp2
		}
		return s
	}
	p := make([]string, len(f.Sub))
	for i, s := range f.Sub {
		p[i] = s.Skeleton()
	}
	return f.Op + "[" + strings.Join(p, ",") + "]"
}

// ---------------------------------------------------------------------------------------
// queries

type OrderKey struct {
	Field string `json:"field"`
	Desc  bool   `json:"desc,omitempty"`
}

type Query struct {
	Filter      *Filter    `json:"filter,omitempty"`
	Order       []OrderKey `json:"order,omitempty"`
	Limit       int        `json:"limit,omitempty"`  // 0 = none
	Offset      int        `json:"offset,omitempty"` // 0 = none
	ShowDeleted bool       `json:"show_deleted,omitempty"`
	// FromG: query collection G with the filter applied to its members (join inversion path)
	FromG bool `json:"from_g,omitempty"`
	// DocIDs: the request additionally names documents with the docID argument (one id is rendered
	// as a string, several as a list); the result must be restricted to them on both plans.
	DocIDs []string `json:"doc_ids,omitempty"`
}

func (q *Query) args(withSlice bool) string {
	var a []string
	if len(q.DocIDs) == 1 {
		a = append(a, fmt.Sprintf("docID: %q", q.DocIDs[0]))
	} else if len(q.DocIDs) > 1 {
		p := make([]string, len(q.DocIDs))
		for i, d := range q.DocIDs {
			p[i] = fmt.Sprintf("%q", d)
		}
		a = append(a, "docID: ["+strings.Join(p, ", ")+"]")
	}
	if q.Filter != nil {
		if q.FromG {
			a = append(a, "filter: {members: "+q.Filter.Render()+"}")
		} else {
			a = append(a, "filter: "+q.Filter.Render())
		}
	}
	if len(q.Order) == 1 {
		a = append(a, fmt.Sprintf("order: {%s: %s}", q.Order[0].Field, dir(q.Order[0].Desc)))
	} else if len(q.Order) > 1 {
		p := make([]string, len(q.Order))
		for i, o := range q.Order {
			p[i] = fmt.Sprintf("{%s: %s}", o.Field, dir(o.Desc))
		}
		a = append(a, "order: ["+strings.Join(p, ", ")+"]")
	}
	if withSlice {
		if q.Limit > 0 {
			a = append(a, fmt.Sprintf("limit: %d", q.Limit))
		}
		if q.Offset > 0 {
			a = append(a, fmt.Sprintf("offset: %d", q.Offset))
		}
	}
	if q.ShowDeleted {
		a = append(a, "showDeleted: true")
	}
	if len(a) == 0 {
		return ""
	}
	return "(" + strings.Join(a, ", ") + ")"
}

func dir(desc bool) string {
	if desc {
		return "DESC"
	}
	return "ASC"
}

// Col is the name of the queried collection.
func (q *Query) Col() string {
	if q.FromG {
		return "G"
	}
	return "U"
}

// Render gives the GraphQL text. directive e.g. "" or "@explain(type: execute)".
func (q *Query) Render(directive string, withSlice bool) string {
	sel := Selection(q.ShowDeleted)
	if q.FromG {
		sel = "_docID name"
	}
	d := ""
	if directive != "" {
		d = " " + directive
	}
	return fmt.Sprintf("query%s { %s%s { %s } }", d, q.Col(), q.args(withSlice), sel)
}

// OrderTotal reports whether the requested order is total by construction (some key is k or _docID).
func (q *Query) OrderTotal() bool {
	if q.ShowDeleted {
		// a document re-created after an update + delete shares k with its deleted predecessor
		return false
	}
	for _, o := range q.Order {
		if o.Field == "k" || o.Field == "_docID" {
			return true
		}
	}
	return false
}

func (q *Query) OrderClass() string {
	c := fmt.Sprintf("order%d", len(q.Order))
	if q.Limit > 0 || q.Offset > 0 {
		c += "+slice"
	}
	if q.ShowDeleted {
		c += "+deleted"
	}
	if q.FromG {
		c += "+fromG"
	}
	return c
}

// GenOpts steer the query generator.
type GenOpts struct {
	Edge      bool
	Indexed   []string // store names of fields that carry an index (bias)
	First     []string // first fields of the indexes (strong bias for single leaves)
	GIDs      []string // docIDs of G documents
	GNames    []string
	RangeOnly bool // C17 end-to-end: range / order queries on indexed columns only
}

var cmpOps = map[Kind][]string{
	KInt:     {"_eq", "_ne", "_gt", "_ge", "_lt", "_le", "_in", "_nin"},
	KFloat:   {"_eq", "_ne", "_gt", "_ge", "_lt", "_le", "_in", "_nin"},
	KFloat32: {"_eq", "_ne", "_gt", "_ge", "_lt", "_le", "_in", "_nin"},
	KTime:    {"_eq", "_ne", "_gt", "_ge", "_lt", "_le", "_in", "_nin"},
	KBool:    {"_eq", "_ne", "_in", "_nin"},
	KString:  {"_eq", "_ne", "_in", "_nin", "_like", "_nlike", "_ilike", "_nilike"},
	KBlob:    {"_eq", "_ne", "_in", "_nin"},
	KRel:     {"_eq", "_ne", "_in", "_nin"},
}

// Ops lists the leaf operators of a kind (for coverage cells).
func Ops(k Kind) []string { return cmpOps[k] }

var likePatterns = []any{"a%", "%b", "%a%", "a", "%", "", "A%", "a_c", "_", "%\\%%"}

func elemKind(k Kind) Kind {
	switch k {
	case KIntArr, KIntArrN:
		return KInt
	case KStrArrN:
		return KString
	}
	return k
}

func elemDomain(field string, edge bool) []any {
	switch field {
	case "ai":
		return []any{nil, 1, 2, 3, 4}
	case "an":
		return []any{1, 2, 3, 4}
	case "as":
		return []any{"a", "b", "", "c"}
	}
	return Domain(field, edge)
}

// FitsGQLInt: GraphQL Int literals are 32 bit; larger integers can only be written through the
// collection API and are reached by order queries.
func FitsGQLInt(v any) bool {
	if x, ok := v.(int64); ok {
		return x >= math.MinInt32 && x <= math.MaxInt32
	}
	return true
}

func pickVal(rng *rand.Rand, field string, edge bool, allowNull bool) any {
	d := elemDomain(field, edge)
	for tries := 0; tries < 16; tries++ {
		v := d[rng.IntN(len(d))]
		if v == nil && !allowNull || !FitsGQLInt(v) {
			continue
		}
		return v
	}
	for _, v := range d {
		if v != nil && FitsGQLInt(v) {
			return v
		}
	}
	return nil
}

// GenLeaf draws one leaf condition on the given field (name as in Fields).
func GenLeaf(rng *rand.Rand, fname string, o GenOpts) *Filter {
	fd := FieldByName(fname)
	lf := &Filter{Op: "leaf", Field: fd.StoreName()}
	k := fd.Kind
	switch {
	case k == KRel:
		if rng.IntN(3) == 0 && len(o.GNames) > 0 {
			lf.Rel, lf.Path = true, []string{"name"}
			lf.Cmp = []string{"_eq", "_ne", "_in"}[rng.IntN(3)]
			if lf.Cmp == "_in" {
				lf.Val = []any{o.GNames[rng.IntN(len(o.GNames))], "zz"}
			} else {
				lf.Val = o.GNames[rng.IntN(len(o.GNames))]
			}
			return lf
		}
		ops := cmpOps[KRel]
		lf.Cmp = ops[rng.IntN(len(ops))]
		ids := append([]any{}, "bae-00000000-0000-5000-8000-000000000000")
		for _, g := range o.GIDs {
			ids = append(ids, g)
		}
		if lf.Cmp == "_in" || lf.Cmp == "_nin" {
			n := 1 + rng.IntN(2)
			var l []any
			for x := 0; x < n; x++ {
				l = append(l, ids[rng.IntN(len(ids))])
			}
			if rng.IntN(4) == 0 {
				l = append(l, nil)
			}
			lf.Val = l
		} else if rng.IntN(4) == 0 {
			lf.Val = nil
		} else {
			lf.Val = ids[rng.IntN(len(ids))]
		}
		return lf
	case k.IsArray():
		lf.ArrOp = []string{"_any", "_all", "_none"}[rng.IntN(3)]
		ek := elemKind(k)
		ops := []string{"_eq", "_ne", "_gt", "_ge", "_lt", "_le", "_in", "_nin"}
		if ek == KString {
			ops = []string{"_eq", "_ne", "_in", "_nin", "_like", "_nlike"}
		}
		lf.Cmp = ops[rng.IntN(len(ops))]
		nullOK := k == KIntArr && (lf.Cmp == "_eq" || lf.Cmp == "_ne")
		switch lf.Cmp {
		case "_in", "_nin":
			lf.Val = []any{pickVal(rng, fname, o.Edge, false), pickVal(rng, fname, o.Edge, false)}
		case "_like", "_nlike":
			lf.Val = likePatterns[rng.IntN(len(likePatterns))]
		default:
			lf.Val = pickVal(rng, fname, o.Edge, nullOK)
		}
		return lf
	case k == KJSON && o.RangeOnly:
		lf.Path = []string{"a"}
		lf.Cmp = []string{"_gt", "_ge", "_lt", "_le", "_eq", "_ne"}[rng.IntN(6)]
		lf.Val = EdgeJSONNumbers[rng.IntN(len(EdgeJSONNumbers))]
		return lf
	case k == KJSON:
		// path filters over the small JSON domain
		switch rng.IntN(6) {
		case 0: // scalar at the root
			lf.Cmp = []string{"_eq", "_ne", "_gt", "_lt", "_in"}[rng.IntN(5)]
			vals := []any{1, 2.5, "x", true, nil, 2}
			if o.Edge {
				vals = []any{0, -1, 1e300, -1e-300, "", "a", "a\x00", true, false}
			}
			v := vals[rng.IntN(len(vals))]
			if lf.Cmp == "_in" {
				lf.Val = []any{v, vals[rng.IntN(len(vals))]}
			} else {
				if lf.Cmp == "_gt" || lf.Cmp == "_lt" {
					// range operators take numbers only (a string operand is a type error on the scan path)
					switch v.(type) {
					case int, float64:
					default:
						v = 1
					}
				}
				lf.Val = v
			}
		case 1, 2: // j.a numeric / null
			lf.Path = []string{"a"}
			lf.Cmp = []string{"_eq", "_ne", "_gt", "_ge", "_lt", "_le", "_in", "_nin"}[rng.IntN(8)]
			vals := []any{1, 2, nil, "x", 0}
			if o.Edge {
				vals = []any{0, -5e-324, math.MaxFloat64, "", 1}
			}
			v := vals[rng.IntN(len(vals))]
			switch lf.Cmp {
			case "_in", "_nin":
				lf.Val = []any{v, vals[rng.IntN(len(vals))]}
			case "_gt", "_ge", "_lt", "_le":
				if v == nil || v == "x" || v == "" {
					v = 1
				}
				lf.Val = v
			default:
				lf.Val = v
			}
		case 3: // j.b string
			lf.Path = []string{"b"}
			lf.Cmp = []string{"_eq", "_ne", "_like", "_nlike", "_in"}[rng.IntN(5)]
			switch lf.Cmp {
			case "_like", "_nlike":
				lf.Val = []any{"x%", "%", "y"}[rng.IntN(3)]
			case "_in":
				lf.Val = []any{"x", "y"}
			default:
				lf.Val = []any{"x", "y", nil}[rng.IntN(3)]
			}
		case 4: // array at the root
			lf.ArrOp = []string{"_any", "_all", "_none"}[rng.IntN(3)]
			lf.Cmp = []string{"_eq", "_ne", "_gt", "_lt"}[rng.IntN(4)]
			lf.Val = []any{1, 2, 3}[rng.IntN(3)]
		default: // j.arr array
			lf.Path = []string{"arr"}
			lf.ArrOp = []string{"_any", "_all", "_none"}[rng.IntN(3)]
			lf.Cmp = []string{"_eq", "_ne"}[rng.IntN(2)]
			lf.Val = []any{1, "x", 2}[rng.IntN(3)]
		}
		return lf
	}
	ops := cmpOps[k]
	if o.RangeOnly {
		ops = []string{"_gt", "_ge", "_lt", "_le", "_eq", "_ne"}
		if k == KString || k == KBool || k == KBlob {
			ops = []string{"_eq", "_ne"}
		}
	}
	lf.Cmp = ops[rng.IntN(len(ops))]
	switch lf.Cmp {
	case "_in", "_nin":
		n := 1 + rng.IntN(3)
		var l []any
		for x := 0; x < n; x++ {
			l = append(l, pickVal(rng, fname, o.Edge, rng.IntN(5) == 0))
		}
		lf.Val = l
	case "_like", "_nlike", "_ilike", "_nilike":
		lf.Val = likePatterns[rng.IntN(len(likePatterns))]
	case "_eq", "_ne":
		lf.Val = pickVal(rng, fname, o.Edge, rng.IntN(4) == 0)
	default:
		lf.Val = pickVal(rng, fname, o.Edge, false)
		// two bounds on one field
		if rng.IntN(6) == 0 {
			lf.Cmp2 = map[string]string{"_gt": "_lt", "_ge": "_le", "_lt": "_gt", "_le": "_ge"}[lf.Cmp]
			lf.Val2 = pickVal(rng, fname, o.Edge, false)
		}
	}
	return lf
}

func (o GenOpts) pickField(rng *rand.Rand) string {
	r := rng.IntN(10)
	if r < 5 && len(o.First) > 0 {
		return o.First[rng.IntN(len(o.First))]
	}
	if r < 8 && len(o.Indexed) > 0 {
		return o.Indexed[rng.IntN(len(o.Indexed))]
	}
	for {
		f := Fields[rng.IntN(len(Fields))]
		if f.Name == "k" && rng.IntN(3) != 0 {
			continue
		}
		return f.Name
	}
}

// GenFilter draws a filter tree of bounded depth.
func GenFilter(rng *rand.Rand, o GenOpts, depth int) *Filter {
	r := rng.IntN(100)
	if depth <= 0 || r < 55 {
		return GenLeaf(rng, o.pickField(rng), o)
	}
	switch {
	case r < 70:
		n := 2 + rng.IntN(2)
		f := &Filter{Op: "_and"}
		for i := 0; i < n; i++ {
			f.Sub = append(f.Sub, GenFilter(rng, o, depth-1))
		}
		return f
	case r < 82:
		n := 2 + rng.IntN(2)
		f := &Filter{Op: "_or"}
		for i := 0; i < n; i++ {
			f.Sub = append(f.Sub, GenFilter(rng, o, depth-1))
		}
		return f
	case r < 90:
		return &Filter{Op: "_not", Sub: []*Filter{GenFilter(rng, o, depth-1)}}
	default:
		// implicit and over distinct fields
		f := &Filter{Op: "multi"}
		seen := map[string]bool{}
		for i := 0; i < 2+rng.IntN(2); i++ {
			n := o.pickField(rng)
			if seen[n] {
				continue
			}
			seen[n] = true
			f.Sub = append(f.Sub, GenLeaf(rng, n, o))
		}
		if len(f.Sub) == 1 {
			return f.Sub[0]
		}
		return f
	}
}

var orderable []string

func init() {
	for _, f := range Fields {
		if f.Kind.Orderable() {
			orderable = append(orderable, f.Name)
		}
	}
}

// GenQuery draws one query.
func GenQuery(rng *rand.Rand, o GenOpts) *Query {
	q := &Query{}
	if o.RangeOnly {
		// C17 end-to-end: one range / equality condition on the first field of an index and / or an
		// order on that field; nothing that touches the known defects of the index path
		f := o.First[rng.IntN(len(o.First))]
		if rng.IntN(6) != 0 {
			q.Filter = GenLeaf(rng, f, o)
		}
		if FieldByName(f).Kind.Orderable() && (q.Filter == nil || rng.IntN(2) == 0) {
			q.Order = []OrderKey{{Field: f, Desc: rng.IntN(2) == 0}}
		}
		if q.Filter == nil && len(q.Order) == 0 {
			q.Filter = GenLeaf(rng, f, o)
		}
		return q
	}
	if rng.IntN(10) != 0 {
		d := 0
		if r := rng.IntN(10); r >= 5 {
			d = 1 + rng.IntN(3)
		}
		q.Filter = GenFilter(rng, o, d)
	}
	// order: none 45 %, 1 key 30 %, 2 keys 17 %, 3 keys 8 %
	r := rng.IntN(100)
	nk := 0
	switch {
	case r < 45:
	case r < 75:
		nk = 1
	case r < 92:
		nk = 2
	default:
		nk = 3
	}
	seen := map[string]bool{}
	for i := 0; i < nk; i++ {
		var n string
		switch x := rng.IntN(10); {
		case x < 6 && len(o.Indexed) > 0:
			// follow an index' field order when possible
			n = o.Indexed[rng.IntN(len(o.Indexed))]
			if i == 0 && len(o.First) > 0 {
				n = o.First[rng.IntN(len(o.First))]
			}
		case x < 8:
			n = "k"
		default:
			n = orderable[rng.IntN(len(orderable))]
		}
		if n == "g" || n == "g_id" || !FieldByName(n).Kind.Orderable() || seen[n] {
			continue
		}
		seen[n] = true
		q.Order = append(q.Order, OrderKey{Field: n, Desc: rng.IntN(2) == 0})
	}
	if rng.IntN(4) == 0 {
		if rng.IntN(3) != 0 {
			q.Limit = 1 + rng.IntN(4)
		}
		if rng.IntN(2) == 0 {
			q.Offset = 1 + rng.IntN(3)
		}
		if q.Limit == 0 && q.Offset == 0 {
			q.Limit = 2
		}
		// make the order total in most slice queries
		if rng.IntN(4) != 0 && !q.OrderTotal() {
			q.Order = append(q.Order, OrderKey{Field: "k", Desc: rng.IntN(2) == 0})
			if len(q.Order) > 3 {
				q.Order = q.Order[len(q.Order)-3:]
			}
		}
	}
	if rng.IntN(12) == 0 {
		q.ShowDeleted = true
	}
	if q.Filter != nil && len(q.Order) == 0 && q.Limit == 0 && q.Offset == 0 && !q.ShowDeleted && rng.IntN(12) == 0 {
		// through the relation; a filter that walks back through g (G -> members -> g) is left out
		// (compound operators inside a relation filter are refused with 'field or alias not found' on
		// the usual plan, so only single conditions are sent this way)
		q.FromG = q.Filter.Op == "leaf" && !q.Filter.Rel
	}
	return q
}

// ---------------------------------------------------------------------------------------
// comparators

// Row is one result document (numbers as json.Number).
type Row = map[string]any

func CanonRow(r Row) string {
	b, _ := json.Marshal(r)
	return string(b)
}

// Multiset renders rows as a sorted list of canonical strings.
func Multiset(rows []Row) []string {
	out := make([]string, len(rows))
	for i, r := range rows {
		out[i] = CanonRow(r)
	}
	sort.Strings(out)
	return out
}

// MultisetDiff returns the canonical rows only in a and only in b.
func MultisetDiff(a, b []string) (onlyA, onlyB []string) {
	cnt := map[string]int{}
	for _, x := range a {
		cnt[x]++
	}
	for _, x := range b {
		if cnt[x] > 0 {
			cnt[x]--
		} else {
			onlyB = append(onlyB, x)
		}
	}
	for _, x := range a {
		if cnt[x] > 0 {
			cnt[x]--
			onlyA = append(onlyA, x)
		}
	}
	return
}

// KeyTuple extracts the sort-key tuple of a row.
func KeyTuple(r Row, order []OrderKey) []any {
	t := make([]any, len(order))
	for i, o := range order {
		t[i] = r[o.Field]
	}
	return t
}

func KeySeq(rows []Row, order []OrderKey) []string {
	out := make([]string, len(rows))
	for i, r := range rows {
		b, _ := json.Marshal(KeyTuple(r, order))
		out[i] = string(b)
	}
	return out
}

// CmpVal compares two result values of one scalar field: null smallest, numbers numerically
// (exactly for integers), strings bytewise, false < true, times by instant.
func CmpVal(k Kind, a, b any) int {
	if a == nil || b == nil {
		switch {
		case a == nil && b == nil:
			return 0
		case a == nil:
			return -1
		}
		return 1
	}
	switch k {
	case KInt:
		x, _ := strconv.ParseInt(fmt.Sprint(a), 10, 64)
		y, _ := strconv.ParseInt(fmt.Sprint(b), 10, 64)
		return cmpOrd(x, y)
	case KFloat, KFloat32:
		x, _ := strconv.ParseFloat(fmt.Sprint(a), 64)
		y, _ := strconv.ParseFloat(fmt.Sprint(b), 64)
		return cmpOrd(x, y)
	case KBool:
		x, y := a.(bool), b.(bool)
		switch {
		case x == y:
			return 0
		case !x:
			return -1
		}
		return 1
	case KTime:
		x, e1 := time.Parse(time.RFC3339Nano, fmt.Sprint(a))
		y, e2 := time.Parse(time.RFC3339Nano, fmt.Sprint(b))
		if e1 == nil && e2 == nil {
			return x.Compare(y)
		}
	}
	return strings.Compare(fmt.Sprint(a), fmt.Sprint(b))
}

func cmpOrd[T int64 | float64](x, y T) int {
	switch {
	case x < y:
		return -1
	case x > y:
		return 1
	}
	return 0
}

// SortedUpTo reports the number of leading order keys under which rows is lexicographically
// sorted: n == len(order) means fully sorted; n == 1 means the first key is sorted but some tie
// on it is not broken by the second key; 0 = the first key itself is out of order.
func SortedUpTo(rows []Row, order []OrderKey) int {
	n := len(order)
	for i := 1; i < len(rows); i++ {
		for j, o := range order {
			c := CmpVal(FieldByName(o.Field).Kind, rows[i-1][o.Field], rows[i][o.Field])
			if o.Desc {
				c = -c
			}
			if c < 0 {
				break
			}
			if c > 0 {
				if j < n {
					n = j
				}
				break
			}
		}
	}
	return n
}
