package sim

import (
	"fmt"
	"sort"
	"strings"

	"github.com/ipfs/go-cid"

	"github.com/sourcenetwork/defradb/verifharness/core"
)

// Collection-level commits of @branchable collections: every document commit is accompanied by
// a collection block that links the new document composite and whose heads are the previous
// collection heads. Peers receive them as merges with an empty DocID.

type colCommit struct {
	Cid     string
	Parents []string
	Links   []string // document composite cids
	Height  uint64
}

func (s *Sim) branchable() bool { return s.P.Config == "branchable" }

func (s *Sim) colHeads(r int) []string {
	raw := s.reps[r].n.RawScan(s.ctx, "/db/heads/c/")
	var out []string
	for k := range raw {
		c := k[strings.LastIndex(k, "/")+1:]
		if _, err := cid.Decode(c); err == nil {
			out = append(out, c)
		}
	}
	sort.Strings(out)
	return out
}

func (s *Sim) readColCommit(n *core.Node, c string) *colCommit {
	blk := n.MustBlock(s.ctx, core.ParseCid(c))
	cc := &colCommit{Cid: c, Height: blk.Delta.GetPriority()}
	for _, h := range blk.Heads {
		cc.Parents = append(cc.Parents, h.Cid.String())
	}
	for _, l := range blk.Links {
		cc.Links = append(cc.Links, l.Cid.String())
	}
	return cc
}

// recordLocalCol registers collection heads created by a local operation on r.
func (s *Sim) recordLocalCol(r int) {
	if !s.branchable() {
		return
	}
	rep := s.reps[r]
	for _, h := range s.colHeads(r) {
		if rep.MC[h] {
			continue
		}
		rep.MC[h] = true
		if s.colCommits[h] == nil {
			s.colCommits[h] = s.readColCommit(rep.n, h)
			s.colOrder = append(s.colOrder, h)
		}
		s.colSrc[h] = r
	}
}

func (s *Sim) colClosure(c string, out map[string]bool) {
	if out[c] {
		return
	}
	out[c] = true
	if cc := s.colCommits[c]; cc != nil {
		for _, p := range cc.Parents {
			s.colClosure(p, out)
		}
	}
}

// deliverCol sends collection-level commit c to replica dst (closure copy + H1 with empty DocID).
func (s *Sim) deliverCol(dst int, c string, tag string) bool {
	rep := s.reps[dst]
	cc := s.colCommits[c]
	if cc == nil {
		return false
	}
	src := s.colSrc[c]
	if rep.MC[c] {
		s.shape["col_redelivery"] = true
	}
	heads := s.colHeads(dst)
	if len(heads) >= 2 {
		s.shape["col_multi_head_on_merge"] = true
	}
	core.CopyClosure(s.ctx, s.reps[src].n, rep.n, core.ParseCid(c))
	err := s.merge(rep, "", c)
	s.rec.Count("col_deliveries", 1)
	s.logf("%sdeliver-col %s(h%d) r%d->r%d col_heads_before=%d err=%v", tag, c[len(c)-5:], cc.Height, src, dst, len(heads), err)
	if err != nil {
		if s.O.Converge {
			s.violate("merge-error/collection-level/"+errClass(err), "merge of a well-formed collection-level commit whose ancestors are available failed: "+err.Error())
		}
		return false
	}
	// merged: the collection commits in the closure, and every document composite they link
	// (ancestor-closed: each document commit has its own collection block in the chain, but close anyway)
	newCols := map[string]bool{}
	s.colClosure(c, newCols)
	docs := map[string]bool{}
	for k := range newCols {
		rep.MC[k] = true
		if kc := s.colCommits[k]; kc != nil {
			for _, l := range kc.Links {
				if s.commits[l] != nil {
					s.closure(l, rep.M)
					docs[s.commits[l].DocID] = true
				}
			}
		}
	}
	var ds []string
	for d := range docs {
		ds = append(ds, d)
	}
	sort.Strings(ds)
	for _, d := range ds {
		s.afterStep(dst, d, "deliver-col")
	}
	return true
}

// auditCol: stored collection heads = maximal merged collection commits; heights consistent.
func (s *Sim) auditCol(r int, kind string) {
	if !s.branchable() {
		return
	}
	rep := s.reps[r]
	isParent := map[string]bool{}
	for c := range rep.MC {
		cc := s.colCommits[c]
		if cc == nil {
			continue
		}
		var maxp uint64
		for _, p := range cc.Parents {
			isParent[p] = true
			if pc := s.colCommits[p]; pc != nil && pc.Height > maxp {
				maxp = pc.Height
			}
			if _, _, err := rep.n.GetBlock(s.ctx, core.ParseCid(p)); err != nil {
				s.violate("audit/col-dangling-parent", fmt.Sprintf("r%d: parent %s of merged collection commit %s is not stored", r, p, c))
			}
		}
		if cc.Height != maxp+1 {
			s.violate("audit/col-height", fmt.Sprintf("r%d: collection commit %s has height %d but the greatest parent height is %d", r, c, cc.Height, maxp))
		}
		for _, l := range cc.Links {
			if _, _, err := rep.n.GetBlock(s.ctx, core.ParseCid(l)); err != nil {
				s.violate("audit/col-dangling-link", fmt.Sprintf("r%d: link %s of merged collection commit %s is not stored", r, l, c))
			}
		}
	}
	var want []string
	for c := range rep.MC {
		if !isParent[c] {
			want = append(want, c)
		}
	}
	sort.Strings(want)
	got := s.colHeads(r)
	s.rec.Count("col_head_sets_compared", 1)
	if strings.Join(got, ",") != strings.Join(want, ",") {
		s.violate("audit/col-heads-not-maximal", fmt.Sprintf("r%d after %s: stored collection heads %v are not the maximal merged collection commits %v", r, kind, tails(got), tails(want)))
	}
}
