// Package sim is the replica simulator shared by C01, C02 and C04: n real DefraDB nodes in
// one process, a generated history of local operations and commit deliveries (by block-closure
// copy + hook H1), a ground-truth model read from the blocks, and the three oracles.
package sim

import (
	"context"
	"crypto/sha256"
	"encoding/json"
	"fmt"
	"math/rand/v2"
	"sort"
	"strings"
	"time"

	dshelp "github.com/ipfs/boxo/datastore/dshelp"
	"github.com/ipfs/go-cid"
	ds "github.com/ipfs/go-datastore"
	mh "github.com/multiformats/go-multihash"

	"github.com/sourcenetwork/defradb/client"
	icore "github.com/sourcenetwork/defradb/internal/core"
	coreblock "github.com/sourcenetwork/defradb/internal/core/block"
	"github.com/sourcenetwork/defradb/verifharness/core"
)

// Params of one simulated history (stored in the case so a witness replays exactly).
type Params struct {
	Config   string `json:"config"` // plain | branchable | indexed | signed | uniq
	Store    string `json:"store"`  // badger | memory
	Replicas int    `json:"replicas"`
	Recipe   string `json:"recipe"` // genesis-first | random | anchor-*
	Steps    int    `json:"steps"`
	// Bus: the LAST replica receives its deliveries the way the network layer hands them over - an
	// event.Merge published on its bus, executed by the database's own message handler (collection
	// lookup, per-document merge queue, conflict retry) - instead of through hook H1. All oracles stay
	// the same: a replica that merged the same commits must agree with the others.
	Bus bool `json:"bus,omitempty"`
}

// Oracles selects which monitors judge the history.
type Oracles struct {
	Converge bool // C01: merge errors + agreement at quiescence
	Fold     bool // C02: per-step fold model
	Audit    bool // C04: DAG auditor per step
}

const schemaFields = `name: String
	s: String %s
	i: Int %s
	f: Float
	b: Boolean
	t: DateTime
	j: JSON
	a: [Int!]
	bl: Blob
	u: Int %s
	n: Int @crdt(type: pncounter)
	p: Int @crdt(type: pcounter)
	nf: Float @crdt(type: pncounter)
	x00: Int
	x01: Int
	x02: Int
	x03: Int
	x04: Int
	x05: Int
	x06: Int
	x07: Int
	x08: Int
	x09: Int`

func SDL(config string) string {
	dir, si, ii, ui := "", "", "", ""
	switch config {
	case "branchable":
		dir = "@branchable"
	case "indexed":
		si, ii = "@index", "@index"
	case "uniq":
		ui = "@index(unique: true)"
	}
	return fmt.Sprintf("type Doc %s {\n\t"+schemaFields+"\n}", dir, si, ii, ui)
}

// x00..x09 pad the schema to more than 20 fields so that field short ids 20..24 exist next to id 2
// (head-store keys are prefix-scanned: "/d/<doc>/2" must not match "/d/<doc>/20/...").
var registerFields = []string{"s", "i", "f", "b", "t", "j", "a", "bl", "u", "x05", "x07", "x09"}
var counterFields = []string{"n", "p", "nf"}
var allFields = append(append([]string{"name"}, registerFields...), counterFields...)

var domains = map[string][]any{
	"s":   {"a", "b", nil},
	"i":   {1, 2, nil},
	"f":   {0.5, 2.25, nil},
	"b":   {true, false, nil},
	"t":   {"2020-01-02T03:04:05Z", "2021-06-07T08:09:10.123456789Z", nil},
	"j":   {map[string]any{"k": 1}, []any{1, 2}, "x", nil},
	"a":   {[]any{1}, []any{1, 2}, nil},
	"bl":  {"00ff", "ab", nil},
	"u":   {10, 20, 30, nil},
	"x05": {1, 2, nil},
	"x07": {1, 2, nil},
	"x09": {1, 2, nil},
	"n":   {-1, 1, 2, 3},
	"p":   {1, 2, 3},
	"nf":  {0.5, -0.5, 1.25},
}

// commitInfo is the ground truth about one composite commit, read from its block and from
// the writer's log.
type commitInfo struct {
	Cid     string
	DocID   string
	Parents []string
	Height  uint64
	Deleted bool
	Fields  []string       // field names linked by the composite
	Writes  map[string]any // values written (from the harness's own write log)
	Known   bool           // write log available (locally created by the harness)
}

type replica struct {
	n *core.Node
	M map[string]bool // merged composite cids (ancestor closed)
	// MC: merged collection-level commits (branchable collections)
	MC map[string]bool
	// deletedSeen: docs observed as deleted on this replica (for no-resurrection)
	deletedSeen map[string]bool
	// uniqBlocked: a merge failed legitimately on a uniqueness constraint
	uniqBlocked bool
	bus         *core.BusMerger
}

// merge delivers one commit (closure already copied) to the replica.
func (s *Sim) merge(rep *replica, docID, c string) error {
	if rep.bus != nil {
		s.rec.Count("deliveries_through_the_event_bus", 1)
		return rep.bus.Merge(s.ctx, docID, core.ParseCid(c), s.colID, 20*time.Second)
	}
	return rep.n.Merge(s.ctx, docID, core.ParseCid(c), s.colID)
}

type Sim struct {
	ctx     context.Context
	P       Params
	O       Oracles
	rng     *rand.Rand
	rec     *core.Rec
	reps    []*replica
	colID   string
	commits map[string]*commitInfo // all composite commits ever created, by cid
	order   []string               // creation order of commits
	src     map[string]int         // a replica that has the commit's closure
	docIDs  []string
	log     []string
	shape   map[string]bool
	failed  bool
	nameSeq int
	// collection-level commits (branchable)
	colCommits map[string]*colCommit
	colOrder   []string
	colSrc     map[string]int
}

func (s *Sim) logf(f string, a ...any) { s.log = append(s.log, fmt.Sprintf(f, a...)) }

func (s *Sim) violate(sig, msg string) {
	s.failed = true
	s.rec.Violate(sig, msg, map[string]any{"params": s.P, "log": s.log})
}

// Run executes one history.
func Run(ctx context.Context, c core.Case, rec *core.Rec, o Oracles) {
	var p Params
	c.P(&p)
	s := &Sim{ctx: ctx, P: p, O: o, rng: c.Rng(), rec: rec, commits: map[string]*commitInfo{}, src: map[string]int{}, shape: map[string]bool{},
		colCommits: map[string]*colCommit{}, colSrc: map[string]int{}}
	for i := 0; i < p.Replicas; i++ {
		n := core.NewNode(ctx, core.NodeOpts{Store: p.Store, Signing: false})
		_, err := n.DB.AddSchema(ctx, SDL(p.Config))
		core.Must(err)
		s.reps = append(s.reps, &replica{n: n, M: map[string]bool{}, MC: map[string]bool{}, deletedSeen: map[string]bool{}})
	}
	if p.Bus && p.Config != "uniq" && p.Replicas >= 2 {
		last := s.reps[len(s.reps)-1]
		last.bus = core.NewBusMerger(last.n)
	}
	defer func() {
		for _, r := range s.reps {
			if r.bus != nil {
				r.bus.Close()
			}
			r.n.Close()
		}
	}()
	s.colID = s.reps[0].n.Col(ctx, "Doc").Version().CollectionID

	switch {
	case strings.HasPrefix(p.Recipe, "anchor"):
		s.anchor()
	case p.Recipe == "random":
		s.randomHistory()
	default:
		s.genesisFirst()
	}
	if !s.failed || true {
		s.antiEntropy()
		s.quiescence()
	}
	rec.Count("histories", 1)
	rec.Count("commits_created", int64(len(s.order)))
	for k := range s.shape {
		rec.Count("shape_"+k, 1)
	}
	if s.shape["multi_head_on_merge"] || s.shape["tie_equal_height"] {
		rec.Count("nontrivial_histories", 1)
		rec.Nontrivial(p.Config + "|" + s.dagShape())
	}
	rec.Sample(map[string]any{"params": p, "log": clip(s.log, 40)})
}

func clip(l []string, n int) []string {
	if len(l) > n {
		return append(append([]string{}, l[:n]...), fmt.Sprintf("... %d more steps", len(l)-n))
	}
	return l
}

// dagShape is a canonical, hash-free description of the final DAGs: per document the sorted
// multiset of (height, sorted parent heights).
func (s *Sim) dagShape() string {
	var parts []string
	for _, d := range s.docIDs {
		var nodes []string
		for _, c := range s.order {
			ci := s.commits[c]
			if ci.DocID != d {
				continue
			}
			var ph []int
			for _, p := range ci.Parents {
				if pc := s.commits[p]; pc != nil {
					ph = append(ph, int(pc.Height))
				}
			}
			sort.Ints(ph)
			nodes = append(nodes, fmt.Sprintf("%d%v", ci.Height, ph))
		}
		sort.Strings(nodes)
		parts = append(parts, strings.Join(nodes, ","))
	}
	sort.Strings(parts)
	return strings.Join(parts, ";")
}

// ---------------------------------------------------------------------------------------
// local operations

func (s *Sim) col(r int) client.Collection { return s.reps[r].n.Col(s.ctx, "Doc") }

func (s *Sim) pick(field string) any {
	d := domains[field]
	return d[s.rng.IntN(len(d))]
}

// recordLocal registers the new composite head(s) of doc created by a local op on r.
func (s *Sim) recordLocal(r int, docID string, writes map[string]any) {
	rep := s.reps[r]
	for _, h := range rep.n.CompositeHeads(s.ctx, docID) {
		if prev := s.commits[h]; prev != nil && prev.Known {
			// The operation that has just been acknowledged produced a commit that is byte-identical
			// (same cid) to a commit produced by an EARLIER acknowledged operation. For registers and
			// deletes that is harmless (same parents, same values: idempotent). A counter increment
			// however is an update of its own: two increments must never collapse into one commit,
			// or one of them is lost on every replica - invisible to any oracle that folds commits.
			s.rec.Count("identical_commit_from_two_operations", 1)
			for _, f := range counterFields {
				if v, ok := writes[f]; ok && v != nil && toF(v) != 0 && has(s.readCommit(rep.n, h).Fields, f) {
					if s.O.Fold {
						s.violate("fold/distinct-counter-updates-collapsed-into-one-commit", fmt.Sprintf("the acknowledged update of counter %s on r%d (%v) produced commit %s, which an earlier acknowledged update had already produced: the two increments are one commit, one of them is lost", f, r, v, h[len(h)-6:]))
					}
					break
				}
			}
		}
		if rep.M[h] {
			continue
		}
		rep.M[h] = true
		ci := s.readCommit(rep.n, h)
		ci.Writes, ci.Known = writes, true
		s.commits[h] = ci
		s.order = append(s.order, h)
		s.src[h] = r
	}
	s.recordLocalCol(r)
}

func (s *Sim) readCommit(n *core.Node, c string) *commitInfo {
	blk := n.MustBlock(s.ctx, core.ParseCid(c))
	ci := &commitInfo{Cid: c, DocID: string(blk.Delta.GetDocID()), Height: blk.Delta.GetPriority()}
	for _, h := range blk.Heads {
		ci.Parents = append(ci.Parents, h.Cid.String())
	}
	if blk.Delta.DocCompositeDelta != nil {
		ci.Deleted = blk.Delta.DocCompositeDelta.Status.IsDeleted()
	}
	for _, l := range blk.Links {
		ci.Fields = append(ci.Fields, l.Name)
	}
	return ci
}

func (s *Sim) create(r int) string {
	s.nameSeq++
	m := map[string]any{"name": fmt.Sprintf("d%d", s.nameSeq)}
	// a random subset of fields is set at creation
	for _, f := range append(append([]string{}, registerFields...), counterFields...) {
		if f == "u" && s.P.Config != "uniq" {
			continue
		}
		if s.rng.IntN(3) == 0 {
			v := s.pick(f)
			if v != nil {
				m[f] = v
			}
		}
	}
	doc, err := client.NewDocFromMap(m, s.col(r).Definition())
	core.Must(err)
	if err := s.col(r).Create(s.ctx, doc, s.createOpts()...); err != nil {
		if s.P.Config == "uniq" && isUniqErr(err) {
			s.logf("create on r%d rejected by unique index", r)
			return ""
		}
		s.logf("create on r%d: %v", r, err)
		s.violate("local-create-failed", "local create failed: "+err.Error())
		return ""
	}
	id := doc.ID().String()
	s.docIDs = append(s.docIDs, id)
	s.recordLocal(r, id, m)
	s.logf("create %s on r%d %s", short(id), r, core.Canon(m))
	s.afterStep(r, id, "create")
	return id
}

// createOpts: in the "encrypted" configuration every document is created with document-level
// encryption (single writer node: the block and head invariants of C04 are judged on the node that
// holds the keys; what receivers with and without keys see is C11's subject).
func (s *Sim) createOpts() []client.DocCreateOption {
	if s.P.Config == "encrypted" {
		s.rec.Count("encrypted_documents_created", 1)
		return []client.DocCreateOption{client.CreateDocEncrypted(true)}
	}
	return nil
}

func isUniqErr(err error) bool {
	return err != nil && strings.Contains(err.Error(), "violates unique index")
}

func short(id string) string {
	if len(id) > 10 {
		return id[4:10]
	}
	return id
}

func (s *Sim) knows(r int, docID string) bool {
	for c := range s.reps[r].M {
		if s.commits[c] != nil && s.commits[c].DocID == docID {
			return true
		}
	}
	return false
}

func (s *Sim) update(r int, docID string, onlyCounter bool) bool {
	id, err := client.NewDocIDFromString(docID)
	core.Must(err)
	d, err := s.col(r).Get(s.ctx, id, false)
	if err != nil {
		return false // deleted or unknown locally
	}
	w := map[string]any{}
	nf := 1 + s.rng.IntN(3)
	for k := 0; k < nf; k++ {
		var f string
		if onlyCounter || s.rng.IntN(2) == 0 {
			f = counterFields[s.rng.IntN(len(counterFields))]
		} else {
			f = registerFields[s.rng.IntN(len(registerFields))]
			if f == "u" && s.P.Config != "uniq" {
				f = "s"
			}
		}
		w[f] = s.pick(f)
	}
	for f, v := range w {
		core.Must(d.Set(f, v))
	}
	if err := s.col(r).Update(s.ctx, d); err != nil {
		if s.P.Config == "uniq" && isUniqErr(err) {
			s.logf("update on r%d rejected by unique index", r)
			return false
		}
		s.logf("update %s on r%d %s: %v", short(docID), r, core.Canon(w), err)
		s.violate("local-update-failed", "local update of a live document failed: "+err.Error())
		return false
	}
	s.recordLocal(r, docID, w)
	s.logf("update %s on r%d %s", short(docID), r, core.Canon(w))
	s.afterStep(r, docID, "update")
	return true
}

func (s *Sim) del(r int, docID string) bool {
	id, err := client.NewDocIDFromString(docID)
	core.Must(err)
	if ok, _ := s.col(r).Exists(s.ctx, id); !ok {
		return false
	}
	if _, err := s.col(r).Delete(s.ctx, id); err != nil {
		s.logf("delete %s on r%d: %v", short(docID), r, err)
		s.violate("local-delete-failed", "local delete of a live document failed: "+err.Error())
		return false
	}
	s.recordLocal(r, docID, map[string]any{})
	s.logf("delete %s on r%d", short(docID), r)
	s.afterStep(r, docID, "delete")
	return true
}

// deliver sends commit c to replica dst (closure copy + H1).
func (s *Sim) deliver(dst int, c string, tag string) bool {
	rep := s.reps[dst]
	ci := s.commits[c]
	srcRep := s.src[c]
	if srcRep == dst {
		// find another holder is unnecessary: the closure is already there
	}
	// classify the shape of the receiver's frontier before the merge
	heads := rep.n.CompositeHeads(s.ctx, ci.DocID)
	if rep.M[c] {
		s.shape["redelivery"] = true
		isHead := false
		for _, h := range heads {
			if h == c {
				isHead = true
			}
		}
		if !isHead {
			s.shape["redelivered_ancestor"] = true
		}
	}
	if len(heads) >= 2 {
		s.shape["multi_head_on_merge"] = true
		hts := map[uint64]bool{}
		for _, h := range heads {
			if hc := s.commits[h]; hc != nil {
				hts[hc.Height] = true
			}
		}
		if len(hts) > 1 {
			s.shape["frontier_heights_distinct"] = true
		}
		if len(heads) >= 3 {
			s.shape["three_way_branch"] = true
		}
	}
	if len(heads) == 0 {
		s.shape["merge_unknown_doc"] = true
	}
	for _, h := range heads {
		if hc := s.commits[h]; hc != nil && hc.Height == ci.Height && h != c && !rep.M[c] {
			s.shape["tie_equal_height"] = true
			// null involved in a same-field tie?
			for f, v := range ci.Writes {
				if hv, ok := hc.Writes[f]; ok && (v == nil) != (hv == nil) {
					_ = f
					s.shape["tie_with_null"] = true
				}
			}
		}
	}
	before := ""
	if s.O.Fold {
		before = s.docView(dst, ci.DocID)
	}
	core.CopyClosure(s.ctx, s.reps[srcRep].n, rep.n, core.ParseCid(c))
	err := s.merge(rep, ci.DocID, c)
	s.rec.Count("deliveries", 1)
	s.logf("%sdeliver %s(h%d) of %s r%d->r%d heads_before=%d err=%v", tag, c[len(c)-5:], ci.Height, short(ci.DocID), srcRep, dst, len(heads), err)
	if err != nil {
		if s.P.Config == "uniq" && isUniqErr(err) {
			rep.uniqBlocked = true
			s.rec.Count("legit_uniq_merge_rejections", 1)
			return false
		}
		if s.O.Converge {
			s.violate("merge-error/"+errClass(err), "merge of a well-formed commit whose ancestors are available failed: "+err.Error())
		}
		if s.O.Fold {
			if after := s.docView(dst, ci.DocID); after != before {
				s.violate("failed-merge-changed-state", fmt.Sprintf("a merge that returned an error changed the observable state: before=%s after=%s", before, after))
			}
		}
		return false
	}
	s.closure(c, rep.M)
	s.afterStep(dst, ci.DocID, "deliver")
	return true
}

func errClass(err error) string {
	e := err.Error()
	if i := strings.Index(e, ". "); i > 0 {
		e = e[:i]
	}
	if i := strings.Index(e, ": baf"); i > 0 {
		e = e[:i]
	}
	e = strings.Map(func(r rune) rune {
		if r == ' ' {
			return '-'
		}
		return r
	}, e)
	if len(e) > 60 {
		e = e[:60]
	}
	return e
}

func (s *Sim) closure(c string, out map[string]bool) {
	if out[c] {
		return
	}
	out[c] = true
	for _, p := range s.commits[c].Parents {
		s.closure(p, out)
	}
}

// ---------------------------------------------------------------------------------------
// history recipes

// genesisFirst: every replica first merges the genesis commit of each document, then
// replicas write several commits each before anything is exchanged, then random exchange.
func (s *Sim) genesisFirst() {
	nn := len(s.reps)
	ndocs := 1 + s.rng.IntN(2)
	for d := 0; d < ndocs; d++ {
		id := s.create(s.rng.IntN(nn))
		if id == "" {
			continue
		}
		g := s.reps[s.src[s.headOf(id)]].n.CompositeHeads(s.ctx, id)[0]
		for r := 0; r < nn; r++ {
			if !s.reps[r].M[g] {
				s.deliver(r, g, "")
			}
		}
	}
	s.mixed(s.P.Steps, 55)
}

func (s *Sim) headOf(docID string) string {
	for i := len(s.order) - 1; i >= 0; i-- {
		if s.commits[s.order[i]].DocID == docID {
			return s.order[i]
		}
	}
	return ""
}

// randomHistory: one creator, other replicas learn documents through random deliveries.
func (s *Sim) randomHistory() {
	s.create(s.rng.IntN(len(s.reps)))
	s.mixed(s.P.Steps, 45)
}

// mixed runs `steps` steps; localPct percent are local operations.
func (s *Sim) mixed(steps, localPct int) {
	nn := len(s.reps)
	for step := 0; step < steps; step++ {
		r := s.rng.IntN(nn)
		x := s.rng.IntN(100)
		switch {
		case x < 4 && len(s.docIDs) < 3:
			s.create(r)
		case x < localPct-6 && len(s.docIDs) > 0:
			d := s.docIDs[s.rng.IntN(len(s.docIDs))]
			if s.knows(r, d) {
				// bursts: a replica writes k>1 commits before any exchange
				k := 1 + s.rng.IntN(3)
				for j := 0; j < k; j++ {
					s.update(r, d, s.rng.IntN(3) == 0)
				}
			}
		case x < localPct && len(s.docIDs) > 0:
			d := s.docIDs[s.rng.IntN(len(s.docIDs))]
			if s.knows(r, d) && s.rng.IntN(3) == 0 {
				s.del(r, d)
			}
		case x < localPct+4 && len(s.order) > 0:
			// a read-only time-travel query at an arbitrary known commit: must not change anything
			c := s.order[s.rng.IntN(len(s.order))]
			if s.reps[r].M[c] {
				s.timeTravel(r, c)
			}
		default:
			if len(s.order) == 0 {
				continue
			}
			if s.branchable() && len(s.colOrder) > 0 && s.rng.IntN(3) == 0 {
				s.deliverCol(r, s.colOrder[s.rng.IntN(len(s.colOrder))], "")
				continue
			}
			// prefer older commits: index drawn from a distribution skewed to the past
			var c string
			switch s.rng.IntN(3) {
			case 0:
				c = s.order[s.rng.IntN(len(s.order))]
			case 1:
				c = s.order[s.rng.IntN(1+len(s.order)/2)]
			default:
				// a current head of some replica
				rr := s.rng.IntN(nn)
				if len(s.docIDs) > 0 {
					d := s.docIDs[s.rng.IntN(len(s.docIDs))]
					hs := s.reps[rr].n.CompositeHeads(s.ctx, d)
					if len(hs) > 0 {
						c = hs[s.rng.IntN(len(hs))]
					}
				}
				if c == "" {
					c = s.order[s.rng.IntN(len(s.order))]
				}
			}
			if s.commits[c] == nil {
				continue
			}
			s.deliver(r, c, "")
		}
	}
}

// anchor histories: seed-independent shapes that hit each coverage floor deliberately.
func (s *Sim) anchor() {
	switch s.P.Recipe {
	case "anchor-unequal-heights":
		// r0 creates; all merge genesis; r1 writes 1 commit, r2 writes 3 commits;
		// r0 merges r2's head (h4) then r1's (h2): frontier {h4,h2}; then r1's again, then an
		// old ancestor of r2 (h2) is re-delivered against a frontier with heights 4 and 2.
		id := s.createWith(0, map[string]any{"name": "anchor", "n": 1, "s": "a"})
		g := s.headOf(id)
		for r := 1; r < len(s.reps); r++ {
			s.deliver(r, g, "")
		}
		s.updateWith(1, id, map[string]any{"n": 2, "s": "b"})
		c1 := s.headOf(id)
		s.updateWith(2, id, map[string]any{"n": 3})
		c2a := s.headOf(id)
		s.updateWith(2, id, map[string]any{"n": 1, "s": nil})
		s.updateWith(2, id, map[string]any{"n": 1, "i": 2})
		c2c := s.headOf(id)
		s.deliver(0, c2c, "")
		s.deliver(0, c1, "")
		s.deliver(0, c1, "")  // duplicate
		s.deliver(0, c2a, "") // old ancestor against unequal heights
		s.deliver(0, g, "")
		s.updateWith(0, id, map[string]any{"n": 1})
		s.deliver(1, c2a, "")
		s.deliver(1, c2c, "")
		s.deliver(1, c2a, "")
		s.deliver(2, c1, "")
		s.deliver(2, s.headOf(id), "")
	case "anchor-single-writer":
		// one node writes a history of counter and register updates (used with document encryption):
		// every stored field commit must have height = 1 + the height of its parent
		id := s.createWith(0, map[string]any{"name": "anchor5", "n": 1, "p": 1, "nf": 0.5, "s": "a"})
		g := s.headOf(id)
		s.updateWith(0, id, map[string]any{"n": 2})
		s.updateWith(0, id, map[string]any{"p": 2, "s": "b"})
		mid := s.headOf(id)
		s.updateWith(0, id, map[string]any{"nf": 1.25, "n": -1})
		s.deliver(0, g, "")
		s.deliver(0, mid, "")
		s.updateWith(0, id, map[string]any{"n": 3, "i": 1})
	case "anchor-null-tie":
		// two replicas write the same field at the same height, one of them null.
		id := s.createWith(0, map[string]any{"name": "anchor2", "s": "a", "i": 1})
		g := s.headOf(id)
		for r := 1; r < len(s.reps); r++ {
			s.deliver(r, g, "")
		}
		s.updateWith(0, id, map[string]any{"s": nil, "i": 2})
		a := s.headOf(id)
		s.updateWith(1, id, map[string]any{"s": "b", "i": nil})
		b := s.headOf(id)
		s.deliver(0, b, "")
		s.deliver(1, a, "")
		if len(s.reps) > 2 {
			s.updateWith(2, id, map[string]any{"s": nil, "i": nil})
			c := s.headOf(id)
			s.deliver(2, a, "")
			s.deliver(2, b, "")
			s.deliver(0, c, "")
			s.deliver(1, c, "")
		}
	case "anchor-delete-unknown":
		// a document is created, updated and deleted on r0; r1 learns the whole history at once.
		id := s.createWith(0, map[string]any{"name": "anchor3", "s": "a", "n": 2})
		s.updateWith(0, id, map[string]any{"s": "b", "n": 1})
		mid := s.headOf(id)
		s.del(0, id)
		s.deliver(1, s.headOf(id), "")
		if len(s.reps) > 2 {
			s.deliver(2, mid, "")
			s.updateWith(2, id, map[string]any{"n": 3})
			s.deliver(2, s.commits[s.headOf(id)].Parents[0], "")
			for _, c := range s.order {
				if s.commits[c].Deleted {
					s.deliver(2, c, "")
				}
			}
		}
	case "anchor-float-counter-order":
		// increments of a Float counter that are not exactly representable: 0.1, then +0.2 on one
		// replica and -0.3 on another, exchanged in different orders (C01 only)
		id := s.createWith(0, map[string]any{"name": "anchor6", "nf": 0.1})
		g := s.headOf(id)
		for r := 1; r < len(s.reps); r++ {
			s.deliver(r, g, "")
		}
		s.updateWith(1, id, map[string]any{"nf": 0.2})
		h1 := s.headOf(id)
		s.updateWith(2, id, map[string]any{"nf": -0.3})
		h2 := s.headOf(id)
		s.deliver(0, h1, "")
		s.deliver(0, h2, "")
		s.deliver(1, h2, "")
		s.deliver(2, h1, "")
	case "anchor-three-way":
		id := s.createWith(0, map[string]any{"name": "anchor4", "n": 1, "p": 1})
		g := s.headOf(id)
		for r := 1; r < len(s.reps); r++ {
			s.deliver(r, g, "")
		}
		var hs []string
		for r := 0; r < len(s.reps); r++ {
			s.updateWith(r, id, map[string]any{"n": r + 1, "p": 1, "nf": 0.5})
			hs = append(hs, s.headOf(id))
		}
		for r := 0; r < len(s.reps); r++ {
			for _, h := range hs {
				s.deliver(r, h, "")
			}
		}
		// merge commit on r0 (three parents), then redeliver each branch everywhere
		s.updateWith(0, id, map[string]any{"n": 1})
		m := s.headOf(id)
		for r := 1; r < len(s.reps); r++ {
			s.deliver(r, hs[0], "")
			s.deliver(r, m, "")
			s.deliver(r, hs[len(hs)-1], "")
		}
	}
}

func (s *Sim) createWith(r int, m map[string]any) string {
	doc, err := client.NewDocFromMap(m, s.col(r).Definition())
	core.Must(err)
	core.Must(s.col(r).Create(s.ctx, doc, s.createOpts()...))
	id := doc.ID().String()
	s.docIDs = append(s.docIDs, id)
	s.recordLocal(r, id, m)
	s.logf("create %s on r%d %s", short(id), r, core.Canon(m))
	s.afterStep(r, id, "create")
	return id
}

func (s *Sim) updateWith(r int, docID string, w map[string]any) {
	id, _ := client.NewDocIDFromString(docID)
	d, err := s.col(r).Get(s.ctx, id, false)
	if err != nil {
		s.logf("updateWith: get on r%d: %v", r, err)
		return
	}
	for f, v := range w {
		core.Must(d.Set(f, v))
	}
	if err := s.col(r).Update(s.ctx, d); err != nil {
		s.violate("local-update-failed", "local update of a live document failed: "+err.Error())
		return
	}
	s.recordLocal(r, docID, w)
	s.logf("update %s on r%d %s", short(docID), r, core.Canon(w))
	s.afterStep(r, docID, "update")
}

// timeTravel issues a versioned read of commit c on replica r and re-runs the step oracles: a
// query is read-only, so heads, values and the DAG must be exactly as before.
func (s *Sim) timeTravel(r int, c string) {
	ci := s.commits[c]
	before := s.docView(r, ci.DocID)
	_, errs := s.reps[r].n.GQL(s.ctx, fmt.Sprintf(`query { Doc(cid: "%s", docID: "%s") { _docID name s n } }`, c, ci.DocID))
	s.rec.Count("time_travel_reads", 1)
	s.logf("time-travel read of %s(h%d) of %s on r%d errs=%v", c[len(c)-5:], ci.Height, short(ci.DocID), r, errs)
	if after := s.docView(r, ci.DocID); after != before {
		s.violate("read-only-query-changed-document", fmt.Sprintf("a time-travel query changed the current state of the document: before=%s after=%s", before, after))
	}
	s.afterStep(r, ci.DocID, "time-travel-read")
}

// antiEntropy delivers every head of every replica to every other replica, shuffled, twice.
func (s *Sim) antiEntropy() {
	nn := len(s.reps)
	for round := 0; round < 2; round++ {
		type dl struct {
			dst int
			c   string
		}
		var all []dl
		for i := 0; i < nn; i++ {
			for _, d := range s.docIDs {
				for _, h := range s.reps[i].n.CompositeHeads(s.ctx, d) {
					if s.commits[h] == nil {
						continue
					}
					for j := 0; j < nn; j++ {
						if i != j {
							s.src[h] = i
							all = append(all, dl{j, h})
						}
					}
				}
			}
		}
		if s.branchable() {
			for i := 0; i < nn; i++ {
				for _, h := range s.colHeads(i) {
					if s.colCommits[h] == nil {
						continue
					}
					for j := 0; j < nn; j++ {
						if i != j {
							s.colSrc[h] = i
							all = append(all, dl{j, "col:" + h})
						}
					}
				}
			}
		}
		s.rng.Shuffle(len(all), func(a, b int) { all[a], all[b] = all[b], all[a] })
		for _, x := range all {
			if strings.HasPrefix(x.c, "col:") {
				s.deliverCol(x.dst, strings.TrimPrefix(x.c, "col:"), "AE ")
				continue
			}
			s.deliver(x.dst, x.c, "AE ")
		}
	}
}

// ---------------------------------------------------------------------------------------
// oracles

const viewQuery = `query { Doc(showDeleted: true%s) { _docID _deleted name s i f b t j a bl u n p nf x05 x07 x09 } }`

func (s *Sim) docView(r int, docID string) string {
	data, errs := s.reps[r].n.GQL(s.ctx, fmt.Sprintf(viewQuery, fmt.Sprintf(`, docID: "%s"`, docID)))
	if len(errs) > 0 {
		return "ERR " + strings.Join(errs, ";")
	}
	return data
}

func (s *Sim) afterStep(r int, docID, kind string) {
	if s.O.Fold {
		s.foldCheck(r, docID, kind)
	}
	if s.O.Audit {
		s.audit(r, kind)
	}
}

func canonVal(v any) string {
	b, _ := json.Marshal(v)
	var x any
	dec := json.NewDecoder(strings.NewReader(string(b)))
	dec.UseNumber()
	_ = dec.Decode(&x)
	return canonNum(x)
}

// canonNum renders numbers so that 1 and 1.0 compare equal.
func canonNum(x any) string {
	switch t := x.(type) {
	case json.Number:
		f, _ := t.Float64()
		return fmt.Sprintf("%v", f)
	case []any:
		var p []string
		for _, e := range t {
			p = append(p, canonNum(e))
		}
		return "[" + strings.Join(p, ",") + "]"
	case map[string]any:
		var ks []string
		for k := range t {
			ks = append(ks, k)
		}
		sort.Strings(ks)
		var p []string
		for _, k := range ks {
			p = append(p, fmt.Sprintf("%q:%s", k, canonNum(t[k])))
		}
		return "{" + strings.Join(p, ",") + "}"
	default:
		b, _ := json.Marshal(t)
		return string(b)
	}
}

// foldCheck compares replica r's view of docID with fold(M_r).
func (s *Sim) foldCheck(r int, docID, kind string) {
	rep := s.reps[r]
	s.rec.Count("evaluations", 1)
	s.rec.Count("fold_checks", 1)
	// commits of this doc in M_r
	var cs []*commitInfo
	for c := range rep.M {
		if ci := s.commits[c]; ci != nil && ci.DocID == docID {
			cs = append(cs, ci)
		}
	}
	if len(cs) == 0 {
		return
	}
	rows, err := rep.n.Rows(s.ctx, fmt.Sprintf(viewQuery, fmt.Sprintf(`, docID: "%s"`, docID)), "Doc")
	if err != nil {
		s.violate("fold/query-error", fmt.Sprintf("query on r%d after %s failed: %v", r, kind, err))
		return
	}
	if len(rows) != 1 {
		s.violate("fold/doc-missing", fmt.Sprintf("r%d has merged %d commits of %s but the document is returned %d times (after %s)", r, len(cs), short(docID), len(rows), kind))
		return
	}
	row := rows[0]
	wantDel := false
	for _, ci := range cs {
		if ci.Deleted {
			wantDel = true
		}
	}
	gotDel, _ := row["_deleted"].(bool)
	if gotDel != wantDel {
		sig := "fold/deleted-status"
		if rep.deletedSeen[docID] && !gotDel {
			sig = "fold/resurrected"
		}
		s.violate(sig, fmt.Sprintf("r%d doc %s after %s: _deleted=%v but merged commits contain delete=%v", r, short(docID), kind, gotDel, wantDel))
	}
	if gotDel {
		rep.deletedSeen[docID] = true
	}
	// ancestor relation among cs
	anc := map[string]map[string]bool{}
	var ancOf func(c string) map[string]bool
	ancOf = func(c string) map[string]bool {
		if a, ok := anc[c]; ok {
			return a
		}
		a := map[string]bool{}
		anc[c] = a
		for _, p := range s.commits[c].Parents {
			a[p] = true
			for k := range ancOf(p) {
				a[k] = true
			}
		}
		return a
	}
	// counters: exact sums
	for _, f := range counterFields {
		sum := 0.0
		any := false
		for _, ci := range cs {
			if v, ok := ci.Writes[f]; ok && v != nil && has(ci.Fields, f) {
				sum += toF(v)
				any = true
			}
		}
		got := row[f]
		if !any {
			if got != nil && toF(got) != 0 {
				s.violate("fold/counter", fmt.Sprintf("r%d doc %s field %s after %s: got %v but no merged commit increments it", r, short(docID), f, kind, got))
			}
			continue
		}
		if got == nil || toF(got) != sum {
			s.violate("fold/counter", fmt.Sprintf("r%d doc %s counter %s after %s: got %v, sum of merged increments is %v (%d merged commits)", r, short(docID), f, kind, got, sum, len(cs)))
		}
	}
	if wantDel {
		return // field values of deleted documents are not judged (status only)
	}
	// registers: membership in the causally maximal writes
	for _, f := range append([]string{"name"}, registerFields...) {
		var writers []*commitInfo
		for _, ci := range cs {
			if has(ci.Fields, f) {
				writers = append(writers, ci)
			}
		}
		got := canonVal(row[f])
		if len(writers) == 0 {
			if got != "null" {
				s.violate("fold/register", fmt.Sprintf("r%d doc %s field %s after %s: got %s but no merged commit writes it", r, short(docID), f, kind, got))
			}
			continue
		}
		var allowed []string
		for _, w := range writers {
			superseded := false
			for _, w2 := range writers {
				if w2 != w && ancOf(w2.Cid)[w.Cid] {
					superseded = true
					break
				}
			}
			if !superseded {
				allowed = append(allowed, canonVal(w.Writes[f]))
			}
		}
		ok := false
		for _, a := range allowed {
			if a == got {
				ok = true
			}
		}
		if !ok {
			s.violate("fold/register", fmt.Sprintf("r%d doc %s field %s after %s: got %s, causally latest merged writes are %v", r, short(docID), f, kind, got, allowed))
		}
	}
}

func has(l []string, x string) bool {
	for _, e := range l {
		if e == x {
			return true
		}
	}
	return false
}

func toF(v any) float64 {
	switch t := v.(type) {
	case int:
		return float64(t)
	case int64:
		return float64(t)
	case float64:
		return t
	case json.Number:
		f, _ := t.Float64()
		return f
	}
	return 0
}

// quiescence: C01 agreement, plus the final fold check and audit on every replica.
func (s *Sim) quiescence() {
	nn := len(s.reps)
	blocked := false
	for _, r := range s.reps {
		if r.uniqBlocked {
			blocked = true
		}
	}
	if s.O.Fold {
		for r := 0; r < nn; r++ {
			for _, d := range s.docIDs {
				s.foldCheck(r, d, "quiescence")
			}
		}
	}
	if s.O.Audit {
		for r := 0; r < nn; r++ {
			s.audit(r, "quiescence")
		}
	}
	if !s.O.Converge || blocked {
		if blocked {
			s.rec.Count("histories_with_legit_uniq_rejection", 1)
		}
		return
	}
	s.rec.Count("evaluations", 1)
	q0, e0 := s.reps[0].n.GQL(s.ctx, fmt.Sprintf(viewQuery, ""))
	l0, _ := s.reps[0].n.GQL(s.ctx, `query { Doc { _docID name s i f b t j a bl u n p nf x05 x07 x09 } }`)
	for i := 1; i < nn; i++ {
		q, e := s.reps[i].n.GQL(s.ctx, fmt.Sprintf(viewQuery, ""))
		if q != q0 || strings.Join(e, ";") != strings.Join(e0, ";") {
			s.logf("r0: %s %v", q0, e0)
			s.logf("r%d: %s %v", i, q, e)
			sig := "diverge/documents"
			if s.P.Recipe == "anchor-float-counter-order" {
				sig += "/float-counter-sum-depends-on-merge-order"
			}
			s.violate(sig, fmt.Sprintf("after every replica merged every commit, r0 and r%d return different documents (showDeleted view)", i))
			break
		}
		l, _ := s.reps[i].n.GQL(s.ctx, `query { Doc { _docID name s i f b t j a bl u n p nf x05 x07 x09 } }`)
		if l != l0 {
			s.logf("r0: %s", l0)
			s.logf("r%d: %s", i, l)
			s.violate("diverge/live-documents", fmt.Sprintf("after every replica merged every commit, r0 and r%d return different live documents", i))
			break
		}
	}
	for _, d := range s.docIDs {
		c0, f0 := s.headSets(0, d)
		for i := 1; i < nn; i++ {
			ci, fi := s.headSets(i, d)
			if ci != c0 {
				s.logf("r0 heads: %s", c0)
				s.logf("r%d heads: %s", i, ci)
				s.violate("diverge/heads", fmt.Sprintf("after every replica merged every commit, r0 and r%d report different head commits for %s", i, short(d)))
				break
			}
			if strings.Join(fi, ",") != strings.Join(f0, ",") {
				// field-level head sets differ: is every surplus head on either side a stale head, i.e.
				// an ancestor (in its field DAG) of another stored head of the same field on that replica?
				sig := "diverge/field-heads"
				if s.onlyStaleFieldHeads(0, d, f0, fi) && s.onlyStaleFieldHeads(i, d, fi, f0) {
					sig = "diverge/field-heads/stale-identical-field-block-readded-on-one-replica"
				}
				s.logf("r0 field heads: %v", f0)
				s.logf("r%d field heads: %v", i, fi)
				s.violate(sig, fmt.Sprintf("after every replica merged every commit, r0 and r%d report different field-level head commits for %s", i, short(d)))
				break
			}
		}
	}
	if s.branchable() {
		h0 := strings.Join(s.colHeads(0), ",")
		for i := 1; i < nn; i++ {
			if h := strings.Join(s.colHeads(i), ","); h != h0 {
				s.logf("r0 collection heads: %s", h0)
				s.logf("r%d collection heads: %s", i, h)
				s.violate("diverge/collection-heads", fmt.Sprintf("after every replica merged every commit, r0 and r%d report different collection-level head commits", i))
				break
			}
		}
	}
	if s.P.Config == "indexed" {
		s.indexAgreement()
	}
}

// headSets returns (composite head view: raw composite heads with stored heights + latestCommits
// of the public API, sorted raw field-level head keys "<fieldID>/<cid>=<height>").
func (s *Sim) headSets(r int, docID string) (string, []string) {
	n := s.reps[r].n
	raw := n.RawScan(s.ctx, "/db/heads/d/"+docID+"/")
	var comp, fld []string
	for k, v := range raw {
		rest := strings.TrimPrefix(k, "/db/heads/d/"+docID+"/")
		e := rest + "=" + fmt.Sprintf("%x", v)
		if strings.HasPrefix(rest, icore.COMPOSITE_NAMESPACE+"/") {
			comp = append(comp, e)
		} else {
			fld = append(fld, e)
		}
	}
	sort.Strings(comp)
	sort.Strings(fld)
	lc, errs := n.GQL(s.ctx, fmt.Sprintf(`query { latestCommits(docID: "%s") { cid height } }`, docID))
	return strings.Join(comp, ",") + " latest=" + lc + strings.Join(errs, ";"), fld
}

// onlyStaleFieldHeads: every head of `mine` that `other` lacks is an ancestor, in its own field
// DAG, of another stored head of the same field on replica r.
func (s *Sim) onlyStaleFieldHeads(r int, docID string, mine, other []string) bool {
	n := s.reps[r].n
	oset := map[string]bool{}
	for _, o := range other {
		oset[o] = true
	}
	byField := map[string][]string{}
	for _, m := range mine {
		parts := strings.SplitN(m, "/", 2)
		c := parts[1][:strings.Index(parts[1], "=")]
		byField[parts[0]] = append(byField[parts[0]], c)
	}
	for _, m := range mine {
		if oset[m] {
			continue
		}
		parts := strings.SplitN(m, "/", 2)
		c := parts[1][:strings.Index(parts[1], "=")]
		stale := false
		for _, h := range byField[parts[0]] {
			if h != c && s.fieldAncestor(n, h, c, map[string]bool{}) {
				stale = true
			}
		}
		if !stale {
			return false
		}
	}
	return true
}

// fieldAncestor reports whether `anc` is reachable from `from` through Heads links.
func (s *Sim) fieldAncestor(n *core.Node, from, anc string, seen map[string]bool) bool {
	if seen[from] {
		return false
	}
	seen[from] = true
	blk, _, err := n.GetBlock(s.ctx, core.ParseCid(from))
	if err != nil {
		return false
	}
	for _, h := range blk.Heads {
		if h.Cid.String() == anc || s.fieldAncestor(n, h.Cid.String(), anc, seen) {
			return true
		}
	}
	return false
}

func (s *Sim) indexAgreement() {
	for r := range s.reps {
		n := s.reps[r].n
		all, err := n.Rows(s.ctx, `query { Doc { _docID s i } }`, "Doc")
		if err != nil {
			continue
		}
		for _, q := range []struct{ f, v string }{{"s", `"a"`}, {"s", `"b"`}, {"i", "1"}, {"i", "2"}} {
			rows, err := n.Rows(s.ctx, fmt.Sprintf(`query { Doc(filter: {%s: {_eq: %s}}) { _docID } }`, q.f, q.v), "Doc")
			if err != nil {
				s.violate("index/query-error", err.Error())
				continue
			}
			var got, want []string
			for _, row := range rows {
				got = append(got, row["_docID"].(string))
			}
			for _, row := range all {
				if canonVal(row[q.f]) == canonVal(json.RawMessage(q.v)) {
					want = append(want, row["_docID"].(string))
				}
			}
			sort.Strings(got)
			sort.Strings(want)
			if strings.Join(got, ",") != strings.Join(want, ",") {
				s.violate("index/stale-after-merge", fmt.Sprintf("r%d: index-served query %s=%s returns %v, scan says %v", r, q.f, q.v, got, want))
			}
		}
	}
}

// ---------------------------------------------------------------------------------------
// C04: DAG auditor

func blockKeyHash(key string) (mh.Multihash, error) {
	suffix := strings.TrimPrefix(key, "/db/blocks")
	return dshelp.DsKeyToMultihash(ds.NewKey(suffix))
}

// audit checks the structural invariants of the commit graph on replica r at a quiescent point.
func (s *Sim) audit(r int, kind string) {
	rep := s.reps[r]
	n := rep.n
	s.rec.Count("evaluations", 1)
	s.rec.Count("audits", 1)
	// (1) content addressing of every stored block
	blocks := n.RawScan(s.ctx, "/db/blocks/")
	for k, v := range blocks {
		h, err := blockKeyHash(k)
		if err != nil {
			s.violate("audit/bad-block-key", "undecodable block key "+k)
			continue
		}
		sum := sha256.Sum256([]byte(v))
		want, _ := mh.Encode(sum[:], mh.SHA2_256)
		if string(h) != string(want) {
			s.violate("audit/content-address", fmt.Sprintf("r%d: block stored under %s does not hash to its key (after %s)", r, k, kind))
		}
		s.rec.Count("blocks_checked", 1)
	}
	hasBlock := func(c cid.Cid) bool {
		_, ok := blocks["/db/blocks"+dshelp.MultihashToDsKey(c.Hash()).String()]
		return ok
	}
	multi := false
	for _, d := range s.docIDs {
		var cs []string
		for c := range rep.M {
			if ci := s.commits[c]; ci != nil && ci.DocID == d {
				cs = append(cs, c)
			}
		}
		if len(cs) == 0 {
			continue
		}
		isParent := map[string]bool{}
		// per-field DAG: field block cid -> info
		type fb struct {
			height  uint64
			parents []string
		}
		fields := map[string]map[string]fb{}
		for _, c := range cs {
			blk, _, err := n.GetBlock(s.ctx, core.ParseCid(c))
			if err != nil {
				s.violate("audit/merged-commit-missing", fmt.Sprintf("r%d: merged commit %s has no stored block", r, c))
				continue
			}
			// (2) closure + (3) heights, composite DAG
			var maxp uint64
			for _, h := range blk.Heads {
				isParent[h.Cid.String()] = true
				if !hasBlock(h.Cid) {
					s.violate("audit/dangling-parent", fmt.Sprintf("r%d: parent %s of merged commit %s is not stored", r, h.Cid, c))
					continue
				}
				pb := n.MustBlock(s.ctx, h.Cid)
				if p := pb.Delta.GetPriority(); p > maxp {
					maxp = p
				}
				s.rec.Count("links_resolved", 1)
			}
			if blk.Delta.GetPriority() != maxp+1 {
				s.violate("audit/height", fmt.Sprintf("r%d: commit %s has height %d but the greatest parent height is %d", r, c, blk.Delta.GetPriority(), maxp))
			}
			for _, l := range blk.Links {
				if !hasBlock(l.Cid) {
					s.violate("audit/dangling-link", fmt.Sprintf("r%d: field link %s (%s) of merged commit %s is not stored", r, l.Cid, l.Name, c))
					continue
				}
				s.rec.Count("links_resolved", 1)
				fblk := n.MustBlock(s.ctx, l.Cid)
				var fmax uint64
				info := fb{height: fblk.Delta.GetPriority()}
				for _, h := range fblk.Heads {
					info.parents = append(info.parents, h.Cid.String())
					if !hasBlock(h.Cid) {
						s.violate("audit/dangling-field-parent", fmt.Sprintf("r%d: parent %s of field block %s (%s) is not stored", r, h.Cid, l.Cid, l.Name))
						continue
					}
					pblk := n.MustBlock(s.ctx, h.Cid)
					if pblk.Delta.GetFieldName() != fblk.Delta.GetFieldName() || string(pblk.Delta.GetDocID()) != string(fblk.Delta.GetDocID()) {
						s.violate("audit/field-parent-of-another-field", fmt.Sprintf("r%d: field block %s of field %q names as parent a block of field %q (doc %s / %s): the per-field DAGs are entangled", r, l.Cid, fblk.Delta.GetFieldName(), pblk.Delta.GetFieldName(), short(string(fblk.Delta.GetDocID())), short(string(pblk.Delta.GetDocID()))))
					}
					if p := pblk.Delta.GetPriority(); p > fmax {
						fmax = p
					}
				}
				if info.height != fmax+1 {
					s.violate("audit/field-height", fmt.Sprintf("r%d: field block %s (%s) has height %d but the greatest parent height is %d", r, l.Cid, l.Name, info.height, fmax))
				}
				if fields[l.Name] == nil {
					fields[l.Name] = map[string]fb{}
				}
				fields[l.Name][l.Cid.String()] = info
			}
			if blk.Signature != nil && !hasBlock(blk.Signature.Cid) {
				s.violate("audit/dangling-signature", fmt.Sprintf("r%d: signature link of %s is not stored", r, c))
			}
		}
		// (4) heads = maximal elements of the merged set, stored height = priority
		var want []string
		for _, c := range cs {
			if !isParent[c] {
				want = append(want, c)
			}
		}
		sort.Strings(want)
		cids, _, err := n.Heads(s.ctx, d, icore.COMPOSITE_NAMESPACE)
		core.Must(err)
		var got []string
		for _, c := range cids {
			got = append(got, c.String())
		}
		sort.Strings(got)
		s.rec.Count("head_sets_compared", 1)
		if len(got) > 1 {
			multi = true
		}
		if strings.Join(got, ",") != strings.Join(want, ",") {
			s.violate("audit/heads-not-maximal", fmt.Sprintf("r%d doc %s after %s: stored composite heads (%d) are not the maximal merged commits (%d): got %v want %v", r, short(d), kind, len(got), len(want), tails(got), tails(want)))
		}
		rawHeads := n.RawScan(s.ctx, "/db/heads/d/"+d+"/"+icore.COMPOSITE_NAMESPACE+"/")
		s.rec.Count("raw_head_entries", int64(len(rawHeads)))
		for k, v := range rawHeads {
			cs := k[strings.LastIndex(k, "/")+1:]
			c, err := cid.Decode(cs)
			if err != nil {
				continue
			}
			if !hasBlock(c) {
				s.violate("audit/head-without-block", fmt.Sprintf("r%d: head %s has no stored block", r, cs))
				continue
			}
			hgt, nn := uvarint([]byte(v))
			if nn <= 0 || hgt != n.MustBlock(s.ctx, c).Delta.GetPriority() {
				s.violate("audit/head-height", fmt.Sprintf("r%d: stored height of head %s is %d but the block's height is %d", r, cs, hgt, n.MustBlock(s.ctx, c).Delta.GetPriority()))
			}
		}
		// latestCommits (public API) must name the same heads
		var rows []map[string]any
		err = fmt.Errorf("skipped on the memory store")
		if s.P.Store != "memory" {
			rows, err = n.Rows(s.ctx, fmt.Sprintf(`query { latestCommits(docID: "%s") { cid } }`, d), "latestCommits")
		}
		if err == nil {
			var lc []string
			for _, row := range rows {
				lc = append(lc, row["cid"].(string))
			}
			sort.Strings(lc)
			if strings.Join(lc, ",") != strings.Join(want, ",") {
				s.violate("audit/latestCommits", fmt.Sprintf("r%d doc %s: latestCommits reports %v, maximal merged commits are %v", r, short(d), tails(lc), tails(want)))
			}
		}
		// per-field heads
		for fname, fbs := range fields {
			fIsParent := map[string]bool{}
			for _, info := range fbs {
				for _, p := range info.parents {
					fIsParent[p] = true
				}
			}
			var fwant []string
			for c := range fbs {
				if !fIsParent[c] {
					fwant = append(fwant, c)
				}
			}
			sort.Strings(fwant)
			fgot := s.fieldHeads(n, d, fname)
			s.rec.Count("head_sets_compared", 1)
			if strings.Join(fgot, ",") != strings.Join(fwant, ",") {
				// classify: nothing is missing and every surplus stored head is a field block that is
				// merged AND named as parent by another merged field block, i.e. a field block with
				// identical content (same parents, same value, no nonce) was written independently on
				// two nodes and re-added as head when the other node's composite was merged.
				sig := "audit/field-heads-not-maximal"
				wantSet := map[string]bool{}
				for _, w := range fwant {
					wantSet[w] = true
				}
				gotSet := map[string]bool{}
				onlyStaleLeaves := true
				for _, g := range fgot {
					gotSet[g] = true
					if wantSet[g] {
						continue
					}
					if _, in := fbs[g]; !(in && fIsParent[g]) {
						onlyStaleLeaves = false
					}
				}
				for _, w := range fwant {
					if !gotSet[w] {
						onlyStaleLeaves = false
					}
				}
				if onlyStaleLeaves {
					sig = "audit/field-heads/already-merged-identical-field-block-readded-as-head"
				}
				s.violate(sig, fmt.Sprintf("r%d doc %s field %s after %s: stored heads %v, maximal merged field commits %v", r, short(d), fname, kind, tails(fgot), tails(fwant)))
			}
		}
	}
	s.auditCol(r, kind)
	if multi {
		s.rec.Count("audits_with_multi_head_frontier", 1)
	}
}

func uvarint(b []byte) (uint64, int) {
	var x uint64
	var sft uint
	for i, c := range b {
		if c < 0x80 {
			return x | uint64(c)<<sft, i + 1
		}
		x |= uint64(c&0x7f) << sft
		sft += 7
	}
	return 0, 0
}

func tails(l []string) []string {
	out := make([]string, len(l))
	for i, c := range l {
		if len(c) > 6 {
			out[i] = c[len(c)-6:]
		} else {
			out[i] = c
		}
	}
	return out
}

// fieldHeads returns the stored head set of (doc, field) by scanning /db/heads/<doc>/ and
// matching blocks by field name (field ids are short ids; the block itself names the field).
func (s *Sim) fieldHeads(n *core.Node, docID, field string) []string {
	raw := n.RawScan(s.ctx, "/db/heads/d/"+docID+"/")
	var out []string
	for k := range raw {
		parts := strings.Split(k, "/")
		if len(parts) < 7 || parts[5] == icore.COMPOSITE_NAMESPACE {
			continue
		}
		c, err := cid.Decode(parts[len(parts)-1])
		if err != nil {
			continue
		}
		blk, _, err := n.GetBlock(s.ctx, c)
		if err != nil {
			continue
		}
		if blk.Delta.GetFieldName() == field {
			out = append(out, c.String())
		}
	}
	sort.Strings(out)
	return out
}

var _ = coreblock.GetFromBytes
