// vh is the single harness binary: `vh <ID>` supervises the check of one property,
// `vh worker <ID> …` runs a slice of its cases, `vh <ID> --replay <file>` re-executes a witness.
package main

import (
	"flag"
	"fmt"
	"os"
	"strconv"

	"github.com/sourcenetwork/defradb/verifharness/core"
)

func main() {
	if len(os.Args) < 2 {
		fmt.Println("usage: vh <property-id> [--tier quick|thorough] [--seed N] [--replay file] | vh list")
		os.Exit(2)
	}
	if os.Args[1] == "list" {
		for _, id := range core.IDs() {
			fmt.Println(id)
		}
		return
	}
	worker := false
	args := os.Args[1:]
	if args[0] == "worker" {
		worker = true
		args = args[1:]
	}
	id := args[0]
	fs := flag.NewFlagSet("vh", flag.ExitOnError)
	tier := fs.String("tier", envOr("VERIF_TIER", "quick"), "quick|thorough")
	seedS := fs.String("seed", envOr("VERIF_SEED", "1"), "seed")
	replay := fs.String("replay", "", "witness file")
	w := fs.Int("w", 0, "")
	n := fs.Int("n", 1, "")
	from := fs.Int("from", 0, "")
	out := fs.String("out", "", "")
	journal := fs.String("journal", "", "")
	_ = fs.Parse(args[1:])
	chk := core.Lookup(id)
	if chk == nil {
		fmt.Println("unknown property", id)
		os.Exit(2)
	}
	seed, err := strconv.ParseUint(*seedS, 10, 64)
	if err != nil {
		// any string is accepted as a seed: hash it
		for _, c := range []byte(*seedS) {
			seed = seed*1099511628211 + uint64(c)
		}
	}
	if *tier != "quick" && *tier != "thorough" {
		*tier = "quick"
	}
	switch {
	case worker:
		os.Exit(core.RunWorker(chk, seed, *tier, *w, *n, *from, *out, *journal))
	case *replay != "":
		os.Exit(core.Replay(chk, *replay))
	default:
		self, _ := os.Executable()
		os.Exit(core.Supervise(chk, seed, *tier, self))
	}
}

func envOr(k, d string) string {
	if v := os.Getenv(k); v != "" {
		return v
	}
	return d
}
