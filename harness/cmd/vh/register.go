package main

import (
	_ "github.com/sourcenetwork/defradb/verifharness/checks"
)
