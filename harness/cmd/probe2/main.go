package main

import (
	"context"
	"fmt"
	"os"

	"github.com/sourcenetwork/defradb/verifharness/core"
)

func main() {
	ctx := context.Background()
	n := core.NewNode(ctx, core.NodeOpts{})
	_, err := n.DB.AddSchema(ctx, os.Args[1])
	core.Must(err)
	for _, q := range os.Args[2:] {
		func() {
			defer func() {
				if p := recover(); p != nil {
					fmt.Println(q, "\n  => PANIC", p)
				}
			}()
			d, e := n.GQL(ctx, q)
			fmt.Println(q, "\n  =>", d, e)
		}()
	}
}
