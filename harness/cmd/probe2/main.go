package main

import (
	"context"
	"fmt"
	"sort"
	"strings"

	"github.com/sourcenetwork/defradb/verifharness/core"
)

func main() {
	ctx := context.Background()
	n := core.NewNode(ctx, core.NodeOpts{})
	_, err := n.DB.AddSchema(ctx, "type User {\n name: String\n age: Int\n tag: String\n pts: Int @crdt(type: pcounter)\n}\n")
	core.Must(err)
	var sb strings.Builder
	for i := 0; i < 12; i++ {
		fmt.Fprintf(&sb, "type Pad%d {\n aaa%d: Int\n tag: Int\n name: Int\n age: Int\n}\n", i, i)
	}
	_, err = n.DB.AddSchema(ctx, sb.String())
	core.Must(err)
	var ks []string
	for k, v := range n.RawScan(ctx, "/db/system/field") {
		ks = append(ks, k+" = "+v)
	}
	sort.Strings(ks)
	for _, k := range ks {
		fmt.Println(k)
	}
	for k, v := range n.RawScan(ctx, "/db/system/collection/short") {
		fmt.Println(k, v)
	}
	var cols any
	_ = cols
}
