package main

import (
	"context"
	"fmt"
	"os"

	"github.com/sourcenetwork/defradb/client"
	"github.com/sourcenetwork/defradb/verifharness/core"
)

func main() {
	ctx := context.Background()
	n := core.NewNode(ctx, core.NodeOpts{})
	_, err := n.DB.AddSchema(ctx, os.Args[1])
	core.Must(err)
	for _, q := range os.Args[2:] {
		d, e := n.GQL(ctx, q)
		fmt.Println(q, "\n  =>", d, e)
	}
	col := n.Col(ctx, "U")
	ids, err := col.GetAllDocIDs(ctx)
	core.Must(err)
	for r := range ids {
		doc, err := col.Get(ctx, r.ID, false)
		core.Must(err)
		m, _ := doc.ToMap()
		fmt.Println("col.Get", m)
	}
	core.Must(n.DB.BasicExport(ctx, &client.BackupConfig{Filepath: "/tmp/probe2-export.json"}))
	b, _ := os.ReadFile("/tmp/probe2-export.json")
	fmt.Println(string(b))
}
