package main

import (
	"context"
	"fmt"
	"sort"

	"github.com/sourcenetwork/defradb/client"
	"github.com/sourcenetwork/defradb/verifharness/core"
	"github.com/sourcenetwork/defradb/verifharness/sim"
)

func main() {
	ctx := context.Background()
	n := core.NewNode(ctx, core.NodeOpts{})
	_, err := n.DB.AddSchema(ctx, sim.SDL("plain"))
	core.Must(err)
	col := n.Col(ctx, "Doc")
	doc, _ := client.NewDocFromMap(map[string]any{"name": "x", "a": []any{1}, "p": 1, "s": "a", "t": "2020-01-02T03:04:05Z", "u": 3}, col.Definition())
	core.Must(col.Create(ctx, doc))
	d, _ := col.Get(ctx, doc.ID(), false)
	d.Set("a", []any{1, 2})
	core.Must(col.Update(ctx, d))
	raw := n.RawScan(ctx, "/db/heads/d/")
	var ks []string
	for k := range raw {
		ks = append(ks, k)
	}
	sort.Strings(ks)
	for _, k := range ks {
		c := core.ParseCid(k[len(k)-59:])
		b := n.MustBlock(ctx, c)
		fmt.Println(k[len("/db/heads/d/bae-b1b8b2ba-1c4f-5a3e-8b4e-000000000000/")-1:len(k)-50], b.Delta.GetFieldName(), "prio", b.Delta.GetPriority(), "heads", len(b.Heads))
	}
}
