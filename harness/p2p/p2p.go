// Package p2p provides a loopback libp2p cluster of real DefraDB nodes (db.NewDB + net.NewPeer on
// 127.0.0.1 with fixed ports and fixed keys) whose members can be taken down (peer closed, or the
// whole node closed) and brought back on the same store, key and address.  It also journals what
// the monitors of C15 need and what the repository does not expose:
//
//   - every gRPC push a node *sends* (client interceptor: start, end, error) and *receives*
//     (server interceptor), so "push in flight" and "sender considers the push delivered" are
//     observations, not guesses;
//   - bus events (update on the sender; merge / merge-complete on the receiver);
//   - error-level log lines of the process (corelog writes to os.Stderr), so that a merge that
//     fails inside the un-observable goroutine of db.handleMessages is seen.
//
// Nothing here reads the clock to judge anything.
package p2p

import (
	"bufio"
	"context"
	"crypto/ed25519"
	"crypto/sha256"
	"encoding/json"
	"fmt"
	gonet "net"
	"os"
	"reflect"
	"sort"
	"strings"
	"sync"
	"time"

	badgerds "github.com/dgraph-io/badger/v4"
	"github.com/fxamacker/cbor/v2"
	"github.com/ipfs/go-cid"
	libp2pCrypto "github.com/libp2p/go-libp2p/core/crypto"
	libpeer "github.com/libp2p/go-libp2p/core/peer"
	"github.com/sourcenetwork/corekv"
	"github.com/sourcenetwork/corekv/badger"
	"github.com/sourcenetwork/corelog"
	"github.com/sourcenetwork/immutable"
	"google.golang.org/grpc"

	"github.com/sourcenetwork/defradb/acp/dac"
	"github.com/sourcenetwork/defradb/client"
	"github.com/sourcenetwork/defradb/event"
	"github.com/sourcenetwork/defradb/internal/db"
	dnet "github.com/sourcenetwork/defradb/net"
	netConfig "github.com/sourcenetwork/defradb/net/config"
	"github.com/sourcenetwork/defradb/node"

	"github.com/sourcenetwork/defradb/verifharness/core"
)

// ---------------------------------------------------------------------------------------
// ports

var (
	portMu   sync.Mutex
	portNext = map[int]int{}
)

// PortBase is the first port of this worker process' private range (200 ports per worker).
func PortBase() int {
	w := 0
	fmt.Sscanf(os.Getenv("VERIF_WORKER"), "%d", &w)
	// 24000..27199 for workers 0..15 (other loopback checks use 20000 + worker*200; libp2p binds
	// with SO_REUSEPORT, so two processes can silently share a port and steal each other's dials)
	base := 24000
	if os.Getenv("VERIF_WORKER") == "" {
		base = 27400 // replay / direct invocations stay clear of the workers' ranges
	}
	return base + (w%16)*200
}

// AllocPort hands out a currently free port of the worker's range (round robin over 200 ports, so
// a port just released by a closed peer is not reused immediately by somebody else).
func AllocPort() int {
	portMu.Lock()
	defer portMu.Unlock()
	base := PortBase()
	for i := 0; i < 400; i++ {
		p := base + portNext[base]%200
		portNext[base]++
		l, err := gonet.Listen("tcp", fmt.Sprintf("127.0.0.1:%d", p))
		if err != nil {
			continue
		}
		_ = l.Close()
		return p
	}
	panic("p2p: no free port in the worker's range")
}

// ---------------------------------------------------------------------------------------
// push journal

// Push is one gRPC PushLog call seen by an interceptor.
type Push struct {
	Seq          int
	Side         string // "send" | "recv"
	DocID        string
	Cid          string
	CollectionID string
	Creator      string
	Done         bool
	Err          string
	// diagnostics only (never used by an oracle)
	StartMs, EndMs int64
}

var t0 = time.Now()

// SinceStartMs is a diagnostic timestamp (milliseconds since process start).
func SinceStartMs() int64 { return time.Since(t0).Milliseconds() }

// Journal records pushes; it survives restarts of the node it belongs to.
type Journal struct {
	mu     sync.Mutex
	pushes []*Push
}

func (j *Journal) start(side string, req any) *Push {
	p := &Push{Side: side, StartMs: time.Since(t0).Milliseconds()}
	v := reflect.ValueOf(req)
	if v.Kind() == reflect.Ptr {
		v = v.Elem()
	}
	if v.Kind() == reflect.Struct {
		if f := v.FieldByName("DocID"); f.IsValid() && f.Kind() == reflect.String {
			p.DocID = f.String()
		}
		if f := v.FieldByName("CollectionID"); f.IsValid() && f.Kind() == reflect.String {
			p.CollectionID = f.String()
		}
		if f := v.FieldByName("Creator"); f.IsValid() && f.Kind() == reflect.String {
			p.Creator = f.String()
		}
		if f := v.FieldByName("CID"); f.IsValid() && f.Kind() == reflect.Slice {
			if c, err := cid.Cast(f.Bytes()); err == nil {
				p.Cid = c.String()
			}
		}
	}
	j.mu.Lock()
	p.Seq = len(j.pushes)
	j.pushes = append(j.pushes, p)
	j.mu.Unlock()
	return p
}

func (j *Journal) end(p *Push, err error) {
	j.mu.Lock()
	p.Done = true
	p.EndMs = time.Since(t0).Milliseconds()
	if err != nil {
		p.Err = err.Error()
	}
	j.mu.Unlock()
}

// Pushes returns a copy of the journal.
func (j *Journal) Pushes() []Push {
	j.mu.Lock()
	defer j.mu.Unlock()
	out := make([]Push, len(j.pushes))
	for i, p := range j.pushes {
		out[i] = *p
	}
	return out
}

const pushLogMethod = "/defradb.net.Service/PushLog"

func (j *Journal) clientInterceptor() grpc.UnaryClientInterceptor {
	return func(ctx context.Context, method string, req, reply any, cc *grpc.ClientConn, invoker grpc.UnaryInvoker, opts ...grpc.CallOption) error {
		if method != pushLogMethod {
			return invoker(ctx, method, req, reply, cc, opts...)
		}
		p := j.start("send", req)
		err := invoker(ctx, method, req, reply, cc, opts...)
		j.end(p, err)
		return err
	}
}

func (j *Journal) serverInterceptor() grpc.UnaryServerInterceptor {
	return func(ctx context.Context, req any, info *grpc.UnaryServerInfo, handler grpc.UnaryHandler) (any, error) {
		if info.FullMethod != pushLogMethod {
			return handler(ctx, req)
		}
		p := j.start("recv", req)
		resp, err := handler(ctx, req)
		j.end(p, err)
		return resp, err
	}
}

// ---------------------------------------------------------------------------------------
// log capture

// LogLine is one error-level log record of the process (JSON format of corelog).
type LogLine struct {
	Msg   string
	Err   string
	Name  string
	Raw   string
	Event struct {
		DocID        string
		ByPeer       string
		FromPeer     string
		CollectionID string
		Cid          map[string]string
	}
}

func (l LogLine) EventCid() string { return l.Event.Cid["/"] }

var (
	logOnce  sync.Once
	logMu    sync.Mutex
	logLines []LogLine
)

// CaptureLogs switches corelog to error level / JSON and diverts os.Stderr (the *variable* that
// corelog reads on every record; the runtime's crash output goes to fd 2 directly and is not
// affected) into a pipe whose lines are parsed, kept, and copied to the real stderr.
func CaptureLogs() {
	logOnce.Do(func() {
		corelog.SetConfig(corelog.Config{Level: corelog.LevelError, Format: corelog.FormatJSON})
		real := os.Stderr
		pr, pw, err := os.Pipe()
		if err != nil {
			return
		}
		os.Stderr = pw
		go func() {
			sc := bufio.NewScanner(pr)
			sc.Buffer(make([]byte, 1<<20), 16<<20)
			for sc.Scan() {
				line := sc.Text()
				fmt.Fprintln(real, line)
				if !strings.HasPrefix(line, "{") {
					continue
				}
				var m map[string]json.RawMessage
				if json.Unmarshal([]byte(line), &m) != nil {
					continue
				}
				ll := LogLine{Raw: line}
				_ = json.Unmarshal(m["$msg"], &ll.Msg)
				_ = json.Unmarshal(m["$err"], &ll.Err)
				_ = json.Unmarshal(m["$name"], &ll.Name)
				if ev, ok := m["Event"]; ok {
					_ = json.Unmarshal(ev, &ll.Event)
				}
				logMu.Lock()
				logLines = append(logLines, ll)
				logMu.Unlock()
			}
		}()
	})
}

// Logs returns the error log lines captured so far, starting at index from.
func Logs(from int) []LogLine {
	logMu.Lock()
	defer logMu.Unlock()
	if from > len(logLines) {
		from = len(logLines)
	}
	return append([]LogLine(nil), logLines[from:]...)
}

func LogLen() int {
	logMu.Lock()
	defer logMu.Unlock()
	return len(logLines)
}

// ---------------------------------------------------------------------------------------
// nodes

// Cfg is the fixed identity of a cluster member.
type Cfg struct {
	Name      string
	KeySeed   []byte // 32 bytes → ed25519 libp2p identity
	Port      int
	Store     string // "badger" (in-memory; survives peer restarts only) | "file"
	Path      string
	Bootstrap []string      // multiaddrs (with /p2p/<id>) dialled at peer start
	Retry     time.Duration // replicator retry interval (all steps)
	// Wrap, when set, is applied to the root store on every OpenDB: the database and the peer
	// (block service, bitswap) work on the wrapped store (fault injection), while Node.Store stays
	// the raw store for the monitors' own observations.
	Wrap func(corekv.TxnStore) corekv.TxnStore
	// ACP: the node runs with a local (in-memory) document ACP; database and peer share it.  The
	// ACP state does not survive NodeDown (use peer outages only).
	ACP bool
}

// BusEv is one recorded bus event (update / merge / merge-complete / replicator-completed).
type BusEv struct {
	Name  string
	DocID string
	Cid   string
	Col   string
	Retry bool
}

// Node is a real DefraDB node plus peer, with down/up control.
type Node struct {
	Cfg     Cfg
	Store   corekv.TxnStore
	DB      *db.DB
	Peer    *dnet.Peer
	Journal *Journal
	ID      libpeer.ID
	ACP     immutable.Option[dac.DocumentACP]
	key     []byte

	mu     sync.Mutex
	events []BusEv
	sub    event.Subscription
	bus    event.Bus
	// generation counters
	PeerStarts, NodeStarts int
}

// New opens the store and the database (no peer yet).
func New(ctx context.Context, cfg Cfg) (*Node, error) {
	n := &Node{Cfg: cfg, Journal: &Journal{}}
	seed := cfg.KeySeed
	if len(seed) != ed25519.SeedSize {
		h := sha256.Sum256(append([]byte("verif-p2p-key|"), seed...))
		seed = h[:]
	}
	n.key = ed25519.NewKeyFromSeed(seed)
	n.ID = PeerIDFromEd25519(ed25519.PrivateKey(n.key).Public().(ed25519.PublicKey))
	if err := n.OpenDB(ctx); err != nil {
		return nil, err
	}
	return n, nil
}

// OpenDB (re)opens store and database.
func (n *Node) OpenDB(ctx context.Context) error {
	var rs corekv.TxnStore
	var err error
	if n.Cfg.Store == "file" {
		rs, err = badger.NewDatastore(n.Cfg.Path, badgerds.DefaultOptions(n.Cfg.Path).WithLogger(nil))
	} else {
		rs, err = badger.NewDatastore("", badgerds.DefaultOptions("").WithInMemory(true).WithLogger(nil))
	}
	if err != nil {
		return err
	}
	lens, err := node.NewLens(ctx)
	if err != nil {
		return err
	}
	dbStore := rs
	if n.Cfg.Wrap != nil {
		dbStore = n.Cfg.Wrap(rs)
	}
	n.ACP = immutable.None[dac.DocumentACP]()
	if n.Cfg.ACP {
		a, err := dac.NewLocalDocumentACP("")
		if err != nil {
			_ = rs.Close()
			return err
		}
		n.ACP = immutable.Some[dac.DocumentACP](a)
	}
	d, err := db.NewDB(ctx, dbStore, db.NACInfo{}, n.ACP, lens, db.WithEnabledSigning(false))
	if err != nil {
		_ = rs.Close()
		return err
	}
	n.Store, n.DB = rs, d
	n.NodeStarts++
	n.bus = d.Events()
	sub, err := n.bus.Subscribe(event.UpdateName, event.MergeName, event.MergeCompleteName, event.ReplicatorCompletedName)
	if err != nil {
		return err
	}
	n.sub = sub
	go n.drain(sub)
	return nil
}

func (n *Node) drain(sub event.Subscription) {
	for m := range sub.Message() {
		var e BusEv
		if m.Name == event.ReplicatorCompletedName {
			// SetReplicator's asynchronous part (routing table updated, heads of the existing documents
			// pushed) has finished
			n.mu.Lock()
			n.events = append(n.events, BusEv{Name: "replicator-completed"})
			n.mu.Unlock()
			continue
		}
		switch d := m.Data.(type) {
		case event.Update:
			e = BusEv{Name: "update", DocID: d.DocID, Cid: d.Cid.String(), Col: d.CollectionID, Retry: d.IsRetry}
		case event.Merge:
			e = BusEv{Name: "merge", DocID: d.DocID, Cid: d.Cid.String(), Col: d.CollectionID}
		case event.MergeComplete:
			e = BusEv{Name: "merge-complete", DocID: d.Merge.DocID, Cid: d.Merge.Cid.String(), Col: d.Merge.CollectionID}
		default:
			continue
		}
		n.mu.Lock()
		n.events = append(n.events, e)
		n.mu.Unlock()
	}
}

// Events returns a copy of the bus events recorded so far (over all incarnations of the DB).
func (n *Node) Events() []BusEv {
	n.mu.Lock()
	defer n.mu.Unlock()
	return append([]BusEv(nil), n.events...)
}

// PeerUp starts the libp2p peer on the fixed address with the fixed key.
func (n *Node) PeerUp(ctx context.Context) error {
	retry := n.Cfg.Retry
	if retry == 0 {
		retry = time.Second
	}
	opts := []netConfig.NodeOpt{
		netConfig.WithListenAddresses(fmt.Sprintf("/ip4/127.0.0.1/tcp/%d", n.Cfg.Port)),
		netConfig.WithPrivateKey(n.key),
		netConfig.WithEnablePubSub(true),
		netConfig.WithRetryInterval([]time.Duration{retry, retry, retry}),
		func(o *netConfig.Options) {
			o.GRPCDialOptions = append(o.GRPCDialOptions, grpc.WithChainUnaryInterceptor(n.Journal.clientInterceptor()))
			o.GRPCServerOptions = append(o.GRPCServerOptions, grpc.ChainUnaryInterceptor(n.Journal.serverInterceptor()))
		},
	}
	if len(n.Cfg.Bootstrap) > 0 {
		opts = append(opts, netConfig.WithBootstrapPeers(n.Cfg.Bootstrap...))
	}
	var p *dnet.Peer
	var err error
	// the port was released a moment ago by the previous incarnation; retry a few times if the
	// kernel has not let go of it yet (waiting, not judging)
	for i := 0; i < 20; i++ {
		p, err = dnet.NewPeer(ctx, n.DB.Events(), n.ACP, n.DB, opts...)
		if err == nil {
			break
		}
		time.Sleep(100 * time.Millisecond)
	}
	if err != nil {
		return err
	}
	if p.PeerID() != n.ID {
		p.Close()
		return fmt.Errorf("p2p: peer id %s differs from the id derived from the key %s", p.PeerID(), n.ID)
	}
	n.Peer = p
	n.PeerStarts++
	return nil
}

// PeerDown closes the libp2p peer; the database stays open.
func (n *Node) PeerDown() {
	if n.Peer != nil {
		n.Peer.Close()
		n.Peer = nil
	}
}

// NodeDown closes peer, database and store.
func (n *Node) NodeDown() {
	n.PeerDown()
	if n.DB != nil {
		n.DB.Close() // closes the root store too
		n.DB, n.Store = nil, nil
	}
}

// Addr is the dialable multiaddr including the peer id.
func (n *Node) Addr() string {
	return fmt.Sprintf("/ip4/127.0.0.1/tcp/%d/p2p/%s", n.Cfg.Port, n.ID)
}

// Info returns the address info of the node (valid also while it is down).
func (n *Node) Info() libpeer.AddrInfo {
	ai, err := libpeer.AddrInfoFromString(n.Addr())
	core.Must(err)
	return *ai
}

// ---------------------------------------------------------------------------------------
// observations

func (n *Node) GQL(ctx context.Context, req string) (string, []string) {
	return core.ExecGQL(ctx, n.DB, req)
}

func (n *Node) Rows(ctx context.Context, req, name string) ([]map[string]any, error) {
	return core.ExecRows(ctx, n.DB, req, name)
}

func (n *Node) Col(ctx context.Context, name string) (client.Collection, error) {
	return n.DB.GetCollectionByName(ctx, name)
}

// PeerStoreScan returns the raw peer-store keys (`/db/ps/...`) of the node.
func (n *Node) PeerStoreScan(ctx context.Context) map[string]string {
	return core.ScanStore(ctx, n.Store, "/db/ps/")
}

// ReplState is what the sender's peer store says about one target peer.
type ReplState struct {
	HasReplicator bool
	Active        bool
	RetryRecord   bool
	RetryDocs     []string
	Keys          []string
	// CollectionMarker: one of the retry-doc markers carries no document id
	CollectionMarker bool
	// decoded retry record (valid when RetryRecord)
	NumRetries int
	Retrying   bool
}

// PeerIDFromEd25519 derives the libp2p peer id of a public key.
func PeerIDFromEd25519(pub ed25519.PublicKey) libpeer.ID {
	pk, err := libp2pCrypto.UnmarshalEd25519PublicKey(pub)
	core.Must(err)
	id, err := libpeer.IDFromPublicKey(pk)
	core.Must(err)
	return id
}

// ReplicatorState decodes the peer-store entries concerning target.
func (n *Node) ReplicatorState(ctx context.Context, target libpeer.ID) ReplState {
	var st ReplState
	t := target.String()
	for k, v := range n.PeerStoreScan(ctx) {
		if !strings.Contains(k, t) {
			continue
		}
		st.Keys = append(st.Keys, k)
		switch {
		case strings.Contains(k, "/rep/retry/doc/"):
			d := k[strings.LastIndex(k, "/")+1:]
			if d == t {
				// `/rep/retry/doc/<peer>` without a document id: the failed push of a collection-level
				// commit (update event with an empty DocID)
				st.CollectionMarker = true
				d = "(collection-level)"
			}
			st.RetryDocs = append(st.RetryDocs, d)
		case strings.Contains(k, "/rep/retry/id/"):
			st.RetryRecord = true
			var ri struct {
				NextRetry  time.Time
				NumRetries int
				Retrying   bool
			}
			if cbor.Unmarshal([]byte(v), &ri) == nil {
				st.NumRetries, st.Retrying = ri.NumRetries, ri.Retrying
			}
		case strings.Contains(k, "/rep/id/"):
			st.HasReplicator = true
			var rep client.Replicator
			if json.Unmarshal([]byte(v), &rep) == nil {
				st.Active = rep.Status == client.ReplicatorStatusActive
			}
		}
	}
	sort.Strings(st.Keys)
	sort.Strings(st.RetryDocs)
	return st
}
