package hist

import (
	"fmt"
	"sort"
	"strings"
	"time"

	"github.com/anishathalye/porcupine"
)

// Remote is one commit prepared on another node: it increments the counter by Inc and (only
// on chain 0) writes W to the register field w. Merging the Idx-th commit of a chain applies
// the commits 1..Idx of that chain (ancestor closure).
type Remote struct {
	Inc int64  `json:"inc"`
	W   string `json:"w,omitempty"`
}

// DocInfo is the static description of one document partition.
type DocInfo struct {
	// Live0: the document exists (with V0, N0, W0) before the concurrent phase starts.
	Live0  bool       `json:"live0"`
	V0     string     `json:"v0"`
	W0     string     `json:"w0"`
	N0     int64      `json:"n0"`
	Chains [][]Remote `json:"chains,omitempty"`
}

const (
	stAbsent  = 0
	stLive    = 1
	stDeleted = 2
)

// state is the comparable model state of one document.
type state struct {
	Status  uint8
	V       string
	NLocal  int64
	Applied uint64 // 4 bits per remote chain: highest merged index
}

func applied(a uint64, node int) int { return int(a >> (4 * uint(node)) & 0xf) }

func setApplied(a uint64, node, idx int) uint64 {
	if applied(a, node) >= idx {
		return a
	}
	sh := 4 * uint(node)
	return a&^(0xf<<sh) | uint64(idx)<<sh
}

func (d *DocInfo) total(s state) int64 {
	n := s.NLocal
	for j, ch := range d.Chains {
		k := applied(s.Applied, j)
		for i := 0; i < k && i < len(ch); i++ {
			n += ch[i].Inc
		}
	}
	return n
}

func (d *DocInfo) w(s state) string {
	if len(d.Chains) == 0 {
		return d.W0
	}
	k := applied(s.Applied, 0)
	w := d.W0
	for i := 0; i < k && i < len(d.Chains[0]); i++ {
		if d.Chains[0][i].W != "" {
			w = d.Chains[0][i].W
		}
	}
	return w
}

func (d *DocInfo) init() state {
	if d.Live0 {
		return state{Status: stLive, V: d.V0, NLocal: d.N0}
	}
	return state{}
}

// step is the sequential specification. A write that was acknowledged applies (and its
// precondition must hold); a write that returned an error has no effect; a read returns the
// current record; a merge (completed or never observed to complete) applies its closure - a
// merge that never took effect can always be linearized after every other operation because
// its return stamp is MaxStamp.
func (d *DocInfo) step(s state, in Input, out Output) (bool, state) {
	switch in.Kind {
	case KCreate:
		if !out.Ok {
			return true, s
		}
		if s.Status != stAbsent {
			return false, s
		}
		return true, state{Status: stLive, V: in.V, NLocal: in.Inc, Applied: s.Applied}
	case KUpdate:
		if !out.Ok {
			return true, s
		}
		if s.Status != stLive {
			return false, s
		}
		if in.V != "" {
			s.V = in.V
		}
		s.NLocal += in.Inc
		if out.HasState && (out.V != s.V || out.N != d.total(s) || out.W != d.w(s)) {
			return false, s
		}
		return true, s
	case KDelete:
		if !out.Ok {
			return true, s
		}
		if s.Status != stLive {
			return false, s
		}
		s.Status = stDeleted
		return true, s
	case KRead:
		if !out.Ok {
			return true, s
		}
		if !out.Found {
			return s.Status != stLive, s
		}
		if s.Status != stLive {
			return false, s
		}
		return out.V == s.V && out.N == d.total(s) && out.W == d.w(s), s
	case KMerge:
		s.Applied = setApplied(s.Applied, in.Node, in.Idx)
		return true, s
	}
	return true, s
}

// Verdict of one partition.
type Verdict struct {
	Result string // "ok" | "illegal" | "unknown" (checker timeout)
	Ops    int
}

// CheckDoc decides the linearizability of the history of one document.
func CheckDoc(d *DocInfo, ops []Op, timeout time.Duration) Verdict {
	model := porcupine.Model{
		Init: func() interface{} { return d.init() },
		Step: func(st, in, out interface{}) (bool, interface{}) {
			ok, ns := d.step(st.(state), in.(Input), out.(Output))
			return ok, ns
		},
		Equal: func(a, b interface{}) bool { return a.(state) == b.(state) },
	}
	var h []porcupine.Operation
	for _, o := range ops {
		if o.In.Kind == KOther {
			continue
		}
		h = append(h, porcupine.Operation{ClientId: o.G, Input: o.In, Call: o.Call, Output: o.Out, Return: o.Ret})
	}
	res := porcupine.CheckOperationsTimeout(model, h, timeout)
	v := Verdict{Ops: len(h)}
	switch res {
	case porcupine.Ok:
		v.Result = "ok"
	case porcupine.Illegal:
		v.Result = "illegal"
	default:
		v.Result = "unknown"
	}
	return v
}

// ---------------------------------------------------------------------------------------
// diagnostics: independent, cheap necessary conditions that name what went wrong

// Finding is one diagnosed anomaly with a stable class name.
type Finding struct {
	Class  string
	Detail string // the first occurrence, written out
	OpIDs  []int  // every operation that exhibits the anomaly
}

// Diagnose runs necessary conditions of linearizability over one partition. Every finding is
// a genuine refutation on its own (none of them depends on porcupine).
func Diagnose(d *DocInfo, ops []Op) []Finding {
	var fs []Finding
	cur := -1 // ID of the operation under examination
	add := func(class, f string, a ...any) {
		for i := range fs {
			if fs[i].Class == class {
				if cur >= 0 && (len(fs[i].OpIDs) == 0 || fs[i].OpIDs[len(fs[i].OpIDs)-1] != cur) {
					fs[i].OpIDs = append(fs[i].OpIDs, cur)
				}
				return
			}
		}
		nf := Finding{Class: class, Detail: fmt.Sprintf(f, a...)}
		if cur >= 0 {
			nf.OpIDs = []int{cur}
		}
		fs = append(fs, nf)
	}
	writers := map[string]*Op{} // unique value -> writing op
	for i := range ops {
		o := &ops[i]
		if (o.In.Kind == KCreate || o.In.Kind == KUpdate) && o.In.V != "" {
			writers[o.In.V] = o
		}
	}
	var maxInc, maxRemote int64
	for i := range ops {
		o := &ops[i]
		if (o.In.Kind == KCreate || o.In.Kind == KUpdate) && o.Out.Ok {
			maxInc += o.In.Inc
		}
	}
	for _, ch := range d.Chains {
		for _, r := range ch {
			maxRemote += r.Inc
		}
	}
	for i := range ops {
		o := &ops[i]
		if !o.Out.Ok || !o.Out.HasState {
			continue
		}
		cur = o.ID
		// (a) the register value identifies its write
		if d.Live0 && o.Out.V == d.V0 {
			for j := range ops {
				x := &ops[j]
				if x.In.Kind == KUpdate && x.Out.Ok && x.In.V != "" && x.Ret < o.Call {
					add("stale-value", "%s observes the initial v=%q although %s was acknowledged before", o, o.Out.V, x)
					break
				}
			}
		} else if o.Out.V != "" || d.Live0 {
			w, known := writers[o.Out.V]
			switch {
			case !known:
				add("value-never-written", "%s observes v=%q which no operation wrote", o, o.Out.V)
			case !w.Out.Ok && !w.Out.Pending:
				add("failed-write-visible", "%s observes v=%q written by %s, which reported an error", o, o.Out.V, w)
			case w.Call > o.Ret:
				add("read-from-future", "%s observes v=%q of %s, which was invoked later", o, o.Out.V, w)
			default:
				// stale: another acknowledged write started after w returned and returned before o started
				for j := range ops {
					x := &ops[j]
					if (x.In.Kind == KUpdate || x.In.Kind == KCreate) && x.Out.Ok && x.In.V != "" && x != w &&
						x.Call > w.Ret && x.Ret < o.Call {
						add("stale-value", "%s observes v=%q of %s although %s was acknowledged in between", o, o.Out.V, w, x)
						break
					}
				}
			}
		}
		// (b) counter bounds: at least the increments acknowledged before the call (while the doc
		// was not re-created), at most everything that could have been applied by the return
		var lo, hi int64
		if d.Live0 {
			lo, hi = d.N0, d.N0
		}
		for j := range ops {
			x := &ops[j]
			if x.In.Kind != KCreate && x.In.Kind != KUpdate {
				continue
			}
			if x.Out.Ok && x.Ret < o.Call {
				lo += x.In.Inc
			}
			if x.Out.Ok && x.Call < o.Ret {
				hi += x.In.Inc
			}
		}
		// remote contribution: lower bound from merges completed before the call, upper from merges invoked before the return
		var loA, hiA uint64
		for j := range ops {
			x := &ops[j]
			if x.In.Kind != KMerge {
				continue
			}
			if !x.Out.Pending && x.Ret < o.Call {
				loA = setApplied(loA, x.In.Node, x.In.Idx)
			}
			if x.Call < o.Ret {
				hiA = setApplied(hiA, x.In.Node, x.In.Idx)
			}
		}
		lo += d.total(state{Applied: loA})
		hi += d.total(state{Applied: hiA})
		if o.Out.N < lo {
			add("counter-lost-increment", "%s observes n=%d, but increments acknowledged before it was invoked sum to %d", o, o.Out.N, lo)
		}
		if o.Out.N > hi {
			add("counter-excess", "%s observes n=%d, but at most %d could have been applied (a failed or duplicated increment is visible)", o, o.Out.N, hi)
		}
		// (c) the merged register: w must be a value of chain 0 (or the initial one)
		if o.Out.W != d.W0 {
			okW := false
			if len(d.Chains) > 0 {
				for _, r := range d.Chains[0] {
					if r.W == o.Out.W {
						okW = true
					}
				}
			}
			if !okW {
				add("merged-value-never-written", "%s observes w=%q which no remote commit wrote", o, o.Out.W)
			}
		}
	}
	// (d) existence: a read that found the document needs a create that could have preceded it
	for i := range ops {
		o := &ops[i]
		if o.In.Kind != KRead || !o.Out.Ok {
			continue
		}
		cur = o.ID
		if o.Out.Found && !d.Live0 {
			ok := false
			for j := range ops {
				x := &ops[j]
				if x.In.Kind == KCreate && x.Out.Ok && x.Call < o.Ret {
					ok = true
				}
			}
			if !ok {
				add("read-of-uncreated-document/"+o.In.API, "%s finds a document no acknowledged create explains", o)
			}
		}
		if o.Out.Found {
			for j := range ops {
				x := &ops[j]
				if x.In.Kind == KDelete && x.Out.Ok && x.Ret < o.Call {
					add("read-after-acknowledged-delete/"+o.In.API, "%s finds the document although %s was acknowledged before", o, x)
				}
			}
		}
		if !o.Out.Found {
			// live for certain: created (or initially live) before the call and no delete invoked before the return
			created := d.Live0
			for j := range ops {
				x := &ops[j]
				if x.In.Kind == KCreate && x.Out.Ok && x.Ret < o.Call {
					created = true
				}
			}
			deleted := false
			for j := range ops {
				x := &ops[j]
				if x.In.Kind == KDelete && (x.Out.Ok || x.Out.Pending) && x.Call < o.Ret {
					deleted = true
				}
			}
			if created && !deleted {
				add("acknowledged-document-not-found/"+o.In.API, "%s does not find a document whose create was acknowledged before and that nobody deleted", o)
			}
		}
	}
	cur = -1
	nCreates := 0
	for i := range ops {
		if ops[i].In.Kind == KCreate && ops[i].Out.Ok {
			nCreates++
		}
	}
	if nCreates > 1 || (nCreates == 1 && d.Live0) {
		add("duplicate-create-acknowledged", "%d creates of the same document were acknowledged", nCreates)
	}
	return fs
}

// Render writes a history out (ordered by call stamp) for a witness.
func Render(ops []Op, max int) []string {
	s := append([]Op(nil), ops...)
	sort.Slice(s, func(i, j int) bool { return s[i].Call < s[j].Call })
	var out []string
	for i, o := range s {
		if i >= max {
			out = append(out, fmt.Sprintf("... %d more", len(s)-max))
			break
		}
		out = append(out, o.String())
	}
	return out
}

// Classes joins finding classes into one signature component.
func Classes(fs []Finding) string {
	var cs []string
	for _, f := range fs {
		cs = append(cs, f.Class)
	}
	sort.Strings(cs)
	return strings.Join(cs, "+")
}
