// Package hist records call/return histories at the client boundary of a node and decides
// them with porcupine (per-document linearizability against a small register+counter model),
// plus cheap independent diagnostics that give a violation a stable, observable signature.
package hist

import (
	"fmt"
	"hash/fnv"
	"sort"
	"sync"
	"sync/atomic"
)

// Operation kinds of the per-document model.
const (
	KCreate = "create"
	KUpdate = "update"
	KDelete = "delete"
	KRead   = "read"
	KMerge  = "merge"
	// KOther is an operation that does not belong to a document partition (index DDL ...);
	// it is recorded for the overlap matrix only.
	KOther = "other"
)

// Input is the invocation of one operation.
type Input struct {
	Kind string `json:"kind"`
	// Doc is the index of the document in the case's pool (the partition key); -1 for KOther.
	Doc int `json:"doc"`
	// V is the unique value written to the register field by create/update ("" = not written).
	V string `json:"v,omitempty"`
	// Inc is the increment applied to the counter by create/update.
	Inc int64 `json:"inc,omitempty"`
	// Node/Idx name the remote commit of a merge: the Idx-th (1-based) commit of remote chain Node.
	Node int `json:"node,omitempty"`
	Idx  int `json:"idx,omitempty"`
	// API is the client entry point used ("col.Get", "gql.update", "bus.merge", ...).
	API string `json:"api"`
}

// Output is the response of one operation.
type Output struct {
	// Ok: the call reported success (writes: acknowledged; reads: answered).
	Ok bool `json:"ok"`
	// Found: a read returned the document. HasState: V/W/N are meaningful (reads that found the
	// document, and writes that return the document's new state).
	Found    bool   `json:"found,omitempty"`
	HasState bool   `json:"has_state,omitempty"`
	V        string `json:"v,omitempty"`
	W        string `json:"w,omitempty"`
	N        int64  `json:"n,omitempty"`
	// Pending: an asynchronous operation (merge) whose completion was never observed.
	Pending bool   `json:"pending,omitempty"`
	Err     string `json:"err,omitempty"`
}

// Op is one completed (or pending) operation with its logical call/return stamps.
type Op struct {
	ID   int    `json:"id"`
	G    int    `json:"g"`
	In   Input  `json:"in"`
	Out  Output `json:"out"`
	Call int64  `json:"call"`
	Ret  int64  `json:"ret"`
}

func (o Op) String() string {
	s := fmt.Sprintf("#%d g%d [%d,%d] %s %s doc=%d", o.ID, o.G, o.Call, o.Ret, o.In.API, o.In.Kind, o.In.Doc)
	if o.In.V != "" {
		s += " v=" + o.In.V
	}
	if o.In.Inc != 0 {
		s += fmt.Sprintf(" inc=%d", o.In.Inc)
	}
	if o.In.Kind == KMerge {
		s += fmt.Sprintf(" remote=%d.%d", o.In.Node, o.In.Idx)
	}
	switch {
	case o.Out.Pending:
		s += " -> (never completed)"
	case !o.Out.Ok:
		s += " -> ERR " + o.Out.Err
	case o.In.Kind == KRead && !o.Out.Found:
		s += " -> not found"
	case o.Out.HasState:
		s += fmt.Sprintf(" -> ok v=%s w=%s n=%d", o.Out.V, o.Out.W, o.Out.N)
	default:
		s += " -> ok"
	}
	return s
}

// MaxStamp is the return stamp given to operations that never completed.
const MaxStamp = int64(1) << 60

// Recorder hands out stamps from one atomic counter and collects operations.
type Recorder struct {
	clock atomic.Int64
	mu    sync.Mutex
	ops   []*Op
}

func NewRecorder() *Recorder { return &Recorder{} }

// Stamp returns the next logical time.
func (r *Recorder) Stamp() int64 { return r.clock.Add(1) }

// Begin stamps the invocation of an operation; End must be called on the result.
func (r *Recorder) Begin(g int, in Input) *Op {
	op := &Op{G: g, In: in, Ret: MaxStamp, Out: Output{Pending: true}}
	r.mu.Lock()
	op.ID = len(r.ops)
	r.ops = append(r.ops, op)
	r.mu.Unlock()
	op.Call = r.clock.Add(1) // stamped after registration, immediately before the call
	return op
}

// End stamps the response. The stamp is taken first, so that it is not later than the moment
// the caller learnt the result.
func (r *Recorder) End(op *Op, out Output) {
	ret := r.clock.Add(1)
	r.mu.Lock()
	op.Out = out
	op.Ret = ret
	r.mu.Unlock()
}

// EndAt is End with a stamp taken earlier by the caller (asynchronous completions).
func (r *Recorder) EndAt(op *Op, out Output, ret int64) {
	r.mu.Lock()
	op.Out = out
	op.Ret = ret
	r.mu.Unlock()
}

// Ops returns a snapshot copy of everything recorded, ordered by ID.
func (r *Recorder) Ops() []Op {
	r.mu.Lock()
	defer r.mu.Unlock()
	out := make([]Op, len(r.ops))
	for i, o := range r.ops {
		out[i] = *o
	}
	return out
}

// ---------------------------------------------------------------------------------------
// overlap matrix and interleaving hash

// Overlaps returns the set of unordered API pairs "a|b" (a<=b) whose intervals intersected.
func Overlaps(ops []Op) map[string]int {
	type ev struct {
		t     int64
		start bool
		api   string
	}
	var evs []ev
	for _, o := range ops {
		evs = append(evs, ev{o.Call, true, o.In.API})
		ret := o.Ret
		evs = append(evs, ev{ret, false, o.In.API})
	}
	sort.Slice(evs, func(i, j int) bool { return evs[i].t < evs[j].t })
	active := map[string]int{}
	out := map[string]int{}
	for _, e := range evs {
		if !e.start {
			active[e.api]--
			continue
		}
		for a, n := range active {
			if n <= 0 {
				continue
			}
			x, y := a, e.api
			if x > y {
				x, y = y, x
			}
			out[x+"|"+y]++
		}
		active[e.api]++
	}
	return out
}

// InterleavingHash hashes the order of call/return events of one partition (who overlapped whom),
// abstracting from the absolute stamps.
func InterleavingHash(ops []Op) uint64 {
	type ev struct {
		t   int64
		ret bool
		id  int
	}
	var evs []ev
	for i, o := range ops {
		evs = append(evs, ev{o.Call, false, i}, ev{o.Ret, true, i})
	}
	sort.Slice(evs, func(i, j int) bool { return evs[i].t < evs[j].t })
	h := fnv.New64a()
	for _, e := range evs {
		o := ops[e.id]
		fmt.Fprintf(h, "%v|%d|%s|%s;", e.ret, o.G, o.In.Kind, o.In.API)
	}
	return h.Sum64()
}

// IsPending reports whether the operation has not been completed yet.
func (r *Recorder) IsPending(op *Op) bool {
	r.mu.Lock()
	defer r.mu.Unlock()
	return op.Out.Pending
}
