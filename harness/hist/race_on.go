//go:build race

package hist

// RaceEnabled reports whether the binary was built with -race.
const RaceEnabled = true
