package hist

import (
	"crypto/sha256"
	"encoding/hex"
	"regexp"
	"sort"
	"strings"
)

// RaceReport is one "WARNING: DATA RACE" block of a Go race-detector log.
type RaceReport struct {
	Text string
	// Stacks are the two access stacks (function names, innermost first).
	Stacks [2][]string
	// Class is "<frameA>||<frameB>" (sorted): for each access the DefraDB frame nearest to the
	// racing access, i.e. the boundary frame between DefraDB and whatever it called.
	Class string
	// DefraDB: either access stack contains a frame of github.com/sourcenetwork/defradb/ (not the harness).
	DefraDB bool
	// PairHash identifies the line-stripped pair of full access stacks.
	PairHash string
}

const defraPrefix = "github.com/sourcenetwork/defradb/"
const harnessPrefix = "github.com/sourcenetwork/defradb/verifharness"

var argsRe = regexp.MustCompile(`\([^()]*\)$`)

func isDefra(fn string) bool {
	return strings.HasPrefix(fn, defraPrefix) && !strings.HasPrefix(fn, harnessPrefix)
}

// component maps "internal/request/graphql/parser.parseMutation" to "internal/request/graphql",
// "net.(*Peer).x" to "net": the first three path elements under internal/, else the first.
func component(fn string) string {
	pkg := fn
	if i := strings.LastIndex(pkg, "/"); i >= 0 {
		if j := strings.Index(pkg[i:], "."); j >= 0 {
			pkg = pkg[:i+j]
		}
	} else if j := strings.Index(pkg, "."); j >= 0 {
		pkg = pkg[:j]
	}
	parts := strings.Split(pkg, "/")
	n := 1
	if parts[0] == "internal" {
		n = 3
	}
	if len(parts) < n {
		n = len(parts)
	}
	return strings.Join(parts[:n], "/")
}

// ParseRaceLog splits a race log into reports.
func ParseRaceLog(text string) []RaceReport {
	var out []RaceReport
	for _, blk := range strings.Split(text, "==================") {
		if !strings.Contains(blk, "WARNING: DATA RACE") {
			continue
		}
		rep := RaceReport{Text: strings.TrimSpace(blk)}
		// sections are separated by blank lines; the first two are the accesses
		secs := strings.Split(strings.TrimSpace(blk), "\n\n")
		n := 0
		for _, sec := range secs {
			lines := strings.Split(strings.TrimSpace(sec), "\n")
			if len(lines) == 0 {
				continue
			}
			head := lines[0]
			if strings.HasPrefix(head, "WARNING: DATA RACE") {
				if len(lines) < 2 {
					continue
				}
				lines = lines[1:]
				head = lines[0]
			}
			if strings.HasPrefix(head, "Goroutine ") {
				break
			}
			if n >= 2 {
				break
			}
			var fns []string
			for _, l := range lines[1:] {
				if strings.HasPrefix(l, "      ") || strings.HasPrefix(l, "\t") { // file:line
					continue
				}
				l = strings.TrimSpace(l)
				if l == "" {
					continue
				}
				fns = append(fns, argsRe.ReplaceAllString(l, ""))
			}
			rep.Stacks[n] = fns
			n++
		}
		var frames [2]string
		for i := 0; i < 2; i++ {
			frames[i] = ""
			// the DefraDB frame nearest to the access, then outward while the frames stay inside the
			// same DefraDB component: the component's entry point names the class
			comp := ""
			for _, fn := range rep.Stacks[i] {
				if !isDefra(fn) {
					if comp != "" {
						break
					}
					continue
				}
				f := strings.TrimPrefix(fn, defraPrefix)
				if comp == "" {
					comp = component(f)
				} else if component(f) != comp {
					break
				}
				frames[i] = f
				rep.DefraDB = true
			}
		}
		for i := 0; i < 2; i++ {
			if frames[i] != "" {
				continue
			}
			// no DefraDB frame on this side: name the innermost frame, marked as external
			if len(rep.Stacks[i]) > 0 {
				frames[i] = "ext:" + strings.TrimPrefix(rep.Stacks[i][0], defraPrefix)
			} else {
				frames[i] = "ext:unknown-stack"
			}
		}
		fs := frames[:]
		sort.Strings(fs)
		rep.Class = fs[0] + "||" + fs[1]
		a, b := strings.Join(rep.Stacks[0], ";"), strings.Join(rep.Stacks[1], ";")
		if a > b {
			a, b = b, a
		}
		h := sha256.Sum256([]byte(a + "||" + b))
		rep.PairHash = hex.EncodeToString(h[:8])
		out = append(out, rep)
	}
	return out
}
