package hist

import "testing"

func TestComponent(t *testing.T) {
	for in, want := range map[string]string{
		"internal/request/graphql/parser.parseMutation": "internal/request/graphql",
		"internal/request/graphql.(*parser).Parse":      "internal/request/graphql",
		"internal/db.(*DB).ExecRequest":                 "internal/db",
		"net.(*Peer).pushLogToReplicators":              "net",
		"internal/datastore.(*concurrentTxn).Get":       "internal/datastore",
		"internal/core/crdt.(*Counter).Merge":           "internal/core/crdt",
		"internal/db/fetcher.(*x).y.func1":              "internal/db/fetcher",
	} {
		if got := component(in); got != want {
			t.Errorf("%s: got %s want %s", in, got, want)
		}
	}
}
