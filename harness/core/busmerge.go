package core

import (
	"context"
	"fmt"
	"time"

	"github.com/ipfs/go-cid"

	"github.com/sourcenetwork/defradb/event"
)

// BusMerger delivers commits to a node the way the network layer does: it publishes event.Merge on
// the node's bus, so that the database's own message handler (internal/db/messages.go: collection
// lookup, merge queue, conflict retry loop) runs, and waits for the MergeComplete event of that
// commit. Hook H1 (Node.Merge) is the synchronous equivalent that bypasses the handler.
//
// A merge that fails emits nothing, so failure can only be concluded from absence. The wait is
// generous and is not a verdict on a healthy tree (every delivery of a complete closure merges in
// milliseconds there): ErrNoMergeComplete is returned only after `patience` of wall time AND 300 ms
// of CPU time consumed by this process since the publication (so that a machine starved of CPU
// does not cut the wait short), or after four times the patience.
type BusMerger struct {
	n   *Node
	rec *BusRecorder
}

var ErrNoMergeComplete = fmt.Errorf("verif: no MergeComplete event for the published merge")

func NewBusMerger(n *Node) *BusMerger {
	return &BusMerger{n: n, rec: NewBusRecorder(n.DB.Events(), nil, event.MergeCompleteName)}
}

func (b *BusMerger) Close() { b.rec.Close() }

func (b *BusMerger) Merge(ctx context.Context, docID string, c cid.Cid, collectionID string, patience time.Duration) error {
	from := b.rec.Len()
	b.n.DB.Events().Publish(event.NewMessage(event.MergeName, event.Merge{DocID: docID, Cid: c, CollectionID: collectionID}))
	want := c.String()
	t0, c0 := time.Now(), processCPU()
	for i := 0; ; i++ {
		evs := b.rec.Events()
		for _, e := range evs[from:] {
			if e.Name == event.MergeCompleteName && e.Cid == want {
				return nil
			}
		}
		if w := time.Since(t0); w > patience && (processCPU()-c0 > 300*time.Millisecond || w > 4*patience) {
			return ErrNoMergeComplete
		}
		if i < 200 {
			time.Sleep(200 * time.Microsecond)
		} else {
			time.Sleep(5 * time.Millisecond)
		}
	}
}
