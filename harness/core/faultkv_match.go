package core

import (
	"context"
	"sync"

	"github.com/sourcenetwork/corekv"
)

// MatchFault is a fault injector that fails the k-th storage operation MATCHING a predicate
// (method, sub-store, transactional or direct) instead of the k-th operation overall (FaultKV.Arm).
// It is a controller that outlives the store it is attached to: Wrap can be called again after the
// store was closed and re-opened (node restart on a file store) and the armed state carries over.
//
// Why a predicate: the operations a libp2p node performs between two points of a schedule are not
// a fixed sequence (bitswap, pubsub and the replicator's bookkeeping run concurrently), but "the
// 2nd block written by the DAG sync of the next incoming push" is: the receiver's syncDAG writes
// the pushed head block first and the blocks the head links to afterwards, all through direct
// (non-transactional) operations on /db/blocks.
type MatchFault struct {
	mu      sync.Mutex
	armed   bool
	pred    FaultMatch
	k       int
	sticky  bool
	matched int
	fired   int
	first   FaultHit
	ops     []FaultHit
}

// FaultMatch selects storage operations. Empty Method / Store match anything.
type FaultMatch struct {
	Method string // get has set del iter commit
	Store  string // data index heads blocks system ps enc other (classification of FaultKV)
	Scope  string // "" any | "direct" (non-transactional) | "txn"
}

// FaultHit is one matching operation seen inside an armed window.
type FaultHit struct {
	Method string
	Store  string
	Txn    bool
	Key    string
	Failed bool
}

func NewMatchFault() *MatchFault { return &MatchFault{} }

// Arm starts a window: the k-th (1-based) matching operation fails with ErrInjected; with sticky
// every later matching operation fails too, until Disarm (a store that stays broken until the
// operator intervenes / the process is restarted).  k = 0 only counts.
func (m *MatchFault) Arm(p FaultMatch, k int, sticky bool) {
	m.mu.Lock()
	m.armed, m.pred, m.k, m.sticky = true, p, k, sticky
	m.matched, m.fired, m.first, m.ops = 0, 0, FaultHit{}, nil
	m.mu.Unlock()
}

// Disarm ends the window; returns the number of matching operations seen and how many were failed.
func (m *MatchFault) Disarm() (matched, fired int) {
	m.mu.Lock()
	defer m.mu.Unlock()
	m.armed = false
	return m.matched, m.fired
}

// Fired reports how many operations have been failed in the current (or last) window.
func (m *MatchFault) Fired() int {
	m.mu.Lock()
	defer m.mu.Unlock()
	return m.fired
}

// Armed reports whether a window is open.
func (m *MatchFault) Armed() bool {
	m.mu.Lock()
	defer m.mu.Unlock()
	return m.armed
}

// FirstFailed is the first operation that was failed in the current (or last) window.
func (m *MatchFault) FirstFailed() FaultHit {
	m.mu.Lock()
	defer m.mu.Unlock()
	return m.first
}

// Hits returns the matching operations of the current (or last) window, in order.
func (m *MatchFault) Hits() []FaultHit {
	m.mu.Lock()
	defer m.mu.Unlock()
	return append([]FaultHit(nil), m.ops...)
}

func (m *MatchFault) tick(method string, key []byte, txn bool) error {
	m.mu.Lock()
	defer m.mu.Unlock()
	if !m.armed {
		return nil
	}
	st := storeOf(key)
	if m.pred.Method != "" && m.pred.Method != method {
		return nil
	}
	if m.pred.Store != "" && m.pred.Store != st {
		return nil
	}
	if (m.pred.Scope == "direct" && txn) || (m.pred.Scope == "txn" && !txn) {
		return nil
	}
	m.matched++
	h := FaultHit{Method: method, Store: st, Txn: txn, Key: string(key)}
	fail := m.k > 0 && (m.matched == m.k || (m.sticky && m.matched > m.k))
	if fail {
		h.Failed = true
		m.fired++
		if m.fired == 1 {
			m.first = h
		}
	}
	if len(m.ops) < 256 {
		m.ops = append(m.ops, h)
	}
	if fail {
		return ErrInjected
	}
	return nil
}

// Wrap returns a store whose operations are subject to the controller's current window.
func (m *MatchFault) Wrap(inner corekv.TxnStore) corekv.TxnStore {
	return &mfStore{inner: inner, m: m}
}

type mfStore struct {
	inner corekv.TxnStore
	m     *MatchFault
}

func (s *mfStore) Get(ctx context.Context, key []byte) ([]byte, error) {
	if err := s.m.tick("get", key, false); err != nil {
		return nil, err
	}
	return s.inner.Get(ctx, key)
}
func (s *mfStore) Has(ctx context.Context, key []byte) (bool, error) {
	if err := s.m.tick("has", key, false); err != nil {
		return false, err
	}
	return s.inner.Has(ctx, key)
}
func (s *mfStore) Set(ctx context.Context, key, value []byte) error {
	if err := s.m.tick("set", key, false); err != nil {
		return err
	}
	return s.inner.Set(ctx, key, value)
}
func (s *mfStore) Delete(ctx context.Context, key []byte) error {
	if err := s.m.tick("del", key, false); err != nil {
		return err
	}
	return s.inner.Delete(ctx, key)
}
func (s *mfStore) Iterator(ctx context.Context, o corekv.IterOptions) (corekv.Iterator, error) {
	if err := s.m.tick("iter", iterKey(o), false); err != nil {
		return nil, err
	}
	return s.inner.Iterator(ctx, o)
}
func (s *mfStore) Close() error { return s.inner.Close() }
func (s *mfStore) NewTxn(ro bool) corekv.Txn {
	return &mfTxn{Txn: s.inner.NewTxn(ro), m: s.m}
}

type mfTxn struct {
	corekv.Txn
	m *MatchFault
}

func (t *mfTxn) Get(ctx context.Context, k []byte) ([]byte, error) {
	if err := t.m.tick("get", k, true); err != nil {
		return nil, err
	}
	return t.Txn.Get(ctx, k)
}
func (t *mfTxn) Has(ctx context.Context, k []byte) (bool, error) {
	if err := t.m.tick("has", k, true); err != nil {
		return false, err
	}
	return t.Txn.Has(ctx, k)
}
func (t *mfTxn) Set(ctx context.Context, k, v []byte) error {
	if err := t.m.tick("set", k, true); err != nil {
		return err
	}
	return t.Txn.Set(ctx, k, v)
}
func (t *mfTxn) Delete(ctx context.Context, k []byte) error {
	if err := t.m.tick("del", k, true); err != nil {
		return err
	}
	return t.Txn.Delete(ctx, k)
}
func (t *mfTxn) Iterator(ctx context.Context, o corekv.IterOptions) (corekv.Iterator, error) {
	if err := t.m.tick("iter", iterKey(o), true); err != nil {
		return nil, err
	}
	return t.Txn.Iterator(ctx, o)
}
func (t *mfTxn) Commit() error {
	if err := t.m.tick("commit", nil, true); err != nil {
		// the inner commit is not performed: the store's own commit is treated as atomic
		t.Txn.Discard()
		return err
	}
	return t.Txn.Commit()
}
