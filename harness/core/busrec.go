package core

import (
	"crypto/sha256"
	"fmt"
	"sync"
	"sync/atomic"

	"github.com/sourcenetwork/defradb/event"
)

// BusEvent is one message seen by a recorder.
type BusEvent struct {
	Seq          int
	Name         event.Name
	DocID        string
	Cid          string
	CollectionID string
	BlockSHA     string
	BlockLen     int
	Block        []byte
	Data         any
	// AtReceipt is filled by the optional OnReceive callback (e.g. "is the cid readable now?")
	AtReceipt map[string]any
}

const sentinelName = event.Name("verif-barrier")

var sentinelSeq atomic.Int64

// BusRecorder subscribes to the given event names and drains them into an unbounded log
// from its own goroutine (the bus blocks when a subscriber's 100-slot buffer is full).
type BusRecorder struct {
	bus       event.Bus
	sub       event.Subscription
	mu        sync.Mutex
	events    []BusEvent
	waiters   map[int64]chan struct{}
	OnReceive func(e *BusEvent)
	done      chan struct{}
}

func NewBusRecorder(bus event.Bus, onReceive func(e *BusEvent), names ...event.Name) *BusRecorder {
	names = append(names, sentinelName)
	sub, err := bus.Subscribe(names...)
	Must(err)
	r := &BusRecorder{bus: bus, sub: sub, waiters: map[int64]chan struct{}{}, OnReceive: onReceive, done: make(chan struct{})}
	go r.loop()
	return r
}

func (r *BusRecorder) loop() {
	defer close(r.done)
	for m := range r.sub.Message() {
		if m.Name == sentinelName {
			id, _ := m.Data.(int64)
			r.mu.Lock()
			if ch, ok := r.waiters[id]; ok {
				close(ch)
				delete(r.waiters, id)
			}
			r.mu.Unlock()
			continue
		}
		e := BusEvent{Name: m.Name, Data: m.Data}
		if u, ok := m.Data.(event.Update); ok {
			e.DocID, e.Cid, e.CollectionID = u.DocID, u.Cid.String(), u.CollectionID
			h := sha256.Sum256(u.Block)
			e.BlockSHA, e.BlockLen, e.Block = fmt.Sprintf("%x", h), len(u.Block), u.Block
		}
		if mc, ok := m.Data.(event.MergeComplete); ok {
			e.DocID, e.Cid, e.CollectionID = mc.Merge.DocID, mc.Merge.Cid.String(), mc.Merge.CollectionID
		}
		if r.OnReceive != nil {
			r.OnReceive(&e)
		}
		r.mu.Lock()
		e.Seq = len(r.events)
		r.events = append(r.events, e)
		r.mu.Unlock()
	}
}

// Barrier returns once every message published before the call has been recorded: a sentinel
// is published through the same single command channel and awaited (logical barrier, no sleep).
func (r *BusRecorder) Barrier() {
	id := sentinelSeq.Add(1)
	ch := make(chan struct{})
	r.mu.Lock()
	r.waiters[id] = ch
	r.mu.Unlock()
	r.bus.Publish(event.NewMessage(sentinelName, id))
	<-ch
}

// Events returns a copy of the log.
func (r *BusRecorder) Events() []BusEvent {
	r.mu.Lock()
	defer r.mu.Unlock()
	return append([]BusEvent(nil), r.events...)
}

func (r *BusRecorder) Len() int {
	r.mu.Lock()
	defer r.mu.Unlock()
	return len(r.events)
}

func (r *BusRecorder) Close() {
	r.bus.Unsubscribe(r.sub)
}
