package core

import (
	"crypto/sha256"
	"fmt"
	"sync"
	"sync/atomic"

	"github.com/sourcenetwork/defradb/event"
)

// Recorder for histories in which subscribers come and go.
//
// BusRecorder.Barrier waits for a sentinel that travels through the recorder's own subscription:
// it never returns when the bus has (wrongly) dropped that subscription - a starved subscriber
// makes the harness hang instead of being reported. ChurnRecorder separates the two concerns:
//
//   - BusFence(bus) proves that the bus goroutine has finished every command issued before the
//     call: it subscribes a FRESH subscriber to a private event name, publishes one message of that
//     name and waits for it. The bus has one command channel and handles one command at a time, so
//     when the fence message comes out, every earlier Publish has been pushed completely into the
//     buffers of the subscribers the bus knew at that moment (and every earlier Subscribe /
//     Unsubscribe has taken effect). A fresh subscriber does not depend on the state of any
//     subscription made earlier.
//   - ChurnRecorder.Flush then makes the recorder's own goroutine drain its buffer until it is
//     empty and acknowledge. The request goes through a channel of the harness, not through the bus.
//
// After BusFence + Flush "the recorder has logged every message the bus delivered to it for
// publications made before the fence" holds by construction, without any clock: a message that is
// not in the log then was not delivered, however slow the machine is.
type ChurnRecorder struct {
	bus       event.Bus
	sub       event.Subscription
	mu        sync.Mutex
	events    []BusEvent
	OnReceive func(e *BusEvent)
	flush     chan chan struct{}
	pause     chan chan struct{}
	resume    chan struct{}
	done      chan struct{}
	closed    atomic.Bool
}

const fenceName = event.Name("verif-fence")

var fenceSeq atomic.Int64

// NewChurnRecorder subscribes to exactly the given names (no sentinel name is added).
func NewChurnRecorder(bus event.Bus, onReceive func(e *BusEvent), names ...event.Name) *ChurnRecorder {
	sub, err := bus.Subscribe(names...)
	Must(err)
	r := &ChurnRecorder{bus: bus, sub: sub, OnReceive: onReceive, flush: make(chan chan struct{}), pause: make(chan chan struct{}), done: make(chan struct{})}
	go r.loop()
	return r
}

func (r *ChurnRecorder) record(m event.Message) {
	e := BusEvent{Name: m.Name, Data: m.Data}
	if u, ok := m.Data.(event.Update); ok {
		e.DocID, e.Cid, e.CollectionID = u.DocID, u.Cid.String(), u.CollectionID
		h := sha256.Sum256(u.Block)
		e.BlockSHA, e.BlockLen, e.Block = fmt.Sprintf("%x", h), len(u.Block), u.Block
	}
	if mc, ok := m.Data.(event.MergeComplete); ok {
		e.DocID, e.Cid, e.CollectionID = mc.Merge.DocID, mc.Merge.Cid.String(), mc.Merge.CollectionID
	}
	if r.OnReceive != nil {
		r.OnReceive(&e)
	}
	r.mu.Lock()
	e.Seq = len(r.events)
	r.events = append(r.events, e)
	r.mu.Unlock()
}

func (r *ChurnRecorder) loop() {
	defer close(r.done)
	ch := r.sub.Message()
	for {
		select {
		case m, ok := <-ch:
			if !ok {
				return
			}
			r.record(m)
		case resume := <-r.pause:
			<-resume // a subscriber that has stopped reading: nothing is taken from the subscription until Resume
		case ack := <-r.flush:
			for empty := false; !empty; {
				select {
				case m, ok := <-ch:
					if !ok {
						close(ack)
						return
					}
					r.record(m)
				default:
					empty = true
				}
			}
			close(ack)
		}
	}
}

// Flush returns once the recorder has logged everything that was in its buffer at the time of the
// call (or once its subscription has been closed and drained).
func (r *ChurnRecorder) Flush() {
	ack := make(chan struct{})
	select {
	case r.flush <- ack:
		<-ack
	case <-r.done:
	}
}

// Pause makes the recorder stop reading its subscription (a subscriber that has fallen asleep: the
// bus fills its buffer and then blocks on it). It returns once the recorder's goroutine has stopped.
// Flush must not be called on a paused recorder. Resume lets it read again (to the end, if the
// subscription has been closed meanwhile). Both are called from the goroutine that owns the recorder.
func (r *ChurnRecorder) Pause() {
	if r.resume != nil {
		return
	}
	p := make(chan struct{})
	select {
	case r.pause <- p:
		r.resume = p
	case <-r.done:
	}
}

func (r *ChurnRecorder) Resume() {
	if r.resume != nil {
		close(r.resume)
		r.resume = nil
	}
}

// Events returns a copy of the log.
func (r *ChurnRecorder) Events() []BusEvent {
	r.mu.Lock()
	defer r.mu.Unlock()
	return append([]BusEvent(nil), r.events...)
}

func (r *ChurnRecorder) Len() int {
	r.mu.Lock()
	defer r.mu.Unlock()
	return len(r.events)
}

// Close unsubscribes. It does not wait: the Unsubscribe command is queued behind every earlier
// command of the caller; WaitClosed returns once the bus has closed the subscription and the
// recorder has logged what was still buffered.
func (r *ChurnRecorder) Close() {
	if r.closed.CompareAndSwap(false, true) {
		r.bus.Unsubscribe(r.sub)
	}
}

func (r *ChurnRecorder) WaitClosed() { <-r.done }

// BusFence returns once the bus has completely handled every command (Publish, Subscribe,
// Unsubscribe) issued before the call. See the comment of ChurnRecorder.
func BusFence(bus event.Bus) {
	probe, err := bus.Subscribe(fenceName)
	Must(err)
	id := fenceSeq.Add(1)
	bus.Publish(event.NewMessage(fenceName, id))
	for m := range probe.Message() {
		if got, _ := m.Data.(int64); got == id {
			break
		}
	}
	bus.Unsubscribe(probe)
}

// ChurnBarrier = BusFence, then Flush of every given recorder.
func ChurnBarrier(bus event.Bus, recs ...*ChurnRecorder) {
	BusFence(bus)
	for _, r := range recs {
		r.Flush()
	}
}
