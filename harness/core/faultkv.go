package core

import (
	"bytes"
	"context"
	"errors"
	"math/rand/v2"
	"runtime"
	"strings"
	"sync"
	"time"

	"github.com/sourcenetwork/corekv"
)

// ErrInjected is the sentinel error returned by a storage operation chosen for failure.
var ErrInjected = errors.New("verif: injected storage fault")

// KVOp describes one storage operation seen inside an armed window.
type KVOp struct {
	Method string // get has set del iter next value seek commit
	Store  string // data index heads blocks system ps enc other
}

// KVWrite is one element of a committed write-set.
type KVWrite struct {
	Key    []byte
	Value  []byte
	Delete bool
}

// CommitRecord is one committed write-set, tagged with the API-operation index current at commit.
type CommitRecord struct {
	OpIndex int
	Writes  []KVWrite
}

// FaultKV wraps a corekv.TxnStore with counting, k-th operation failure, yield injection
// and a commit log. All facilities are off by default.
type FaultKV struct {
	inner corekv.TxnStore

	mu       sync.Mutex
	armed    bool
	n        int
	failAt   int
	failed   bool
	FailedOp KVOp
	ops      []KVOp

	logCommits bool
	opIndex    int
	commits    []CommitRecord

	yieldProb float64
	yieldRng  *rand.Rand
}

func NewFaultKV(inner corekv.TxnStore) *FaultKV { return &FaultKV{inner: inner} }

func (f *FaultKV) Inner() corekv.TxnStore { return f.inner }

// Arm starts a counting window; the failAt-th operation (1-based) fails; 0 = count only.
func (f *FaultKV) Arm(failAt int) {
	f.mu.Lock()
	f.armed, f.n, f.failAt, f.failed, f.ops = true, 0, failAt, false, nil
	f.mu.Unlock()
}

// Disarm ends the window and returns the operations seen and whether the fault fired.
func (f *FaultKV) Disarm() (ops []KVOp, fired bool) {
	f.mu.Lock()
	defer f.mu.Unlock()
	f.armed = false
	return f.ops, f.failed
}

func (f *FaultKV) EnableCommitLog() { f.mu.Lock(); f.logCommits = true; f.mu.Unlock() }
func (f *FaultKV) SetOpIndex(i int) { f.mu.Lock(); f.opIndex = i; f.mu.Unlock() }
func (f *FaultKV) Commits() []CommitRecord {
	f.mu.Lock()
	defer f.mu.Unlock()
	return append([]CommitRecord(nil), f.commits...)
}

// EnableYield makes every storage call yield / sleep briefly with probability p.
func (f *FaultKV) EnableYield(p float64, seed uint64) {
	f.mu.Lock()
	f.yieldProb = p
	f.yieldRng = rand.New(rand.NewPCG(seed, 77))
	f.mu.Unlock()
}

func storeOf(key []byte) string {
	s := string(key)
	switch {
	case strings.HasPrefix(s, "/db/data/"):
		// /db/data/<col>/... ; index entries live under /db/data/<col>/<indexID>/ too; classify roughly
		return "data"
	case strings.HasPrefix(s, "/db/heads"):
		return "heads"
	case strings.HasPrefix(s, "/db/blocks"):
		return "blocks"
	case strings.HasPrefix(s, "/db/system"):
		return "system"
	case strings.HasPrefix(s, "/db/ps"):
		return "ps"
	case strings.HasPrefix(s, "/db/enc"):
		return "enc"
	}
	return "other"
}

func (f *FaultKV) tick(method string, key []byte) error {
	f.mu.Lock()
	var doYield int
	if f.yieldProb > 0 && f.yieldRng.Float64() < f.yieldProb {
		doYield = 1 + f.yieldRng.IntN(3)
	}
	if !f.armed {
		f.mu.Unlock()
		yield(doYield)
		return nil
	}
	f.n++
	op := KVOp{Method: method, Store: storeOf(key)}
	f.ops = append(f.ops, op)
	if f.n == f.failAt {
		f.failed = true
		f.FailedOp = op
		f.mu.Unlock()
		return ErrInjected
	}
	f.mu.Unlock()
	yield(doYield)
	return nil
}

func yield(k int) {
	switch k {
	case 0:
	case 1:
		runtime.Gosched()
	case 2:
		time.Sleep(50 * time.Microsecond)
	default:
		time.Sleep(300 * time.Microsecond)
	}
}

// direct (non-transactional) access
func (f *FaultKV) Get(ctx context.Context, key []byte) ([]byte, error) {
	if err := f.tick("get", key); err != nil {
		return nil, err
	}
	return f.inner.Get(ctx, key)
}
func (f *FaultKV) Has(ctx context.Context, key []byte) (bool, error) {
	if err := f.tick("has", key); err != nil {
		return false, err
	}
	return f.inner.Has(ctx, key)
}
func (f *FaultKV) Set(ctx context.Context, key, value []byte) error {
	if err := f.tick("set", key); err != nil {
		return err
	}
	err := f.inner.Set(ctx, key, value)
	if err == nil {
		f.mu.Lock()
		if f.logCommits {
			f.commits = append(f.commits, CommitRecord{OpIndex: f.opIndex, Writes: []KVWrite{{Key: bytes.Clone(key), Value: bytes.Clone(value)}}})
		}
		f.mu.Unlock()
	}
	return err
}
func (f *FaultKV) Delete(ctx context.Context, key []byte) error {
	if err := f.tick("del", key); err != nil {
		return err
	}
	err := f.inner.Delete(ctx, key)
	if err == nil {
		f.mu.Lock()
		if f.logCommits {
			f.commits = append(f.commits, CommitRecord{OpIndex: f.opIndex, Writes: []KVWrite{{Key: bytes.Clone(key), Delete: true}}})
		}
		f.mu.Unlock()
	}
	return err
}
func (f *FaultKV) Iterator(ctx context.Context, o corekv.IterOptions) (corekv.Iterator, error) {
	if err := f.tick("iter", iterKey(o)); err != nil {
		return nil, err
	}
	it, err := f.inner.Iterator(ctx, o)
	if err != nil {
		return nil, err
	}
	return &fIter{Iterator: it, f: f, k: iterKey(o)}, nil
}
func (f *FaultKV) Close() error { return f.inner.Close() }

func iterKey(o corekv.IterOptions) []byte {
	if len(o.Prefix) > 0 {
		return o.Prefix
	}
	return o.Start
}

func (f *FaultKV) NewTxn(ro bool) corekv.Txn {
	return &fTxn{Txn: f.inner.NewTxn(ro), f: f}
}

type fTxn struct {
	corekv.Txn
	f      *FaultKV
	writes []KVWrite
}

func (t *fTxn) Get(ctx context.Context, k []byte) ([]byte, error) {
	if err := t.f.tick("get", k); err != nil {
		return nil, err
	}
	return t.Txn.Get(ctx, k)
}
func (t *fTxn) Has(ctx context.Context, k []byte) (bool, error) {
	if err := t.f.tick("has", k); err != nil {
		return false, err
	}
	return t.Txn.Has(ctx, k)
}
func (t *fTxn) Set(ctx context.Context, k, v []byte) error {
	if err := t.f.tick("set", k); err != nil {
		return err
	}
	err := t.Txn.Set(ctx, k, v)
	if err == nil && t.f.logCommits {
		t.writes = append(t.writes, KVWrite{Key: bytes.Clone(k), Value: bytes.Clone(v)})
	}
	return err
}
func (t *fTxn) Delete(ctx context.Context, k []byte) error {
	if err := t.f.tick("del", k); err != nil {
		return err
	}
	err := t.Txn.Delete(ctx, k)
	if err == nil && t.f.logCommits {
		t.writes = append(t.writes, KVWrite{Key: bytes.Clone(k), Delete: true})
	}
	return err
}
func (t *fTxn) Commit() error {
	if err := t.f.tick("commit", nil); err != nil {
		// the inner commit is not performed: the store's own commit is treated as atomic
		t.Txn.Discard()
		return err
	}
	err := t.Txn.Commit()
	if err == nil && len(t.writes) > 0 {
		t.f.mu.Lock()
		if t.f.logCommits {
			t.f.commits = append(t.f.commits, CommitRecord{OpIndex: t.f.opIndex, Writes: t.writes})
		}
		t.f.mu.Unlock()
	}
	return err
}
func (t *fTxn) Iterator(ctx context.Context, o corekv.IterOptions) (corekv.Iterator, error) {
	if err := t.f.tick("iter", iterKey(o)); err != nil {
		return nil, err
	}
	it, err := t.Txn.Iterator(ctx, o)
	if err != nil {
		return nil, err
	}
	return &fIter{Iterator: it, f: t.f, k: iterKey(o)}, nil
}

type fIter struct {
	corekv.Iterator
	f *FaultKV
	k []byte
}

func (i *fIter) Next() (bool, error) {
	if err := i.f.tick("next", i.k); err != nil {
		return false, err
	}
	return i.Iterator.Next()
}
func (i *fIter) Value() ([]byte, error) {
	if err := i.f.tick("value", i.k); err != nil {
		return nil, err
	}
	return i.Iterator.Value()
}
func (i *fIter) Seek(k []byte) (bool, error) {
	if err := i.f.tick("seek", i.k); err != nil {
		return false, err
	}
	return i.Iterator.Seek(k)
}
