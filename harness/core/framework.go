// Package core is the shared machinery of the runtime-monitoring harness:
// case lists derived from (seed, tier), supervisor / worker processes with a
// per-case journal, three-valued verdicts, evidence files and known-finding
// matching.
package core

import (
	"bufio"
	"bytes"
	"context"
	"crypto/sha256"
	"encoding/hex"
	"encoding/json"
	"fmt"
	"math/rand/v2"
	"os"
	"os/exec"
	"path/filepath"
	"runtime"
	"sort"
	"strconv"
	"strings"
	"sync"
	"syscall"
	"time"

	"github.com/sourcenetwork/corelog"
)

// Exit codes.
const (
	ExitHeld         = 0
	ExitViolation    = 1
	ExitInconclusive = 3
)

// Case is one deterministic unit of exploration.  It must carry everything that is
// needed to re-execute it: Run(case) is a pure function of the case and the tree.
type Case struct {
	Index  int             `json:"index"`
	Kind   string          `json:"kind"`
	Seed   uint64          `json:"seed"`
	Params json.RawMessage `json:"params,omitempty"`
}

func (c Case) Rng() *rand.Rand {
	return rand.New(rand.NewPCG(c.Seed, 0x9e3779b97f4a7c15^uint64(c.Index)))
}

func (c Case) P(v any) {
	if len(c.Params) > 0 {
		if err := json.Unmarshal(c.Params, v); err != nil {
			panic(err)
		}
	}
}

func MkCase(kind string, seed uint64, params any) Case {
	c := Case{Kind: kind, Seed: seed}
	if params != nil {
		b, err := json.Marshal(params)
		if err != nil {
			panic(err)
		}
		c.Params = b
	}
	return c
}

// Violation is one observed refutation of the property.
type Violation struct {
	Property  string `json:"property"`
	Signature string `json:"signature"`
	Message   string `json:"message"`
	Case      Case   `json:"case"`
	Detail    any    `json:"detail,omitempty"`
	Tier      string `json:"tier,omitempty"`
	RunSeed   uint64 `json:"run_seed"`
}

// Rec collects what one worker observed.
type Rec struct {
	mu         sync.Mutex
	Counters   map[string]int64    `json:"counters"`
	Distinct   map[string]struct{} `json:"-"`
	DistinctL  []string            `json:"distinct"`
	Samples    []any               `json:"samples"`
	Violations []Violation         `json:"violations"`
	Notes      map[string]int64    `json:"notes"`
	cur        Case
	prop       string
	maxSamples int
}

func NewRec(prop string) *Rec {
	return &Rec{Counters: map[string]int64{}, Distinct: map[string]struct{}{}, Notes: map[string]int64{}, prop: prop, maxSamples: 3}
}

func (r *Rec) Count(name string, n int64) {
	r.mu.Lock()
	r.Counters[name] += n
	r.mu.Unlock()
}

// Nontrivial registers a distinct non-trivial case key (hashed to keep result files small).
func (r *Rec) Nontrivial(key string) {
	h := sha256.Sum256([]byte(key))
	r.mu.Lock()
	r.Distinct[hex.EncodeToString(h[:8])] = struct{}{}
	r.mu.Unlock()
}

func (r *Rec) Sample(v any) {
	r.mu.Lock()
	if len(r.Samples) < r.maxSamples {
		r.Samples = append(r.Samples, v)
	}
	r.mu.Unlock()
}

// Note counts an observation that is not a violation (reported in the evidence).
func (r *Rec) Note(name string) {
	r.mu.Lock()
	r.Notes[name]++
	r.mu.Unlock()
}

// Violate records a violation of the current case. sig must not contain spaces.
func (r *Rec) Violate(sig, msg string, detail any) {
	sig = strings.ReplaceAll(sig, " ", "_")
	r.mu.Lock()
	defer r.mu.Unlock()
	// keep at most 3 witnesses per signature per worker
	n := 0
	for _, v := range r.Violations {
		if v.Signature == sig {
			n++
		}
	}
	r.Counters["violations_raw"]++
	r.Counters["viol:"+sig]++
	if n >= 3 {
		return
	}
	r.Violations = append(r.Violations, Violation{Property: r.prop, Signature: sig, Message: msg, Case: r.cur, Detail: detail})
}

func (r *Rec) NumViolations() int {
	r.mu.Lock()
	defer r.mu.Unlock()
	return len(r.Violations)
}

// Check describes the monitor of one property.
type Check struct {
	ID    string
	Level string // exploration | fault_enumeration
	Rule  string
	// Cases returns the deterministic case list for (seed, tier). Anchor cases first.
	Cases func(seed uint64, tier string) []Case
	// Run executes one case against the real code, recording observations.
	Run func(ctx context.Context, c Case, r *Rec)
	// Floors are counters that must be > 0 for a "held" verdict (coverage floor).
	Floors []string
	// Workers overrides the number of worker processes (0 = min(16, NumCPU)).
	Workers int
	// CaseTimeout is the per-case hang watchdog (0 = 180 s); see RunWorker for how a hang is decided.
	CaseTimeout time.Duration
	// CaseCPULimit: CPU time one case may consume before it is declared a runaway (0 = 10 min).
	CaseCPULimit time.Duration
	// Race: workers run the -race binary and race reports are collected.
	Race bool
	// Assumptions are copied into the evidence file.
	Assumptions []string
	// Exhaustive reports whether this tier enumerated a finite space completely.
	Exhaustive func(tier string) bool
	// PostProcess lets a check turn merged raw results into further verdicts (e.g. race logs).
	PostProcess func(sup *Supervisor, merged *Rec)
}

var registry = map[string]*Check{}

func Register(c *Check) { registry[c.ID] = c }

func Lookup(id string) *Check { return registry[id] }

func IDs() []string {
	var ids []string
	for k := range registry {
		ids = append(ids, k)
	}
	sort.Strings(ids)
	return ids
}

// VerifDir is the root of /verif (evidence, replay, known-findings live there).
func VerifDir() string {
	if d := os.Getenv("VERIF_DIR"); d != "" {
		return d
	}
	return "/verif"
}

// WorkDir is the scratch directory of this run (under /verif/work, git-ignored).
func WorkDir(id string) string {
	d := filepath.Join(VerifDir(), "work", id)
	_ = os.MkdirAll(d, 0o755)
	return d
}

// ---------------------------------------------------------------------------------------
// worker

type workerResult struct {
	Rec       *Rec  `json:"rec"`
	Done      bool  `json:"done"`
	NextIndex int   `json:"next_index"` // first case index not yet attempted (after a hang)
	CasesRun  int64 `json:"cases_run"`
}

// RunWorker executes the cases with index%n == i and index >= from.
func RunWorker(chk *Check, seed uint64, tier string, i, n, from int, outPath, journalPath string) int {
	// The system under test logs every merged block at level info; time-travel queries replay whole
	// histories and produce hundreds of MB of log per worker. Errors are still logged.
	if os.Getenv("VERIF_LOG_INFO") == "" {
		cfg := corelog.DefaultConfig()
		cfg.Level = corelog.LevelError
		corelog.SetConfig(cfg)
	}
	cases := limitCases(chk.Cases(seed, tier))
	for k := range cases {
		cases[k].Index = k
	}
	rec := NewRec(chk.ID)
	jf, err := os.OpenFile(journalPath, os.O_CREATE|os.O_WRONLY|os.O_APPEND, 0o644)
	if err != nil {
		fmt.Fprintln(os.Stderr, "journal:", err)
		return ExitInconclusive
	}
	defer jf.Close()
	timeout := chk.CaseTimeout
	if timeout == 0 {
		timeout = 180 * time.Second
	}
	res := workerResult{Rec: rec}
	write := func() {
		rec.mu.Lock()
		rec.DistinctL = rec.DistinctL[:0]
		for k := range rec.Distinct {
			rec.DistinctL = append(rec.DistinctL, k)
		}
		b, _ := json.Marshal(res)
		rec.mu.Unlock()
		_ = os.WriteFile(outPath+".tmp", b, 0o644)
		_ = os.Rename(outPath+".tmp", outPath)
	}
	lastViol := 0
	for k := from; k < len(cases); k++ {
		if k%n != i {
			continue
		}
		c := cases[k]
		fmt.Fprintf(jf, "START %d %s\n", k, c.Kind)
		rec.mu.Lock()
		rec.cur = c
		rec.mu.Unlock()
		done := make(chan any, 1)
		go func() {
			defer func() {
				if p := recover(); p != nil {
					buf := make([]byte, 16<<10)
					buf = buf[:runtime.Stack(buf, false)]
					done <- fmt.Sprintf("%v\n%s", p, buf)
					return
				}
				done <- nil
			}()
			ctx := context.Background()
			chk.Run(ctx, c, rec)
		}()
		// Watchdog. A wall-clock deadline on a loaded machine must not be a verdict, so a case is
		// declared hung only on load-independent evidence: (a) BLOCKED - when the deadline passes the
		// worker process burns (almost) no CPU over a sampling window, i.e. the case is waiting for
		// something that does not come; or (b) RUNAWAY - the case alone has consumed more CPU time
		// than CaseCPULimit (normal cases need seconds). A case that is merely slow because the
		// machine is busy keeps being waited for; the whole-run watchdog then yields INCONCLUSIVE.
		cpuStart := processCPU()
		cpuLimit := chk.CaseCPULimit
		if cpuLimit == 0 {
			cpuLimit = 10 * time.Minute
		}
		var outcome any
		hung := ""
	wait:
		for {
			select {
			case outcome = <-done:
				break wait
			case <-time.After(timeout):
				used := processCPU() - cpuStart
				if used > cpuLimit {
					hung = fmt.Sprintf("case consumed %s of CPU time without returning (limit %s): runaway", used.Round(time.Second), cpuLimit)
					break wait
				}
				c0 := processCPU()
				select {
				case outcome = <-done:
					break wait
				case <-time.After(10 * time.Second):
				}
				if d := processCPU() - c0; d < 300*time.Millisecond {
					hung = fmt.Sprintf("case did not return within %s and the process is idle (%s CPU in a 10 s window): blocked", timeout, d.Round(time.Millisecond))
					break wait
				}
				rec.Count("watchdog_extensions_busy_machine", 1)
			}
		}
		if hung != "" {
			buf := make([]byte, 4<<20)
			buf = buf[:runtime.Stack(buf, true)]
			rec.Violate("hang/"+c.Kind, hung+" (per-operation watchdog)", map[string]any{"goroutines": trimDump(string(buf))})
			res.NextIndex = k + 1
			res.CasesRun++
			fmt.Fprintf(jf, "HANG %d\n", k)
			write()
			return 4 // supervisor respawns from NextIndex
		}
		if outcome != nil {
			ps := outcome.(string)
			rec.Violate("panic/"+panicSig(ps), "panic while executing case: "+firstLine(ps), map[string]any{"stack": ps})
		}
		res.CasesRun++
		fmt.Fprintf(jf, "END %d\n", k)
		if nv := rec.NumViolations(); res.CasesRun%20 == 0 || nv != lastViol {
			lastViol = nv
			write()
		}
	}
	res.Done = true
	res.NextIndex = len(cases)
	write()
	return 0
}

// processCPU returns the CPU time (user+system) consumed so far by this process.
func processCPU() time.Duration {
	var ru syscall.Rusage
	if err := syscall.Getrusage(syscall.RUSAGE_SELF, &ru); err != nil {
		return 0
	}
	return time.Duration(ru.Utime.Nano() + ru.Stime.Nano())
}

// limitCases honours VERIF_LIMIT (development aid: only the first N cases).
func limitCases(cs []Case) []Case {
	if v := os.Getenv("VERIF_LIMIT"); v != "" {
		if n, err := strconv.Atoi(v); err == nil && n < len(cs) {
			return cs[:n]
		}
	}
	return cs
}

func firstLine(s string) string {
	if i := strings.IndexByte(s, '\n'); i >= 0 {
		return s[:i]
	}
	return s
}

// panicSig builds a stable signature from a panic stack: the first defradb frame (function name).
func panicSig(stack string) string {
	lines := strings.Split(stack, "\n")
	for _, l := range lines {
		l = strings.TrimSpace(l)
		if strings.HasPrefix(l, "github.com/sourcenetwork/defradb/") && !strings.Contains(l, "verifharness") {
			if i := strings.LastIndex(l, "("); i > 0 {
				l = l[:i]
			}
			return strings.TrimPrefix(l, "github.com/sourcenetwork/defradb/")
		}
	}
	return "unknown-frame"
}

func trimDump(s string) string {
	// keep the goroutines that involve the system under test first
	gs := strings.Split(s, "\n\n")
	var rel, other []string
	for _, g := range gs {
		if strings.Contains(g, "sourcenetwork/") && !strings.Contains(g, "handleMessages") && !strings.Contains(g, "core.RunWorker(") &&
			!strings.Contains(g, "handleContextDone") && !strings.Contains(g, "purgeOldVersions") && !strings.Contains(g, "handleChannel") {
			rel = append(rel, g)
		} else {
			other = append(other, g)
		}
	}
	s = strings.Join(append(rel, other...), "\n\n")
	if len(s) > 60000 {
		return s[:60000] + "\n...[truncated]"
	}
	return s
}

// ---------------------------------------------------------------------------------------
// supervisor

type Supervisor struct {
	Chk      *Check
	Seed     uint64
	Tier     string
	Dir      string
	Self     string // path of the worker binary
	Start    time.Time
	RaceLogs []string
}

type knownEntry struct {
	Property, Signature, Text string
}

func loadKnown() []knownEntry {
	var out []knownEntry
	home := os.Getenv("VERIF_HOME")
	if home == "" {
		home = VerifDir()
	}
	f, err := os.Open(filepath.Join(home, "known-findings.txt"))
	if err != nil {
		return nil
	}
	defer f.Close()
	sc := bufio.NewScanner(f)
	sc.Buffer(make([]byte, 1<<20), 1<<20)
	for sc.Scan() {
		l := strings.TrimSpace(sc.Text())
		if !strings.HasPrefix(l, "known:") {
			continue
		}
		fs := strings.Fields(l[len("known:"):])
		e := knownEntry{}
		rest := []string{}
		for _, f := range fs {
			switch {
			case strings.HasPrefix(f, "property=") && e.Property == "":
				e.Property = f[len("property="):]
			case strings.HasPrefix(f, "signature=") && e.Signature == "":
				e.Signature = f[len("signature="):]
			case strings.HasPrefix(f, "witness="):
			default:
				rest = append(rest, f)
			}
		}
		e.Text = strings.Join(rest, " ")
		out = append(out, e)
	}
	return out
}

// Supervise runs the whole check and returns the exit code.
func Supervise(chk *Check, seed uint64, tier string, self string) int {
	start := time.Now()
	dir := WorkDir(chk.ID + "-" + tier)
	_ = os.RemoveAll(dir)
	_ = os.MkdirAll(dir, 0o755)
	sup := &Supervisor{Chk: chk, Seed: seed, Tier: tier, Dir: dir, Self: self, Start: start}
	cases := limitCases(chk.Cases(seed, tier))
	nw := chk.Workers
	if nw == 0 {
		nw = runtime.NumCPU()
		if nw > 16 {
			nw = 16
		}
	}
	if nw > len(cases) {
		nw = len(cases)
	}
	if nw < 1 {
		nw = 1
	}
	merged := NewRec(chk.ID)
	merged.maxSamples = 4
	var mu sync.Mutex
	var wg sync.WaitGroup
	inconclusive := []string{}
	var casesRun int64
	runTimeout := 50 * time.Minute
	if v := os.Getenv("VERIF_RUN_TIMEOUT_S"); v != "" {
		if n, err := strconv.Atoi(v); err == nil {
			runTimeout = time.Duration(n) * time.Second
		}
	}
	deadline := start.Add(runTimeout)
	for w := 0; w < nw; w++ {
		wg.Add(1)
		go func(w int) {
			defer wg.Done()
			from := 0
			for attempt := 0; attempt < 50; attempt++ {
				out := filepath.Join(dir, fmt.Sprintf("w%d.a%d.json", w, attempt))
				journal := filepath.Join(dir, fmt.Sprintf("w%d.a%d.journal", w, attempt))
				logp := filepath.Join(dir, fmt.Sprintf("w%d.a%d.log", w, attempt))
				lf, _ := os.Create(logp)
				remain := time.Until(deadline)
				if remain < time.Second {
					mu.Lock()
					inconclusive = append(inconclusive, "whole-run watchdog fired")
					mu.Unlock()
					lf.Close()
					return
				}
				ctx, cancel := context.WithTimeout(context.Background(), remain)
				cmd := exec.CommandContext(ctx, self, "worker", chk.ID, "--seed", strconv.FormatUint(seed, 10), "--tier", tier,
					"--w", strconv.Itoa(w), "--n", strconv.Itoa(nw), "--from", strconv.Itoa(from), "--out", out, "--journal", journal)
				cmd.Stdout = lf
				cmd.Stderr = lf
				cmd.Env = append(os.Environ(), "GOMEMLIMIT=3GiB", fmt.Sprintf("VERIF_WORKER=%d", w))
				if chk.Race {
					cmd.Env = append(cmd.Env, "GORACE=halt_on_error=0 exitcode=0 log_path="+filepath.Join(dir, fmt.Sprintf("race.w%d.a%d", w, attempt)))
				}
				err := cmd.Run()
				timedOut := ctx.Err() != nil
				cancel()
				lf.Close()
				var wr workerResult
				b, rerr := os.ReadFile(out)
				if rerr == nil {
					_ = json.Unmarshal(b, &wr)
				}
				if wr.Rec != nil {
					mu.Lock()
					mergeRec(merged, wr.Rec)
					casesRun += wr.CasesRun
					mu.Unlock()
				}
				if timedOut {
					mu.Lock()
					inconclusive = append(inconclusive, "whole-run watchdog fired")
					mu.Unlock()
					return
				}
				if err == nil && wr.Done {
					return
				}
				code := -1
				if ee, ok := err.(*exec.ExitError); ok {
					code = ee.ExitCode()
				}
				if code == 4 && wr.Rec != nil { // hang recorded by the worker itself
					from = wr.NextIndex
					continue
				}
				// crash: attribute to the last case started in the journal
				last, kind := lastStarted(journal)
				logTail := tailFile(logp, 12000)
				if last < 0 {
					mu.Lock()
					inconclusive = append(inconclusive, fmt.Sprintf("worker %d died before starting a case (exit %d): %s", w, code, firstLine(logTail)))
					mu.Unlock()
					return
				}
				c := Case{Index: last}
				if last < len(cases) {
					c = cases[last]
					c.Index = last
				}
				sig := "crash/" + kind + "/" + crashSig(logTail)
				mu.Lock()
				// results of cases completed since the last periodic write are lost; count is approximate
				merged.Violations = append(merged.Violations, Violation{Property: chk.ID, Signature: sig,
					Message: "worker process died while executing case: " + crashLine(logTail), Case: c,
					Detail: map[string]any{"exit_code": code, "log_tail": logTail}})
				merged.Counters["worker_crashes"]++
				mu.Unlock()
				from = last + 1
			}
		}(w)
	}
	wg.Wait()
	merged.Counters["cases_run"] = casesRun
	merged.Counters["cases_planned"] = int64(len(cases))
	if chk.Race {
		sup.RaceLogs, _ = filepath.Glob(filepath.Join(dir, "race.w*"))
	}
	if chk.PostProcess != nil {
		chk.PostProcess(sup, merged)
	}
	return sup.finish(merged, inconclusive)
}

func lastStarted(journal string) (int, string) {
	b, err := os.ReadFile(journal)
	if err != nil {
		return -1, ""
	}
	last, kind := -1, ""
	for _, l := range strings.Split(string(b), "\n") {
		var k int
		var kd string
		if n, _ := fmt.Sscanf(l, "START %d %s", &k, &kd); n == 2 {
			last, kind = k, kd
		}
	}
	return last, kind
}

func tailFile(p string, n int) string {
	b, err := os.ReadFile(p)
	if err != nil {
		return ""
	}
	// prefer the part starting at the first panic / fatal error
	for _, marker := range []string{"panic: ", "fatal error: "} {
		if i := bytes.Index(b, []byte(marker)); i >= 0 {
			b = b[i:]
			if len(b) > n {
				b = b[:n]
			}
			return string(b)
		}
	}
	if len(b) > n {
		b = b[len(b)-n:]
	}
	return string(b)
}

func crashLine(log string) string {
	for _, l := range strings.Split(log, "\n") {
		if strings.HasPrefix(l, "panic: ") || strings.HasPrefix(l, "fatal error: ") {
			return l
		}
	}
	return firstLine(log)
}

func crashSig(log string) string {
	kind := "exit"
	for _, l := range strings.Split(log, "\n") {
		if strings.HasPrefix(l, "panic: ") {
			kind = "panic"
			break
		}
		if strings.HasPrefix(l, "fatal error: ") {
			kind = strings.ReplaceAll(strings.TrimPrefix(l, "fatal error: "), " ", "-")
			break
		}
	}
	return kind + "@" + panicSig(log)
}

func mergeRec(dst, src *Rec) {
	for k, v := range src.Counters {
		dst.Counters[k] += v
	}
	for k, v := range src.Notes {
		dst.Notes[k] += v
	}
	for _, k := range src.DistinctL {
		dst.Distinct[k] = struct{}{}
	}
	for _, s := range src.Samples {
		if len(dst.Samples) < dst.maxSamples {
			dst.Samples = append(dst.Samples, s)
		}
	}
	dst.Violations = append(dst.Violations, src.Violations...)
}

func (s *Supervisor) finish(m *Rec, inconclusive []string) int {
	chk := s.Chk
	known := loadKnown()
	isKnown := func(v Violation) (knownEntry, bool) {
		for _, k := range known {
			if k.Property == chk.ID && k.Signature == v.Signature {
				return k, true
			}
		}
		return knownEntry{}, false
	}
	replayDir := filepath.Join(VerifDir(), "replay")
	_ = os.MkdirAll(replayDir, 0o755)
	if old, _ := filepath.Glob(filepath.Join(replayDir, fmt.Sprintf("%s-%s-*.json", chk.ID, s.Tier))); len(old) > 0 {
		for _, o := range old {
			_ = os.Remove(o)
		}
	}
	printedKnown := map[string]bool{}
	unknownBySig := map[string][]Violation{}
	var sigOrder []string
	for _, v := range m.Violations {
		v.Tier, v.RunSeed = s.Tier, s.Seed
		if k, ok := isKnown(v); ok {
			if !printedKnown[k.Signature] {
				printedKnown[k.Signature] = true
				fmt.Printf("KNOWN-FINDING: property=%s %s [signature=%s]\n", chk.ID, k.Text, k.Signature)
			}
			m.Counters["known_finding_hits"]++
			continue
		}
		if _, ok := unknownBySig[v.Signature]; !ok {
			sigOrder = append(sigOrder, v.Signature)
		}
		unknownBySig[v.Signature] = append(unknownBySig[v.Signature], v)
	}
	nviol := 0
	for _, sig := range sigOrder {
		vs := unknownBySig[sig]
		v := vs[0]
		nviol++
		h := sha256.Sum256([]byte(sig))
		p := filepath.Join(replayDir, fmt.Sprintf("%s-%s-seed%d-case%d-%s.json", chk.ID, s.Tier, s.Seed, v.Case.Index, hex.EncodeToString(h[:4])))
		b, _ := json.MarshalIndent(v, "", " ")
		_ = os.WriteFile(p, b, 0o644)
		fmt.Printf("VIOLATION property=%s replay=%s\n", chk.ID, p)
		fmt.Printf("  signature=%s witnesses=%d\n  %s\n", sig, m.Counters["viol:"+sig], v.Message)
	}
	// coverage floors
	var missed []string
	for _, f := range chk.Floors {
		if m.Counters[f] <= 0 {
			missed = append(missed, f)
		}
	}
	if m.Counters["cases_run"] < m.Counters["cases_planned"] && len(inconclusive) == 0 && m.Counters["worker_crashes"] == 0 {
		inconclusive = append(inconclusive, fmt.Sprintf("only %d of %d planned cases ran", m.Counters["cases_run"], m.Counters["cases_planned"]))
	}
	if len(missed) > 0 {
		inconclusive = append(inconclusive, "coverage floor not met: "+strings.Join(missed, ","))
	}
	s.writeEvidence(m, nviol, inconclusive)
	wall := time.Since(s.Start).Seconds()
	fmt.Printf("%s tier=%s seed=%d cases=%d evaluations=%d distinct_nontrivial=%d violations=%d known_hits=%d wall=%.1fs\n",
		chk.ID, s.Tier, s.Seed, m.Counters["cases_run"], evals(m), len(m.Distinct), nviol, m.Counters["known_finding_hits"], wall)
	printCounters(m)
	if nviol > 0 {
		return ExitViolation
	}
	if len(inconclusive) > 0 {
		for _, r := range inconclusive {
			fmt.Printf("INCONCLUSIVE property=%s %s\n", chk.ID, r)
		}
		return ExitInconclusive
	}
	return ExitHeld
}

func evals(m *Rec) int64 {
	if v := m.Counters["evaluations"]; v > 0 {
		return v
	}
	return m.Counters["cases_run"]
}

func printCounters(m *Rec) {
	var ks []string
	for k := range m.Counters {
		if strings.HasPrefix(k, "viol:") {
			continue
		}
		ks = append(ks, k)
	}
	sort.Strings(ks)
	var sb strings.Builder
	for _, k := range ks {
		fmt.Fprintf(&sb, " %s=%d", k, m.Counters[k])
	}
	fmt.Println("  observed:" + sb.String())
	if len(m.Notes) > 0 {
		ks = ks[:0]
		for k := range m.Notes {
			ks = append(ks, k)
		}
		sort.Strings(ks)
		sb.Reset()
		for _, k := range ks {
			fmt.Fprintf(&sb, " %s=%d", k, m.Notes[k])
		}
		fmt.Println("  notes:" + sb.String())
	}
}

func (s *Supervisor) writeEvidence(m *Rec, nviol int, inconclusive []string) {
	chk := s.Chk
	cov := map[string]any{
		"evaluations":         evals(m),
		"distinct_nontrivial": len(m.Distinct),
		"rule":                chk.Rule,
		"samples":             m.Samples,
		"counters":            m.Counters,
		"notes":               m.Notes,
	}
	if len(m.Samples) == 0 {
		cov["samples"] = []any{"(no sample recorded)"}
	}
	if chk.Exhaustive != nil {
		cov["exhaustive"] = chk.Exhaustive(s.Tier)
	}
	if len(inconclusive) > 0 {
		cov["inconclusive"] = inconclusive
	}
	ev := map[string]any{
		"property_id": chk.ID,
		"tier":        s.Tier,
		"seed":        s.Seed,
		"level":       chk.Level,
		"coverage":    cov,
		"assumptions": chk.Assumptions,
		"wall_s":      time.Since(s.Start).Seconds(),
		"violations":  nviol,
	}
	if chk.Assumptions == nil {
		ev["assumptions"] = []string{}
	}
	b, _ := json.MarshalIndent(ev, "", " ")
	dir := filepath.Join(VerifDir(), "evidence")
	_ = os.MkdirAll(dir, 0o755)
	_ = os.WriteFile(filepath.Join(dir, chk.ID+".json"), b, 0o644)
}

// Replay re-executes the case stored in a witness file.
func Replay(chk *Check, path string) int {
	b, err := os.ReadFile(path)
	if err != nil {
		fmt.Println("replay:", err)
		return ExitInconclusive
	}
	var v Violation
	if err := json.Unmarshal(b, &v); err != nil {
		fmt.Println("replay:", err)
		return ExitInconclusive
	}
	rec := NewRec(chk.ID)
	rec.cur = v.Case
	fmt.Printf("replaying %s case %d kind=%s (recorded signature %s)\n", chk.ID, v.Case.Index, v.Case.Kind, v.Signature)
	func() {
		defer func() {
			if p := recover(); p != nil {
				buf := make([]byte, 16<<10)
				buf = buf[:runtime.Stack(buf, false)]
				ps := fmt.Sprintf("%v\n%s", p, buf)
				rec.Violate("panic/"+panicSig(ps), "panic while executing case: "+firstLine(ps), nil)
			}
		}()
		chk.Run(context.Background(), v.Case, rec)
	}()
	if len(rec.Violations) == 0 {
		fmt.Println("replay: no violation on the current tree")
		return ExitHeld
	}
	for _, nv := range rec.Violations {
		fmt.Printf("replay: signature=%s\n  %s\n", nv.Signature, nv.Message)
		if nv.Detail != nil {
			d, _ := json.MarshalIndent(nv.Detail, "  ", " ")
			fmt.Printf("  %s\n", d)
		}
	}
	fmt.Printf("VIOLATION property=%s replay=%s\n", chk.ID, path)
	return ExitViolation
}
