package core

import (
	"context"
	"encoding/json"
	"fmt"
	"sort"
	"strings"

	badgerds "github.com/dgraph-io/badger/v4"
	"github.com/dgraph-io/badger/v4/options"
	"github.com/ipfs/go-cid"
	"github.com/sourcenetwork/corekv"
	"github.com/sourcenetwork/corekv/badger"
	"github.com/sourcenetwork/corekv/memory"
	"github.com/sourcenetwork/immutable"

	"github.com/sourcenetwork/defradb/acp/dac"
	"github.com/sourcenetwork/defradb/acp/identity"
	"github.com/sourcenetwork/defradb/client"
	"github.com/sourcenetwork/defradb/event"
	icore "github.com/sourcenetwork/defradb/internal/core"
	coreblock "github.com/sourcenetwork/defradb/internal/core/block"
	"github.com/sourcenetwork/defradb/internal/datastore"
	"github.com/sourcenetwork/defradb/internal/db"
	"github.com/sourcenetwork/defradb/internal/keys"
	"github.com/sourcenetwork/defradb/node"
)

func Must(err error) {
	if err != nil {
		panic(err)
	}
}

// NodeOpts selects the configuration of a harness node.
type NodeOpts struct {
	Store    string // "badger" (in-memory, default) | "memory" | "file"
	Path     string // for Store=file
	Fault    bool   // wrap the store with FaultKV
	Signing  bool
	Identity immutable.Option[identity.Identity]
	ACP      bool   // local document ACP (in-memory)
	ACPPath  string // persistent local ACP when non-empty
	Existing corekv.TxnStore
}

// Node is a real DefraDB instance plus the handles the monitors need.
type Node struct {
	DB    *db.DB
	Root  corekv.TxnStore // what the DB sees (possibly the FaultKV)
	Fault *FaultKV
	ACP   dac.DocumentACP
	Opts  NodeOpts
}

func OpenStore(o NodeOpts) corekv.TxnStore {
	if o.Existing != nil {
		return o.Existing
	}
	switch o.Store {
	case "memory":
		return memory.NewDatastore(context.Background())
	case "file":
		bo := badgerds.DefaultOptions(o.Path).WithLogger(nil)
		rs, err := badger.NewDatastore(o.Path, bo)
		Must(err)
		return rs
	default:
		// small arenas, no caches: the default options allocate a 64 MB memtable and 256 MB of cache
		// bookkeeping per store, which costs 30-300 ms per node when thousands of fresh nodes are
		// created; behaviour of the store is otherwise unchanged.
		bo := badgerds.DefaultOptions("").WithInMemory(true).WithLogger(nil).WithMemTableSize(8 << 20).
			WithBlockCacheSize(0).WithIndexCacheSize(0).WithCompression(options.None).WithNumCompactors(2).WithNumMemtables(2)
		rs, err := badger.NewDatastore("", bo)
		Must(err)
		return rs
	}
}

func NewNode(ctx context.Context, o NodeOpts) *Node {
	n, err := NewNodeErr(ctx, o)
	Must(err)
	return n
}

func NewNodeErr(ctx context.Context, o NodeOpts) (*Node, error) {
	n := &Node{Opts: o}
	rs := OpenStore(o)
	n.Root = rs
	if o.Fault {
		n.Fault = NewFaultKV(rs)
		n.Root = n.Fault
	}
	lens, err := node.NewLens(ctx)
	if err != nil {
		return nil, err
	}
	acp := immutable.None[dac.DocumentACP]()
	if o.ACP {
		a, err := dac.NewLocalDocumentACP(o.ACPPath)
		if err != nil {
			return nil, err
		}
		n.ACP = a
		acp = immutable.Some[dac.DocumentACP](a)
	}
	opts := []db.Option{db.WithEnabledSigning(o.Signing)}
	if o.Identity.HasValue() {
		opts = append(opts, db.WithNodeIdentity(o.Identity.Value()))
	}
	d, err := db.NewDB(ctx, n.Root, db.NACInfo{}, acp, lens, opts...)
	if err != nil {
		return nil, err
	}
	n.DB = d
	return n, nil
}

func (n *Node) Close() {
	if n.DB != nil {
		n.DB.Close()
	}
}

func (n *Node) Col(ctx context.Context, name string) client.Collection {
	c, err := n.DB.GetCollectionByName(ctx, name)
	Must(err)
	return c
}

// GQL executes a request and returns (data as canonical JSON, error strings).
func (n *Node) GQL(ctx context.Context, req string) (string, []string) {
	return ExecGQL(ctx, n.DB, req)
}

type execer interface {
	ExecRequest(ctx context.Context, request string, opts ...client.RequestOption) *client.RequestResult
}

func ExecGQL(ctx context.Context, d execer, req string) (string, []string) {
	res := d.ExecRequest(ctx, req)
	var errs []string
	for _, e := range res.GQL.Errors {
		errs = append(errs, e.Error())
	}
	b, err := json.Marshal(res.GQL.Data)
	if err != nil {
		errs = append(errs, "marshal: "+err.Error())
	}
	return string(b), errs
}

// Rows executes a query and returns the rows of the top-level field `name`.
func (n *Node) Rows(ctx context.Context, req, name string) ([]map[string]any, error) {
	return ExecRows(ctx, n.DB, req, name)
}

func ExecRows(ctx context.Context, d execer, req, name string) ([]map[string]any, error) {
	res := d.ExecRequest(ctx, req)
	if len(res.GQL.Errors) > 0 {
		return nil, fmt.Errorf("%s", res.GQL.Errors[0].Error())
	}
	// normalise through JSON so that all numeric types are json.Number / float64-free
	b, err := json.Marshal(res.GQL.Data)
	if err != nil {
		return nil, err
	}
	var m map[string][]map[string]any
	dec := json.NewDecoder(strings.NewReader(string(b)))
	dec.UseNumber()
	if err := dec.Decode(&m); err != nil {
		return nil, fmt.Errorf("decode %s: %w", b, err)
	}
	return m[name], nil
}

// Canon returns a canonical JSON rendering (sorted keys; encoding/json sorts map keys).
func Canon(v any) string {
	b, _ := json.Marshal(v)
	return string(b)
}

// ---------------------------------------------------------------------------------------
// blocks and heads

func (n *Node) Blockstore() datastore.Blockstore { return datastore.BlockstoreFrom(n.rawRoot()) }

// rawRoot is the store without the fault wrapper (monitors must not be counted or failed).
func (n *Node) rawRoot() corekv.TxnStore {
	if n.Fault != nil {
		return n.Fault.Inner()
	}
	return n.Root
}

func (n *Node) RawRoot() corekv.TxnStore { return n.rawRoot() }

func (n *Node) GetBlock(ctx context.Context, c cid.Cid) (*coreblock.Block, []byte, error) {
	b, err := n.Blockstore().Get(ctx, c)
	if err != nil {
		return nil, nil, err
	}
	blk, err := coreblock.GetFromBytes(b.RawData())
	return blk, b.RawData(), err
}

func (n *Node) MustBlock(ctx context.Context, c cid.Cid) *coreblock.Block {
	b, _, err := n.GetBlock(ctx, c)
	Must(err)
	return b
}

// CopyClosure copies the ancestor-and-link closure of c from src to dst block stores
// (what syncDAG guarantees before it raises the merge event). Returns the number of blocks.
func CopyClosure(ctx context.Context, src, dst *Node, c cid.Cid) int {
	sb, dbs := src.Blockstore(), dst.Blockstore()
	seen := map[string]bool{}
	var walk func(c cid.Cid)
	walk = func(c cid.Cid) {
		if seen[c.KeyString()] {
			return
		}
		seen[c.KeyString()] = true
		b, err := sb.Get(ctx, c)
		Must(err)
		Must(dbs.Put(ctx, b))
		blk, err := coreblock.GetFromBytes(b.RawData())
		if err != nil {
			return
		}
		for _, l := range blk.AllLinks() {
			walk(l.Cid)
		}
	}
	walk(c)
	return len(seen)
}

// Heads lists the raw head set of (docID, fieldID) with stored heights.
func (n *Node) Heads(ctx context.Context, docID, fieldID string) ([]cid.Cid, uint64, error) {
	hs := coreblock.NewHeadSet(datastore.HeadstoreFrom(n.rawRoot()), keys.HeadstoreDocKey{DocID: docID, FieldID: fieldID})
	return hs.List(ctx)
}

func (n *Node) CompositeHeads(ctx context.Context, docID string) []string {
	cids, _, err := n.Heads(ctx, docID, icore.COMPOSITE_NAMESPACE)
	Must(err)
	out := make([]string, 0, len(cids))
	for _, c := range cids {
		out = append(out, c.String())
	}
	sort.Strings(out)
	return out
}

// Merge delivers commit c (closure must already be in the block store) through hook H1.
func (n *Node) Merge(ctx context.Context, docID string, c cid.Cid, collectionID string) error {
	return n.DB.VerifMerge(ctx, event.Merge{DocID: docID, Cid: c, CollectionID: collectionID})
}

// RawScan returns all key/value pairs under prefix from the raw root store.
func (n *Node) RawScan(ctx context.Context, prefix string) map[string]string {
	return ScanStore(ctx, n.rawRoot(), prefix)
}

func ScanStore(ctx context.Context, rs corekv.TxnStore, prefix string) map[string]string {
	out := map[string]string{}
	it, err := rs.Iterator(ctx, corekv.IterOptions{Prefix: []byte(prefix)})
	Must(err)
	defer it.Close()
	for {
		ok, err := it.Next()
		Must(err)
		if !ok {
			break
		}
		v, err := it.Value()
		Must(err)
		out[string(it.Key())] = string(v)
	}
	return out
}

func ParseCid(s string) cid.Cid {
	c, err := cid.Decode(s)
	Must(err)
	return c
}
